"""C34 — Reusing converted modules across tests is invisible.

proof:   coq/Props/C34.v — memoisation transparency for every request sequence (exact condition on
         the key + 2-request witness), relocating reuse transparency, relocation arithmetic
         (reloc_sound / relocate_sound / reloc_compose, 64-bit wrapping), key obligations over lists
         regenerated from the Rust source (translators/cachekey.py -> coq/Memo/GeneratedKey.v)
oracle:  (main detector) generated test suites whose tests share converted submodules, run through
         the real CLI: (a) all tests in one process with reuse on — sequentially in several orders
         and in parallel, (b) every test alone in a fresh process, (c) one process with
         VERYL_DUT_REUSE=0; verdict, message, $display output and (with --wave) the VCD of every
         test must be identical.  The in-process harness vh-memo repeats it at API level
         (build_ir_cached / ProtoModuleCache hits, compute_recurring_set, driven port traces).
"""
import hashlib
import json
import os
import random
import re
import shutil
import subprocess
import sys
from concurrent.futures import ThreadPoolExecutor

from .. import common as C
from ..gen import testseqs as G

sys.path.insert(0, C.VERIF)
from translators import cachekey as T  # noqa: E402

PID = "C34"

MANIFEST = {
    "category": "other",
    "technique": "Coq proof of the cache/relocation models + translator-regenerated key obligations + differential "
                 "oracle on the real CLI and an in-process harness",
    "text": "Partial: Coq theorems (all request sequences) that a keyed cache of converted modules is transparent exactly "
            "when the key is sufficient (with the 2-request witness otherwise), that relocating reuse is transparent for "
            "position-equivariant conversions, and that the relocation arithmetic of inst.rs binds to the same absolute "
            "cells (64-bit wrapping, every delta); the key/relocation field lists are regenerated from the Rust source on "
            "every run and the inclusion obligations re-decided by vm_compute. The conversion itself is not modelled: the "
            "end-to-end claim (same verdict, $display output, VCD and driven port traces with shared caches, in several "
            "orders and in parallel, as from scratch and as with reuse disabled) is validated on generated test suites "
            "through the real `veryl test` CLI and the vh-memo harness.",
    "note": "Trusted: Coq kernel; hand-written models coq/Memo/{MemoModel,RelocModel}.v and the reviewed classification "
            "coq/Memo/KeyReview.v; regex translator translators/cachekey.py; python generator/comparison; hook "
            "`verif hook: cache-hit trace` (stderr lines only). No axioms. Not proved: that Conv::conv is equivariant / reads "
            "only the listed inputs — that part is covered only by the differential oracle.",
}

N_QUICK = 10
N_THOROUGH = 500


# ------------------------------------------------------------------------------------ CLI runs

def materialise(suite, d, only=None, order=None):
    os.makedirs(os.path.join(d, "src"), exist_ok=True)
    with open(os.path.join(d, "Veryl.toml"), "w") as f:
        f.write(G.TOML % suite["name"])
    with open(os.path.join(d, "src", "lib.veryl"), "w") as f:
        f.write(G.suite_src(suite, only))
    if order:
        os.makedirs(os.path.join(d, ".build"), exist_ok=True)
        with open(os.path.join(d, ".build", "test_timings"), "w") as f:
            # the CLI dispatches the test with the largest recorded time first
            f.write("\n".join("%s %.6f" % (n, 100.0 - i) for i, n in enumerate(order)))


def parse_vcd(txt):
    """VCD text -> {hier.name: [(time, value), ...]} with repeated values dropped"""
    scope, ids, out = [], {}, {}
    t = 0
    body = False
    for ln in txt.splitlines():
        ln = ln.strip()
        if not ln:
            continue
        if not body:
            if ln.startswith("$scope"):
                scope.append(ln.split()[2])
            elif ln.startswith("$upscope"):
                scope.pop()
            elif ln.startswith("$var"):
                p = ln.split()
                ids.setdefault(p[3], []).append(".".join(scope + [p[4]]) + "".join(p[5:-1]))
            elif ln.startswith("$enddefinitions"):
                body = True
            continue
        if ln[0] == "#":
            t = int(ln[1:])
        elif ln[0] == "$":
            continue
        else:
            if ln[0] in "bBrR":
                v, i = ln[1:].split()
            else:
                v, i = ln[0], ln[1:]
            v = v.lstrip("0") or "0"
            for nm in ids.get(i, [i]):
                seq = out.setdefault(nm, [])
                if not seq or seq[-1][1] != v:
                    seq.append((t, v))
    return out


class Run:
    def __init__(self, tag):
        self.tag = tag
        self.tests = {}        # name -> {"status","message","output","vcd"}
        self.trace = {}        # cache-trace counters
        self.deltas = []
        self.rc = None
        self.err = ""


def run_cli(veryl, suite, root, tag, order=None, only=None, reuse=True, cpu=None, min_bytes=None, keep=False):
    d = os.path.join(root, tag)
    shutil.rmtree(d, ignore_errors=True)
    materialise(suite, d, only=[only] if only else None, order=order)
    o = suite["opts"]
    cmd = []
    if cpu is not None:
        cmd += ["taskset", "-c", str(cpu)]
    cmd += [veryl, "test", "--format", "json", "--backend", o["backend"], "--seed", "1"]
    if o["four_state"]:
        cmd.append("--4state")
    if o["wave"]:
        cmd.append("--wave")
    env = {"VERYL_VERIF_CACHE_TRACE": "1", "VERYL_AOT_CACHE_DIR": os.path.join(d, "aotcache"),
           "NO_COLOR": "1",
           # the cc backend's background compile + hot swap is C33's subject; compile synchronously
           "VERYL_AOT_C_ASYNC": "0"}
    if not reuse:
        env["VERYL_DUT_REUSE"] = "0"
    if min_bytes is not None:
        env["VERYL_DUT_REUSE_MIN_BYTES"] = str(min_bytes)
    rc, out, err = C.sh(cmd, cwd=d, env=env, timeout=600)
    if rc == 124:
        # a loaded machine (the cc backend runs gcc) is not a hang: one retry with a long limit;
        # only a second timeout is reported
        shutil.rmtree(d, ignore_errors=True)
        materialise(suite, d, only=[only] if only else None, order=order)
        rc, out, err = C.sh(cmd, cwd=d, env=env, timeout=2400)
    r = Run(tag)
    r.rc = rc
    r.err = err[-1500:]
    i = out.find("{")
    rep = None
    if i >= 0:
        try:
            rep = json.loads(out[i:])
        except ValueError:
            rep = None
    if rep is None:
        r.tests = None
    else:
        for t in rep.get("tests", []):
            msg = (t.get("message") or "").replace(d, "<DIR>")
            ent = {"status": t.get("status"), "message": msg, "output": t.get("output") or ""}
            if o["wave"]:
                vp = os.path.join(d, "src", t["name"] + ".vcd")
                ent["vcd"] = parse_vcd(open(vp, errors="replace").read()) if os.path.exists(vp) else None
            r.tests[t["name"]] = ent
    for ln in err.splitlines():
        m = re.match(r"\[verif-cache\] (\S+)(.*)", ln)
        if m:
            r.trace[m.group(1)] = r.trace.get(m.group(1), 0) + 1
            mm = re.search(r"ff_delta=(-?\d+) comb_delta=(-?\d+)", m.group(2))
            if mm:
                r.deltas.append((int(mm.group(1)), int(mm.group(2))))
    if not keep:
        shutil.rmtree(d, ignore_errors=True)
    return r


def plan_runs(suite, rng_seed, norders=2):
    """list of (tag, kwargs) for one suite"""
    rng = random.Random(rng_seed)
    names = [t["name"] for t in suite["tests"]]
    mb = suite["opts"]["min_bytes"]
    runs = []
    for k, od in enumerate(G.orders(rng, names, norders)):
        runs.append(("seq%d" % k, {"order": od, "reuse": True, "single": True, "min_bytes": mb}))
    runs.append(("par", {"order": None, "reuse": True, "single": False, "min_bytes": mb}))
    runs.append(("noreuse", {"order": names, "reuse": False, "single": True, "min_bytes": mb}))
    for n in names:
        runs.append(("alone_" + n, {"only": n, "reuse": True, "single": True, "min_bytes": mb}))
    return runs


def _sid(name):
    return sum(ord(c) for c in name)


def exec_suite(veryl, suite, root, rng_seed, cpus, norders=2):
    """run every mode of one suite; returns {tag: Run}"""
    res = {}
    sroot = os.path.join(root, suite["name"])
    os.makedirs(sroot, exist_ok=True)
    for j, (tag, kw) in enumerate(plan_runs(suite, rng_seed, norders)):
        cpu = cpus[(_sid(suite["name"]) * 7 + j) % len(cpus)] if kw.get("single") else None
        res[tag] = run_cli(veryl, suite, sroot, tag, order=kw.get("order"), only=kw.get("only"),
                           reuse=kw["reuse"], cpu=cpu, min_bytes=kw.get("min_bytes"))
    shutil.rmtree(sroot, ignore_errors=True)
    return res


KNOWN_CLOCK_KEY = "vcd-reused-dut-clock-port-flat"


def vcd_diff(a, b):
    """(key, description) or None.  key = KNOWN_CLOCK_KEY when the ONLY difference is the known
    one: clock ports (`clk`) of instances at/below a de-aliased reuse boundary stay constant in the
    waveform of the shared-cache run while they toggle in the reference run."""
    if a is None or b is None:
        return ("vcd", "VCD file missing in one run")
    diffs = [k for k in sorted(set(a) | set(b)) if a.get(k) != b.get(k)]
    if not diffs:
        return None
    other = []
    for k in diffs:
        xa, xb = a.get(k), b.get(k)
        is_clk_port = k.split(".")[-1] == "clk" and k.count(".") >= 2
        # constant (0, or x in 4-state mode) in the shared run, whatever the reference shows
        if is_clk_port and xa is not None and xb is not None and len(xa) == 1 and xa[0][1] in ("0", "x"):
            continue
        other.append(k)
    if not other:
        return (KNOWN_CLOCK_KEY, "%d clock port(s) of a reused DUT are constant in the waveform (e.g. %s = %s, reference %s...)" % (
            len(diffs), diffs[0], a[diffs[0]], b[diffs[0]][:3]))
    k = other[0]
    xa, xb = a.get(k), b.get(k)
    if xa is None or xb is None:
        return ("vcd", "signal %s present in only one run" % k)
    for i in range(max(len(xa), len(xb))):
        va = xa[i] if i < len(xa) else None
        vb = xb[i] if i < len(xb) else None
        if va != vb:
            return ("vcd", "signal %s: %s vs %s (change #%d); %d signals differ" % (k, va, vb, i, len(diffs)))
    return ("vcd", "signal %s differs" % k)


def judge_suite(suite, res):
    """The property's oracle: every shared-cache run must give every test what the test gets alone
    in a fresh process (and what it gets with reuse disabled).  Returns list of (key, what, detail)."""
    bad = []
    names = [t["name"] for t in suite["tests"]]
    ref = {}
    for n in names:
        r = res.get("alone_" + n)
        if r is None or r.tests is None or n not in r.tests:
            bad.append(("cli-crash", "fresh-process run of test %s produced no report (rc=%s)" % (n, r.rc if r else "?"),
                        {"run": "alone_" + n, "stderr": r.err if r else ""}))
            ref[n] = None
        else:
            ref[n] = r.tests[n]
    for tag, r in res.items():
        if tag.startswith("alone_"):
            continue
        if r.tests is None:
            bad.append(("cli-crash", "run %s produced no report (rc=%s)" % (tag, r.rc), {"run": tag, "stderr": r.err}))
            continue
        for n in names:
            if ref[n] is None:
                continue
            got = r.tests.get(n)
            if got is None:
                bad.append(("cli-missing-test", "run %s did not report test %s" % (tag, n), {"run": tag, "test": n}))
                continue
            if (got["status"], got["message"]) != (ref[n]["status"], ref[n]["message"]):
                bad.append(("cli-verdict", "test %s: verdict %s/%r in run %s, %s/%r alone in a fresh process" % (
                    n, got["status"], got["message"][:80], tag, ref[n]["status"], ref[n]["message"][:80]),
                    {"run": tag, "test": n, "got": got["status"], "want": ref[n]["status"]}))
            elif got["output"] != ref[n]["output"]:
                la, lb = got["output"].splitlines(), ref[n]["output"].splitlines()
                k = next((i for i in range(max(len(la), len(lb))) if (la[i] if i < len(la) else None) != (lb[i] if i < len(lb) else None)), 0)
                bad.append(("cli-display", "test %s: $display output differs in run %s from the fresh-process run at line %d: %r vs %r" % (
                    n, tag, k, la[k] if k < len(la) else None, lb[k] if k < len(lb) else None),
                    {"run": tag, "test": n, "got": got["output"], "want": ref[n]["output"]}))
            elif suite["opts"]["wave"]:
                df = vcd_diff(got.get("vcd"), ref[n].get("vcd"))
                if df:
                    key = df[0] if df[0] == KNOWN_CLOCK_KEY and tag != "noreuse" else "cli-vcd"
                    bad.append((key, "test %s: waveform (--wave) differs in run %s from the fresh-process run: %s" % (n, tag, df[1]),
                                {"run": tag, "test": n, "diff": df[1]}))
    return bad


def suite_public(suite):
    return {k: suite[k] for k in ("name", "lib", "tests", "opts", "tags")}


def shrink_suite(veryl, suite, root, rng_seed, cpus, key):
    """drop tests while the same kind of violation is still observed (bounded effort)"""
    cur = suite
    changed = True
    budget = 6
    while changed and budget > 0 and len(cur["tests"]) > 2:
        changed = False
        for i in range(len(cur["tests"])):
            cand = dict(cur)
            cand["tests"] = cur["tests"][:i] + cur["tests"][i + 1:]
            budget -= 1
            res = exec_suite(veryl, cand, root, rng_seed, cpus)
            if any(b[0] == key for b in judge_suite(cand, res)):
                cur = cand
                changed = True
                break
            if budget <= 0:
                break
    return cur


# ------------------------------------------------------------------------------------ harness (in-process)

def harness_case(binary, suite, root, tag, mode, seq, reuse, recurring, stim_seed, cpu=None, min_bytes=None):
    d = os.path.join(root, tag)
    shutil.rmtree(d, ignore_errors=True)
    materialise(suite, d)
    o = suite["opts"]
    line = " ".join([d, mode, "jit" if o["backend"] != "interpret" else "interp", "1" if o["four_state"] else "0",
                     "1" if reuse else "0", "1" if recurring else "0", str(stim_seed), ",".join(seq)])
    env = {"VERYL_VERIF_CACHE_TRACE": "1"}
    if min_bytes is not None:
        env["VERYL_DUT_REUSE_MIN_BYTES"] = str(min_bytes)
    cmd = ([] if cpu is None else ["taskset", "-c", str(cpu)]) + [binary]
    rc, out, err = C.sh(cmd, inp=line + "\n", env=env, timeout=600)
    shutil.rmtree(d, ignore_errors=True)
    ol = [x for x in out.splitlines() if x.strip()]
    hits = {}
    for ln in err.splitlines():
        m = re.match(r"\[verif-cache\] (\S+)", ln)
        if m:
            hits[m.group(1)] = hits.get(m.group(1), 0) + 1
    if not ol or not ol[-1].startswith("OK "):
        return None, (ol[-1] if ol else "rc=%d %s" % (rc, err[-300:])), hits
    try:
        j = json.loads(ol[-1][3:])
    except ValueError:
        return None, "unparsable harness output", hits
    if mode == "tb":
        for ent in j["results"]:
            ent["trace"] = parse_vcd(ent["trace"]) if ent.get("trace") else {}
    return j, "", hits


def dut_tops(suite):
    """non-test tops for the driven mode: the wrapper modules with their default parameters"""
    return sorted(suite["wrappers"].keys())


def harness_suite(binary, suite, root, rng_seed, cpus):
    """API-level repetition: returns list of (key, what, detail), stats"""
    rng = random.Random(rng_seed ^ 0x5eed)
    names = [t["name"] for t in suite["tests"]]
    bad = []
    stats = {"proto-hit": 0, "stmt-hit": 0, "cases": 0}
    sroot = os.path.join(root, suite["name"] + "_h")
    os.makedirs(sroot, exist_ok=True)
    mb = suite["opts"]["min_bytes"]
    cpu = cpus[(_sid(suite["name"]) * 7 + 3) % len(cpus)]
    # tb mode: a sequence with repetitions (second request of a top = ProtoModuleCache hit)
    seq = list(names)
    rng.shuffle(seq)
    seq = seq + [rng.choice(names), seq[0]]
    stim = rng.randrange(1 << 30)
    for mode, sq in (("tb", seq), ("drive", None)):
        if mode == "drive":
            tops = dut_tops(suite)
            if not tops:
                continue
            sq = list(tops)
            rng.shuffle(sq)
            sq = sq + [sq[0]] + ([sq[-1]] if len(sq) > 1 else [])
        shared, e1, h1 = harness_case(binary, suite, sroot, mode + "_shared", mode, sq, True, True, stim, cpu, mb)
        plain, e2, h2 = harness_case(binary, suite, sroot, mode + "_plain", mode, sq, False, False, stim, cpu, mb)
        stats["cases"] += 2
        for k in ("proto-hit", "stmt-hit"):
            stats[k] += h1.get(k, 0)
        if shared is None or plain is None:
            bad.append(("harness-crash", "vh-memo %s mode: the run %s did not complete (shared caches: %r; no caches: %r)" % (
                mode, "WITH shared caches" if shared is None and plain is not None else "without caches" if shared is not None else "in both modes",
                e1, e2), {"mode": mode, "seq": sq, "shared_run": e1, "uncached_run": e2}))
            continue
        # reference per top: the FIRST request of every top in the run with every cache off
        # (fresh ProtoModuleCache per request, dut_reuse off)
        ref = {}
        for ent in plain["results"]:
            ref.setdefault(ent["top"], ent)
        for i, ent in enumerate(shared["results"]):
            want = ref.get(ent["top"])
            if want is None:
                continue
            for fld in ("verdict", "output", "trace"):
                if ent.get(fld) != want.get(fld):
                    key, extra = "harness-" + fld, ""
                    if fld == "trace" and mode == "tb":
                        df = vcd_diff(ent.get(fld), want.get(fld))
                        key = df[0] if df[0] == KNOWN_CLOCK_KEY else "harness-vcd"
                        extra = ": " + df[1]
                    bad.append((key, "in-process %s mode: request #%d (top %s) with shared caches differs from the "
                                "uncached conversion in %s%s" % (mode, i, ent["top"], fld, extra),
                                {"mode": mode, "seq": sq, "index": i, "top": ent["top"], "field": fld,
                                 "got": str(ent.get(fld))[:600], "want": str(want.get(fld))[:600], "stim_seed": stim}))
                    break
        # the uncached run must be self-consistent too (same top twice = same result)
        for i, ent in enumerate(plain["results"]):
            want = ref[ent["top"]]
            if any(ent.get(f) != want.get(f) for f in ("verdict", "output", "trace")):
                bad.append(("harness-nondeterministic", "uncached conversion of %s is not repeatable in-process" % ent["top"],
                            {"mode": mode, "seq": sq, "index": i}))
    shutil.rmtree(sroot, ignore_errors=True)
    return bad, stats


# ------------------------------------------------------------------------------------ run

def translate(res):
    """translator step: regenerate coq/Memo/GeneratedKey.v from the working tree"""
    try:
        with C.FileLock("coq"):
            R, changed = T.write(C.REPO, C.COQ)
        res.obligation("translator cachekey: anchors found in the Rust source", True)
        res.coverage["generated_key"] = R
        return R
    except T.TranslatorError as ex:
        res.obligation("translator cachekey: anchors found in the Rust source", False, str(ex))
        res.translator_error = str(ex)
        return None


def uncovered_report():
    pre = "From VV Require Import Memo.GeneratedKey Memo.KeyReview.\n"
    try:
        vals = C.coq_eval_values("c34_uncovered", pre, [
            "(proto_uncovered, stmt_uncovered, pipeline_uncovered, (ob_proto, ob_stmt, ob_reloc, ob_chunk, ob_pipeline, ob_env))"])
        return vals[0]
    except Exception as ex:  # model no longer evaluates
        return "evaluation failed: %s" % str(ex)[-300:]


def run(tier, seed, replay):
    res = C.Result(PID, "other", tier, seed)
    res.coverage["trusted_base"] = C.std_trusted_base([
        "models coq/Memo/MemoModel.v (build_ir_cached, try_reuse_or_claim) and coq/Memo/RelocModel.v (VarOffset::adjust, "
        "adjust_offsets, reloc_stmt, reloc_var_meta, apply_values_ptr binding); isize/pointer arithmetic as 64-bit wrapping",
        "translators/cachekey.py (regex/bracket extraction; output echoed in evidence key generated_key) and the reviewed "
        "classification coq/Memo/KeyReview.v",
        "real CLI built from the working tree (C.cli_build) and vh-memo harness; repo hook `verif hook: cache-hit trace` "
        "(stderr lines under VERYL_VERIF_CACHE_TRACE=1, no behaviour change)"])
    res.coverage["explanation"] = MANIFEST["text"]
    res.assumptions = [
        "memo theorems: key equality decidable; the conversion is a function of the request (no hidden mutable state)",
        "reuse_transparent: conversion position-equivariant (not proved for Conv::conv; validated by the oracle)",
        "reloc_sound: compiled blocks occur only at statement-list level (flat); offsets/deltas as 64-bit two's complement",
        "key obligations: name-level (which inputs take part in which key), per-process constants {ir, config} reviewed"]
    R = translate(res)
    proved = C.prove(res, PID) if R is not None else False

    ok, bins, log = C.cli_build()
    res.obligation("CLI build from /repo working tree", ok, log[-400:])
    if not ok:
        res.violation("cli-build", "the veryl CLI no longer builds: " + log[-300:], {"log": log[-2000:]}, no_input=True)
        return res.finish()
    veryl = bins["veryl"]
    okh, hbin, hlog = C.harness_build("vh-memo")
    res.obligation("harness build vh-memo from /repo working tree", okh, hlog[-400:])
    if not okh:
        res.violation("harness-build", "the memo harness no longer builds against /repo: " + hlog[-300:],
                      {"log": hlog[-2000:]}, no_input=True)
        return res.finish()

    cpus = sorted(os.sched_getaffinity(0))
    root = C.scratch_dir("c34")
    try:
        if replay:
            rp = json.load(open(replay))
            suite = rp["suite"]
            suite.setdefault("wrappers", rp.get("wrappers", {}))
            rs = rp.get("run_seed", 0)
            out = exec_suite(veryl, suite, root, rs, cpus)
            bad = judge_suite(suite, out)
            hb, _ = harness_suite(hbin, suite, root, rs, cpus)
            for tag, r in sorted(out.items()):
                print("replay run %-14s rc=%s %s" % (tag, r.rc, {n: (t["status"], len(t["output"])) for n, t in (r.tests or {}).items()}))
            for k, w, dct in bad + hb:
                res.violation(k, w, {"suite": suite_public(suite), "wrappers": suite.get("wrappers", {}), "run_seed": rs, "detail": dct})
            return res.finish()

        n = N_QUICK if tier == "quick" else N_THOROUGH
        rng = random.Random(seed * 7919 + 34)
        suites = corpus_suites() + [G.gen_suite(rng, i) for i in range(n)]
        run_seeds = [rng.randrange(1 << 30) for _ in suites]

        def work(i):
            s = suites[i]
            out = exec_suite(veryl, s, root, run_seeds[i], cpus, 2 if tier == "quick" else 3)
            hb, hs = harness_suite(hbin, s, root, run_seeds[i], cpus)
            return i, out, hb, hs

        results = [None] * len(suites)
        with ThreadPoolExecutor(max_workers=max(2, C.NCPU)) as ex:
            for i, out, hb, hs in ex.map(work, range(len(suites))):
                results[i] = (out, hb, hs)

        evaluations = 0
        nontrivial = set()
        all_bad = []
        for i, (s, (out, hb, hs)) in enumerate(zip(suites, results)):
            evaluations += len(out) + hs["cases"]
            bad = judge_suite(s, out)
            hits = sum(r.trace.get("stmt-hit", 0) for r in out.values())
            for tag, r in out.items():
                for k, v in r.trace.items():
                    res.hist("cache_events", k, v)
                for fd, cd in r.deltas:
                    res.hist("relocation_delta_sign", "ff%s comb%s" % ("-" if fd < 0 else "0" if fd == 0 else "+",
                                                                         "-" if cd < 0 else "0" if cd == 0 else "+"))
            res.hist("cache_events", "harness-proto-hit", hs["proto-hit"])
            res.hist("cache_events", "harness-stmt-hit", hs["stmt-hit"])
            o = s["opts"]
            res.hist("suite_options", "backend=%s" % o["backend"])
            res.hist("suite_options", "four_state=%s" % o["four_state"])
            res.hist("suite_options", "wave=%s" % o["wave"])
            res.hist("suite_options", "min_bytes=%s" % o["min_bytes"])
            for k, v in s["tags"].items():
                res.hist("suite_shape", "%s=%s" % (k, v))
            statuses = sorted(set(t["status"] for r in out.values() if r.tests for t in r.tests.values()))
            res.hist("verdicts_seen", ",".join(statuses))
            if hits > 0 and s["tags"]["recurring_specs"] >= 1:
                nontrivial.add(hashlib.sha256((json.dumps(s["opts"], sort_keys=True) + G.suite_src(s)).encode()).hexdigest())
            if i < 3:
                res.sample({"suite": s["name"], "opts": o, "tags": s["tags"], "stmt_hits": hits,
                            "harness": hs, "tests": {n: (t["status"], t["output"][:60]) for n, t in (out["seq0"].tests or {}).items()}})
            for b in bad + hb:
                all_bad.append((i, b))
        res.coverage["evaluations"] = evaluations
        res.coverage["distinct_nontrivial"] = len(nontrivial)
        res.coverage["rule"] = ("one evaluation = one process running a whole test sequence (CLI: 3 sequential orders + parallel + reuse-off + "
                                "each test alone; harness: shared vs uncached, tb and driven mode); non-trivial = suite in which a "
                                "component recurs across tests AND the hook reported >=1 relocated reuse hit; distinct by suite text+options")
        res.coverage["suites"] = len(suites)
        unknown_bad = [b for _, b in all_bad if b[0] not in res.known]
        res.coverage["known_finding_observations"] = len(all_bad) - len(unknown_bad)
        res.obligation("oracle: shared-cache runs = fresh-process runs = reuse-off runs on %d suites "
                       "(apart from the listed known finding)" % len(suites), not unknown_bad)
        res.obligation("reuse actually exercised (relocated hits reported by the hook)", len(nontrivial) > 0 or not suites)

        reported = set()
        for i, (k, w, dct) in all_bad:
            if k in reported:
                continue
            reported.add(k)
            s = suites[i]
            if k in res.known:
                res.violation(k, w, {})
                continue
            s2 = s
            if k.startswith("cli-") and k != "cli-crash":
                try:
                    s2 = shrink_suite(veryl, s, root, run_seeds[i], cpus, k)
                except Exception:
                    s2 = s
            res.violation(k, w, {"suite": suite_public(s2), "wrappers": s2.get("wrappers", {}), "run_seed": run_seeds[i], "detail": dct})
    finally:
        shutil.rmtree(root, ignore_errors=True)

    if R is None and not res.violations:
        res.violation("translator", "translator cachekey no longer finds its anchors: %s" % getattr(res, "translator_error", ""),
                      {"no_longer_checks": "key obligations of Props/C34.v (GeneratedKey.v not regenerated)"}, no_input=True)
    if R is not None and not proved and not res.violations:
        pf = getattr(res, "proof_failure", {})
        res.violation("proof", "Props/C34.v is no longer established (%s); uncovered inputs / failed obligation groups: %s" % (
            pf.get("where", "audit"), uncovered_report()),
            {"no_longer_checks": "theorems of Props/C34.v (key obligations over the regenerated lists)", **pf}, no_input=True)
    return res.finish()


def corpus_suites():
    d = os.path.join(C.VERIF, "corpus", PID)
    out = []
    if os.path.isdir(d):
        for f in sorted(os.listdir(d)):
            if f.endswith(".json"):
                s = json.load(open(os.path.join(d, f)))
                s.setdefault("wrappers", {})
                out.append(s)
    return out
