"""C17 — Compile-time evaluation follows IEEE 1800 operator semantics.

proof:   coq/Props/C17.v (model of Op::eval_value_* / Value vs the L1 reference BV/Ops1800.v)
tie:     correspondence veryl_analyzer::ir::Op::eval_value_{unary,binary} vs VV.Value.ValueModel
oracle:  BV/Ops1800.v via Value/SpecGlue.v evaluated on the same cases (impl result vs IEEE 1800)

Three-way diff per case: implementation (vh-value harness, debug profile = overflow checks on; release
profile too in the thorough tier) vs model (fidelity of the transcription) vs IEEE reference (the
property's oracle).  The model and the reference are extracted to OCaml (ExtrOcamlBasic only) for
speed; a sample of every run is re-evaluated inside Coq with vm_compute as a guard on the extraction.
"""
import json
import os
import random
from collections import Counter

from .. import common as C
from ..gen import bits as G

PID = "C17"

MANIFEST = {
    "category": "proof",
    "technique": "Coq proof (bit-level / modular arithmetic, all widths) + three-way correspondence impl / model / IEEE reference",
    "text": "Theorems over the Gallina transcription of Op::eval_value_unary/binary and Value::expand (both representations, "
            "u64 wrap-around and checked shifts explicit): for every operand value, width and signedness the result equals the "
            "IEEE 1800-2017 clause 11.4 reference (BV/Ops1800.v) for unary + - ~ ! and the six reductions and for binary "
            "+ - * / % ** & | ^ ~^ << <<< >> >>> < <= > >= == != ==? !=? && || (== != && outside two refuted deviation classes); the "
            "U64 and BigUint paths agree on the same numbers; no panic on admissible operands. ** is proved outside two further "
            "refuted classes (x/z-signed exponent, exponent >= 2^64) with the context signedness of its left operand. The model is tied to veryl_analyzer by exact comparison "
            "(representation, payload, mask, width, signed, panic) on exhaustive small-width and boundary-biased random cases, "
            "and the reference is evaluated directly against the implementation's results.",
    "note": "Trusted: Coq kernel; our reading of IEEE 1800 clause 11.4 in coq/BV/Ops1800.v and of the analyzer's calling "
            "convention in coq/Value/SpecGlue.v; hand-written model coq/Value/ValueModel.v (num-bigint assumed exact); OCaml "
            "extraction (ExtrOcamlBasic) + driver, cross-checked against vm_compute on a sample each run; vh-value harness; "
            "python generator. No axioms. Preconditions: operand widths <= context width for context-determined operators, "
            "width >= 1, widths < 2^32. Float operators, literal parsing, As/Ternary/Concatenation are outside. Known "
            "deviations of the unchanged code are keyed in KNOWN_FINDINGS.txt (== / != with x/z facing 1, 0 && x, ** with "
            "x/z-signed or >= 2^64 exponent).",
}

COQ_CASE = """From VV Require Import Value.SpecGlue Value.ValueProofsCmp Value.ValueProofsPow Value.ValueTheorems.
Open Scope N_scope.
Inductive case := CU (o : op) (x : value) (w : N) (s : bool) | CB (o : op) (x y : value) (w : N) (s : bool).
Definition obs5 (v : value) := (match rp v with RU => 0 | RB => 1 end, pl v, mk v, wd v, if sg v then 1 else 0).
Definition sp (v : vec) := (vp v, vm v).
(* identity of the known deviation classes (KNOWN_FINDINGS.txt) *)
Definition cls (c : case) : N :=
  match c with
  | CB Eq x y _ _ => if eq_known_dev x y then 1 else 0
  | CB Ne x y _ _ => if eq_known_dev x y then 2 else 0
  | CB LogicAnd x y _ _ => if land_known_dev x y then 3 else 0
  | CB Pow x y _ _ => if pow_xz_sign_dev y then 4 else if pow_big_exp_dev y then 5 else 0
  | _ => 0
  end.
Definition run (c : case) :=
  match c with
  | CU o x w s => (option_map obs5 (eval_unary o x w s), option_map sp (spec_unary o x w s), cls c)
  | CB o x y w s => (option_map obs5 (eval_binary o x y w s), option_map sp (spec_binary_exec o x y w s), cls c)
  end.
"""

CLASS_KEYS = {1: "Eq:xz-vs-one", 2: "Ne:xz-vs-one", 3: "LogicAnd:false-and-xz",
              4: "Pow:xz-exponent-sign", 5: "Pow:exponent-ge-2^64"}

EXTRACT_V = COQ_CASE + """
Require Extraction. Require Import ExtrOcamlBasic.
Definition n_push (n : N) (b : bool) : N := if b then N.succ_double n else N.double n.
Fixpoint pos_bits (p : positive) : list bool :=
  match p with xH => [true] | xO q => false :: pos_bits q | xI q => true :: pos_bits q end.
Definition n_bits (n : N) : list bool := match n with N0 => [] | Npos p => pos_bits p end.
Definition mk_value (r : bool) (p m w : N) (s : bool) : value := mkV (if r then RB else RU) p m w s.
Definition op_list : list op :=
  [Add; Sub; Mul; Div; Rem; Pow; BitAnd; BitOr; BitXor; BitXnor; BitNand; BitNor; BitNot; Eq; Ne;
   EqWildcard; NeWildcard; Greater; GreaterEq; Less; LessEq; LogicAnd; LogicOr; LogicNot;
   LogicShiftL; LogicShiftR; ArithShiftL; ArithShiftR; As].
Extraction "c17_model.ml" run n_push n_bits mk_value CU CB op_list.
"""

DRIVER_ML = r"""
open C17_model
let n_of_hex (s : string) : n =
  let r = ref N0 in
  String.iter (fun c ->
    let d = if c >= '0' && c <= '9' then Char.code c - 48 else Char.code c - 87 in
    for k = 3 downto 0 do r := n_push !r ((d lsr k) land 1 = 1) done) s;
  !r
let hex_of_n (x : n) : string =
  let bits = Array.of_list (n_bits x) in
  let len = Array.length bits in
  if len = 0 then "0" else begin
    let nd = (len + 3) / 4 in
    let b = Bytes.create nd in
    for d = 0 to nd - 1 do
      let v = ref 0 in
      for k = 0 to 3 do let i = d * 4 + k in if i < len && bits.(i) then v := !v lor (1 lsl k) done;
      Bytes.set b (nd - 1 - d) "0123456789abcdef".[!v]
    done;
    Bytes.to_string b end
let op_names = [| "Add"; "Sub"; "Mul"; "Div"; "Rem"; "Pow"; "BitAnd"; "BitOr"; "BitXor"; "BitXnor"; "BitNand";
  "BitNor"; "BitNot"; "Eq"; "Ne"; "EqWildcard"; "NeWildcard"; "Greater"; "GreaterEq"; "Less"; "LessEq"; "LogicAnd";
  "LogicOr"; "LogicNot"; "LogicShiftL"; "LogicShiftR"; "ArithShiftL"; "ArithShiftR"; "As" |]
let op_of (s : string) =
  let r = ref (-1) in
  Array.iteri (fun i nm -> if nm = s then r := i) op_names;
  if !r < 0 then failwith ("op " ^ s) else List.nth op_list !r
let value t i =
  mk_value (t.(i) = "B") (n_of_hex t.(i + 1)) (n_of_hex t.(i + 2)) (n_of_hex t.(i + 3)) (t.(i + 4) = "1")
let () =
  try
    while true do
      let line = input_line stdin in
      let t = Array.of_list (String.split_on_char ' ' (String.trim line)) in
      let c =
        if t.(0) = "U" then CU (op_of t.(1), value t 4, n_of_hex t.(2), t.(3) = "1")
        else CB (op_of t.(1), value t 4, value t 9, n_of_hex t.(2), t.(3) = "1") in
      let ((mo, spc), k) = run c in
      let ms = match mo with
        | None -> "N"
        | Some ((((r, p), m), w), s) ->
            Printf.sprintf "%s %s %s %s %s" (hex_of_n r) (hex_of_n p) (hex_of_n m) (hex_of_n w) (hex_of_n s) in
      let ss = match spc with None -> "N" | Some (p, m) -> Printf.sprintf "%s %s" (hex_of_n p) (hex_of_n m) in
      print_string (ms ^ " ; " ^ ss ^ " ; " ^ hex_of_n k ^ "\n")
    done
  with End_of_file -> ()
"""


def hex_wire(c):
    def v(x):
        return "%s %x %x %x %d" % (x[0], x[1], x[2], x[3], x[4])
    if c[0] == "U":
        return "U %s %x %d %s" % (c[1], c[2], c[3], v(c[4]))
    return "B %s %x %d %s %s" % (c[1], c[2], c[3], v(c[4]), v(c[5]))


def model_eval_ocaml(binary, cases):
    outs = C.run_lines(binary, [hex_wire(c) for c in cases], timeout=1800)
    res = []
    for ln in outs:
        parts = [p.strip() for p in ln.split(";")]
        if len(parts) != 3:
            raise RuntimeError("model driver output: %r" % ln)
        mo = None if parts[0] == "N" else tuple(int(t, 16) for t in parts[0].split())
        spc = None if parts[1] == "N" else tuple(int(t, 16) for t in parts[1].split())
        res.append((mo, spc, int(parts[2], 16)))
    return res


def model_eval_coq(cases, name="c17"):
    """the same evaluation inside Coq (vm_compute): replay, and the guard on the extracted code"""
    terms = [G.case_coq(c) for c in cases]
    vals = C.coq_eval_sharded(name, COQ_CASE, terms, lambda l: "map run %s" % l, shard=400, timeout=1500)
    out = []
    for v in vals:
        mo, spc, k = v
        mo = None if mo == "None" else tuple(mo[1])
        spc = None if spc == "None" else tuple(spc[1])
        out.append((mo, spc, k))
    return out


def impl_eval(binary, cases):
    outs = C.run_lines(binary, [G.case_wire(c) for c in cases])
    res = []
    for ln in outs:
        t = ln.split()
        if t and t[0] == "OK":
            res.append((0 if t[1] == "U" else 1, int(t[2]), int(t[3]), int(t[4]), int(t[5])))
        else:
            res.append(None)
    return res


def classify(c, im, k):
    """identity of a deviation from the IEEE reference: a known class (decided in Coq by the
    predicates the theorems use) or operator + panic / 2-state / 4-state"""
    if im is None:
        return "%s:%s:panic" % (c[0], c[1])
    if k in CLASS_KEYS:
        return CLASS_KEYS[k]
    x = c[4]
    y = c[5] if c[0] == "B" else None
    xz = (x[2] != 0) or (y is not None and y[2] != 0)
    return "%s:%s:%s" % (c[0], c[1], "4state" if xz else "2state")


def case_size(c):
    return (c[4][3] + (c[5][3] if c[0] == "B" else 0), c[2], c[4][1] + (c[5][1] if c[0] == "B" else 0))


def corpus_cases():
    d = os.path.join(C.VERIF, "corpus", PID)
    out = []
    if os.path.isdir(d):
        for f in sorted(os.listdir(d)):
            if f.endswith(".txt"):
                for ln in open(os.path.join(d, f)):
                    ln = ln.split("#")[0].strip()
                    if ln:
                        out.append(G.parse_wire(ln))
    return out


def run(tier, seed, replay):
    res = C.Result(PID, "proof", tier, seed)
    res.coverage["trusted_base"] = C.std_trusted_base([
        "reference: coq/BV/Ops1800.v is our reading of IEEE 1800-2017 clause 11.4 (per-bit tables, integer definitions); "
        "coq/Value/SpecGlue.v our reading of how the analyzer's (operands, context width, signed) maps onto it",
        "model: coq/Value/ValueModel.v transcribes value.rs / op.rs eval_value_*; u64 as N mod 2^64 with checked shifts; BigUint as N (num-bigint assumed exact)",
        "OCaml extraction of model + reference (ExtrOcamlBasic only) and its driver; a sample of each run is re-evaluated by vm_compute inside Coq",
        "vh-value harness (harness/value) calls Op::eval_value_unary/binary through the public API (debug profile: overflow checks on)"])
    res.assumptions = ["operands well-formed (payload, mask < 2^width; U64 iff width <= 64, or the same numbers held as BigUint at the context width); "
                       "context width >= operand widths for context-determined operators, >= 1 and < 2^32, as the analyzer passes them",
                       "** (Pow): context signedness = signedness of the left operand; outside the classes pow_xz_sign_dev / pow_big_exp_dev",
                       "float operators, literal parsing, As / Ternary / Concatenation / ArrayLiteral / Condition are outside the model"]
    proved = C.prove(res, PID)
    ok, binary, log = C.harness_build("vh-value")
    res.obligation("harness build vh-value (debug) from /repo working tree", ok, log[-400:])
    if not ok:
        res.violation("harness-build", "the value harness no longer builds against /repo: " + log[-300:], {"log": log[-2000:]}, no_input=True)
        return res.finish()

    if replay:
        rp = json.load(open(replay))
        if "case" not in rp:
            print("replay: no concrete input recorded (%s)" % rp.get("what", ""))
            if not proved:
                res.violation(rp.get("key", "proof"), "no longer established", {"no_longer_checks": rp.get("no_longer_checks", "")}, no_input=True)
            return res.finish()
        c = tuple(tuple(x) if isinstance(x, list) else x for x in rp["case"])
        im = impl_eval(binary, [c])[0]
        mo, spc, k = model_eval_coq([c], "c17_replay")[0]
        print("replay: %s\n  impl=%s\n  model=%s\n  ieee1800=%s" % (G.case_wire(c), im, mo, spc))
        res.coverage["evaluations"] = 1
        if spc is not None and (im is None or (im[1], im[2]) != spc):
            res.violation(classify(c, im, k), "implementation %s, IEEE 1800 gives (payload, mask) = %s on %s" % (im, spc, G.case_wire(c)),
                          {"case": rp["case"], "case_wire": G.case_wire(c), "impl": im, "ieee1800": spc})
        elif im != mo:
            res.violation("correspondence", "implementation and model differ on %s" % G.case_wire(c),
                          {"no_longer_checks": "correspondence", "case": rp["case"], "impl": im, "model": mo}, no_input=True)
        return res.finish()

    okm, mbin, mlog = C.ocaml_build("c17", EXTRACT_V, DRIVER_ML)
    res.obligation("extraction of model + reference to OCaml", okm, mlog[-400:])

    rng = random.Random(seed * 1000003 + 17)
    corpus = corpus_cases()
    cases = list(corpus)
    if tier == "quick":
        # sized for <= 3 min on an idle machine (~20 k cases): width 1 exhaustively, a seeded sample of
        # the width-2 sweep; the full sweeps run in the thorough tier
        cases += G.exhaustive(1)
        cases += rng.sample(G.exhaustive(2), 5000)
        cases += G.both_reps(rng, 2000)
        cases += G.random_cases(rng, 10000)
        cases += G.ooc_cases(rng, 600)
    else:
        cases += G.exhaustive(3)
        cases += G.both_reps(rng, 40000)
        cases += G.random_cases(rng, 300000)
        cases += G.ooc_cases(rng, 6000)
    impl = impl_eval(binary, cases)
    if okm:
        model = model_eval_ocaml(mbin, cases)
        # guard on the extracted code: the same function evaluated by the Coq kernel's VM on a sample
        idx = sorted(set(list(range(len(corpus))) + rng.sample(range(len(cases)), 300 if tier == "quick" else 3000)))
        guard = model_eval_coq([cases[i] for i in idx], "c17_guard")
        bad = [i for i, g in zip(idx, guard) if g != model[i]]
        res.obligation("extracted OCaml model = vm_compute inside Coq on %d sampled cases" % len(idx), not bad,
                       "" if not bad else "first: %s ocaml=%s coq=%s" % (G.case_wire(cases[bad[0]]), model[bad[0]], guard[idx.index(bad[0])]))
        if bad:
            raise RuntimeError("extracted model disagrees with Coq on %s" % G.case_wire(cases[bad[0]]))
    else:
        model = model_eval_coq(cases)
    res.coverage["evaluations"] = len(cases)

    if tier != "quick":
        okr, rbin, rlog = C.harness_build("vh-value", release=True)
        res.obligation("harness build vh-value (release) from /repo working tree", okr, rlog[-400:])
        if okr:
            sub = list(range(0, len(cases), 3))
            rel = impl_eval(rbin, [cases[i] for i in sub])
            diff = [i for i, r in zip(sub, rel) if r != impl[i]]
            res.obligation("release profile = debug profile on %d cases" % len(sub), not diff,
                           "" if not diff else G.case_wire(cases[diff[0]]))
            for i in diff[:1]:
                res.violation("profile:%s:%s" % (cases[i][0], cases[i][1]),
                              "debug and release builds disagree on %s" % G.case_wire(cases[i]),
                              {"case": list(cases[i][:6]), "case_wire": G.case_wire(cases[i]), "debug": impl[i]})

    mism = []
    dev = {}
    ops = Counter()
    distinct = set()
    for i, (c, im, (mo, spc, k)) in enumerate(zip(cases, impl, model)):
        ops[c[1]] += 1
        w = c[4][3]
        res.hist("width_class", "<=4" if w <= 4 else "<=64" if w <= 64 else "<=128" if w <= 128 else ">128")
        res.hist("operand_state", "4state" if (c[4][2] or (c[0] == "B" and c[5][2])) else "2state")
        if c[0] == "B":
            res.hist("operand_reps", c[4][0] + c[5][0])
        if c[4][1] not in (0, 1) or c[4][2] != 0:
            distinct.add(G.case_wire(c))
        if im != mo:
            mism.append(i)
        ooc = len(c) > 6 and c[6] == "ooc"
        if ooc:
            res.count("out_of_contract_cases")
            if im is None:
                res.count("out_of_contract_panics_matched_by_model" if mo is None else "out_of_contract_panics_unmatched")
        if not ooc and spc is not None and (im is None or (im[1], im[2]) != spc):
            dev.setdefault(classify(c, im, k), []).append(i)
        if i % (len(cases) // 5 + 1) == 0:
            res.sample({"case": G.case_wire(c), "impl": im, "ieee1800": spc})
    res.coverage["distinct_nontrivial"] = len(distinct)
    res.coverage["rule"] = ("corpus; exhaustive: all ops x operand widths 1..%d x all 4-state values x signedness x context widths {max, max+1} "
                            "(quick: width 1 in full + 5000 sampled cases of the width-2 sweep); "
                            "both-representation pairs (the same numbers as U64 and as BigUint, width <= 64); random cases with widths 1..256 "
                            "biased to 63/64/65/127/128/129, corner values (0, 1, -1, MIN, MAX), X/Z operands, unsized all-bit literals, "
                            "shift amounts / exponents around the width, 64, 2^32, 2^64-1, 2^64; out-of-contract calls (width 0, operand wider "
                            "than the context) compared with the model only, panics included; non-trivial = first operand not a bare 0/1 "
                            "constant; distinct by serialised case" % (1 if tier == "quick" else 3))
    res.coverage["ops_histogram"] = dict(ops)
    res.coverage["correspondence_mismatches"] = len(mism)
    res.coverage["ieee_deviation_classes"] = {k: len(v) for k, v in dev.items()}
    res.obligation("correspondence impl = model on %d cases (rep, payload, mask_xz, width, signed; panic <-> None)" % len(cases), not mism)
    # representation agreement measured on the implementation itself
    pairs = [i for i, c in enumerate(cases) if len(c) > 6 and c[6] == "pairB"]
    bad_pairs = [i for i in pairs if impl[i] is None or impl[i - 1] is None or impl[i][1:4] != impl[i - 1][1:4]]
    res.obligation("implementation: BigUint path = U64 path on %d same-number pairs" % len(pairs), not bad_pairs)
    for i in bad_pairs[:1]:
        res.violation("repr:%s:%s" % (cases[i][0], cases[i][1]),
                      "U64 and BigUint representations disagree: %s -> %s but %s -> %s" % (
                          G.case_wire(cases[i - 1]), impl[i - 1], G.case_wire(cases[i]), impl[i]),
                      {"case": list(cases[i][:6]), "case_wire": G.case_wire(cases[i]), "u64_case": G.case_wire(cases[i - 1]),
                       "impl_big": impl[i], "impl_u64": impl[i - 1]})
    for key, idxs in sorted(dev.items()):
        i = min(idxs, key=lambda j: case_size(cases[j]))     # smallest witness
        c = cases[i]
        res.violation(key, "%s: implementation %s, IEEE 1800 gives (payload, mask) = %s on %s" % (key, impl[i], model[i][1], G.case_wire(c)),
                      {"case": list(c[:6]), "case_wire": G.case_wire(c), "impl": impl[i], "ieee1800": model[i][1], "count": len(idxs)})
    if mism and not res.violations:
        i = min(mism, key=lambda j: case_size(cases[j]))
        res.violation("correspondence", "implementation and model differ; no deviation from the IEEE reference found on the explored cases",
                      {"no_longer_checks": "correspondence Op::eval_value_* = VV.Value.ValueModel.eval_*", "case": list(cases[i][:6]),
                       "case_wire": G.case_wire(cases[i]), "impl": impl[i], "model": model[i][0], "mismatching_cases": len(mism)}, no_input=True)
    if not proved and not res.violations:
        pf = getattr(res, "proof_failure", {})
        res.violation("proof", "Props/C17.v is no longer established: %s" % pf.get("where", "audit"),
                      {"no_longer_checks": "theorems of Props/C17.v", **pf}, no_input=True)
    return res.finish()
