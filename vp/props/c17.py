"""C17 — Compile-time evaluation follows IEEE 1800 operator semantics.

proof:   coq/Props/C17.v (model of Op::eval_value_* / Value vs the L1 reference BV/Ops1800.v)
tie:     correspondence veryl_analyzer::ir::Op::eval_value_{unary,binary} vs VV.Value.ValueModel
oracle:  BV/Ops1800.v via Value/SpecGlue.v evaluated on the same cases (impl result vs IEEE 1800)
"""
import json
import random
from collections import Counter

from .. import common as C
from ..gen import bits as G

PID = "C17"

PRE = """From VV Require Import Value.SpecGlue.
Open Scope N_scope.
Inductive case := CU (o : op) (x : value) (w : N) (s : bool) | CB (o : op) (x y : value) (w : N) (s : bool).
Definition obs5 (v : value) := (match rp v with RU => 0 | RB => 1 end, pl v, mk v, wd v, if sg v then 1 else 0).
Definition sp (v : vec) := (vp v, vm v).
Definition run (c : case) :=
  match c with
  | CU o x w s => (option_map obs5 (eval_unary o x w s), option_map sp (spec_unary o x w s))
  | CB o x y w s => (option_map obs5 (eval_binary o x y w s), option_map sp (spec_binary_exec o x y w s))
  end.
"""


def model_eval(cases, name="c17"):
    terms = [G.case_coq(c) for c in cases]
    vals = C.coq_eval_sharded(name, PRE, terms, lambda l: "map run %s" % l, shard=2500)
    out = []
    for v in vals:
        mo, spc = v
        mo = None if mo == "None" else tuple(mo[1])
        spc = None if spc == "None" else tuple(spc[1])
        out.append((mo, spc))
    return out


def impl_eval(binary, cases):
    outs = C.run_lines(binary, [G.case_wire(c) for c in cases])
    res = []
    for ln in outs:
        t = ln.split()
        if t and t[0] == "OK":
            res.append((0 if t[1] == "U" else 1, int(t[2]), int(t[3]), int(t[4]), int(t[5])))
        else:
            res.append(None)
    return res


def classify(c, im, spc):
    """identity of a deviation from the IEEE reference: operator + which clause of the semantics"""
    op = c[1]
    x = c[4]
    y = c[5] if c[0] == "B" else None
    xz = (x[2] != 0) or (y is not None and y[2] != 0)
    if im is None:
        return "%s:%s:panic" % (c[0], op)
    kind = "4state" if xz else "2state"
    return "%s:%s:%s" % (c[0], op, kind)


def run(tier, seed, replay):
    res = C.Result(PID, "proof", tier, seed)
    res.coverage["trusted_base"] = C.std_trusted_base([
        "reference: coq/BV/Ops1800.v is our reading of IEEE 1800-2017 clause 11.4 (per-bit tables, integer definitions)",
        "model: coq/Value/ValueModel.v transcribes value.rs / op.rs eval_value_*; u64 as N mod 2^64 with checked shifts; BigUint as N (num-bigint assumed exact)",
        "vh-value harness (harness/value) calls Op::eval_value_unary/binary through the public API"])
    res.assumptions = ["operands well-formed (payload, mask < 2^width; U64 iff width <= 64); context width >= operand widths for context-determined operators, as the analyzer passes them",
                       "float operators, literal parsing and ArrayLiteral/Condition are outside the model"]
    proved = C.prove(res, PID)
    ok, binary, log = C.harness_build("vh-value")
    res.obligation("harness build vh-value from /repo working tree", ok, log[-400:])
    if not ok:
        res.violation("harness-build", "the value harness no longer builds against /repo: " + log[-300:], {"log": log[-2000:]}, no_input=True)
        return res.finish()

    if replay:
        rp = json.load(open(replay))
        c = tuple(tuple(x) if isinstance(x, list) else x for x in rp["case"])
        im = impl_eval(binary, [c])[0]
        mo, spc = model_eval([c], "c17_replay")[0]
        print("replay: impl=%s model=%s ieee1800=%s" % (im, mo, spc))
        if spc is not None and (im is None or (im[1], im[2]) != spc):
            res.violation(classify(c, im, spc), "implementation differs from IEEE 1800 reference", {"case": rp["case"]})
        return res.finish()

    rng = random.Random(seed * 1000003 + 17)
    cases = G.exhaustive(2 if tier == "quick" else 3)
    cases += G.random_cases(rng, 30000 if tier == "quick" else 600000)
    impl = impl_eval(binary, cases)
    model = model_eval(cases)
    res.coverage["evaluations"] = len(cases)
    mism = []
    dev = {}
    ops = Counter()
    distinct = set()
    for i, (c, im, (mo, spc)) in enumerate(zip(cases, impl, model)):
        ops[c[1]] += 1
        w = c[4][3]
        res.hist("width_class", "<=4" if w <= 4 else "<=64" if w <= 64 else "<=128" if w <= 128 else ">128")
        if c[4][1] not in (0, 1) or c[4][2] != 0:
            distinct.add(G.case_wire(c))
        if im != mo:
            mism.append(i)
        if spc is not None and (im is None or (im[1], im[2]) != spc):
            dev.setdefault(classify(c, im, spc), []).append(i)
        if i % (len(cases) // 5 + 1) == 0:
            res.sample({"case": G.case_wire(c), "impl": im, "ieee1800": spc})
    res.coverage["distinct_nontrivial"] = len(distinct)
    res.coverage["rule"] = ("exhaustive: all ops x operand widths 1..%d x all 4-state values x signedness x context widths; plus random cases with widths 1..256 "
                            "biased to 63/64/65/127/128/129, corner values (0, 1, -1, MIN, MAX), X/Z operands, shift amounts around the width and 2^32, 2^64-1; "
                            "non-trivial = first operand not a bare 0/1 constant; distinct by serialised case" % (2 if tier == "quick" else 3))
    res.coverage["ops_histogram"] = dict(ops)
    res.coverage["correspondence_mismatches"] = len(mism)
    res.coverage["ieee_deviation_classes"] = {k: len(v) for k, v in dev.items()}
    res.obligation("correspondence impl = model on %d cases (rep, payload, mask_xz, width, signed; panic <-> None)" % len(cases), not mism)
    for key, idxs in sorted(dev.items()):
        # smallest witness: fewest total operand bits
        i = min(idxs, key=lambda j: (cases[j][4][3] + (cases[j][5][3] if cases[j][0] == "B" else 0), cases[j][2]))
        c = cases[i]
        res.violation(key, "%s: implementation %s, IEEE 1800 gives (payload, mask) = %s on %s" % (key, impl[i], model[i][1], G.case_wire(c)),
                      {"case": list(c), "case_wire": G.case_wire(c), "impl": impl[i], "ieee1800": model[i][1], "count": len(idxs)})
    if mism and not res.violations:
        i = mism[0]
        res.violation("correspondence", "implementation and model differ; no deviation from the IEEE reference found on the explored cases",
                      {"no_longer_checks": "correspondence Op::eval_value_* = VV.Value.ValueModel.eval_*", "case": list(cases[i]),
                       "case_wire": G.case_wire(cases[i]), "impl": impl[i], "model": model[i][0], "mismatching_cases": len(mism)}, no_input=True)
    if not proved and not res.violations:
        pf = getattr(res, "proof_failure", {})
        res.violation("proof", "Props/C17.v is no longer established: %s" % pf.get("where", "audit"),
                      {"no_longer_checks": "theorems of Props/C17.v", **pf}, no_input=True)
    return res.finish()
