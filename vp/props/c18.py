"""C18 — Run-time operator evaluation matches the reference at every width.

proof:    coq/Props/C18.v — every wide_ops helper (Gallina transcription coq/Wide/WideModel.v of
          crates/simulator/src/wide_ops.rs) computes the arithmetic / bit-vector function it stands
          for, for all limb counts and widths, and after apply_mask equals the IEEE-1800 operator of
          coq/BV/Ops1800.v on 2-state operands.
tie 1:    correspondence  wide_ops::* (called on guarded byte buffers by vh-wide)  vs  WideModel
          (vm_compute) on generated cases; the property's statement itself (python integers) is
          evaluated on the implementation's results as well; out-of-bounds reads/writes are detected
          by guard words.
tie 2:    engines: generated modules `assign o = <expr over ports>` run through veryl_simulator under
          every engine configuration (interpreter / Cranelift / cc backend x 2-/4-state x
          disable_ff_opt); `Simulator::get` is compared with the Coq reference evaluation
          (coq/Wide/ExprEval.v: IEEE sizing/sign rules over Ops1800) and with the analyzer's
          compile-time evaluation of the same expression with literal operands.
"""
import json
import os
import random
import shutil

from .. import common as C
from ..gen import wide as G

PID = "C18"

MANIFEST = {
    "category": "proof",
    "technique": "Coq proof (induction over limb lists, bit-level extensionality) + model/implementation correspondence "
                 "+ differential run of all simulator engines against a Coq IEEE-1800 reference evaluator",
    "text": "Theorems over the Gallina transcription of wide_ops.rs for ALL limb counts, widths and shift amounts: add/sub/negate/mul "
            "are arithmetic mod 2^(64n) (u128 accumulator never overflows), shl/lshr are N.shiftl/shiftr, ashr is the IEEE >>> of the "
            "w-bit signed value, resize is zero/sign extension and never depends on limbs above the source width, "
            "ucmp/scmp/scmp_asym/eq/ne compare the (signed) integers, apply_mask/fill_ones are mod 2^w / 2^w-1, and after apply_mask "
            "each equals the Ops1800 (IEEE 1800) operator on 2-state operands. The model is tied to the code by correspondence on "
            "generated calls of the real helpers (guarded buffers: out-of-bounds access detected). The engines themselves "
            "(interpreter, Cranelift lowering, cc backend) are not modelled: they are run on generated operator expressions (widths "
            "1..300) and compared with a Coq reference evaluator (IEEE sizing/sign rules over Ops1800) and with compile-time evaluation.",
    "note": "Trusted: Coq kernel; hand-written model coq/Wide/WideModel.v (usize index arithmetic unbounded); IEEE reading in "
            "coq/BV/Ops1800.v and coq/Wide/ExprEval.v; extraction (ExtrOcamlBasic) + OCaml line drivers; vh-wide harness; python "
            "generators. wide_is_all_ones / wide_popcnt_parity are validated, not proved. The engine part is differential validation, "
            "not proof; the JIT engines (Cranelift, cc) are compared only on modules without any width above 128 bits plus a core of "
            ">128-bit unsigned binary-operator modules, because the unchanged JIT lowering fails above 128 bits in several recorded "
            "ways (KNOWN_FINDINGS.txt); the interpreter and compile-time evaluation are compared at all widths. No axioms.",
}

HELPER_N = {"quick": 24000, "thorough": 300000}
ENGINE_MODULES = {"quick": 48, "thorough": 48}
ENGINE_VECTORS = {"quick": 6, "thorough": 6}


# ------------------------------------------------------------------------------------------------ helpers stream

def corpus_helper_cases():
    out = []
    d = os.path.join(C.VERIF, "corpus", PID)
    f = os.path.join(d, "helpers.jsonl")
    if os.path.exists(f):
        for ln in open(f):
            ln = ln.strip()
            if ln and not ln.startswith("#"):
                out.append(json.loads(ln))
    return out


_MODEL_BIN = [None]


def helper_model_build():
    """the Gallina model extracted to OCaml (ExtrOcamlBasic only) + a line driver"""
    if _MODEL_BIN[0] is None:
        ok, binp, log = C.ocaml_build("wide_model", G.HELPER_EXTRACT_V, G.HELPER_DRIVER_ML)
        if not ok:
            raise RuntimeError("extraction of VV.Wide.WideModel failed: " + log[-1500:])
        _MODEL_BIN[0] = binp
    return _MODEL_BIN[0]


def helper_model_eval(cases, name="c18h"):
    outs = C.run_lines(helper_model_build(), [G.helper_wire(c) for c in cases])
    res = []
    for ln in outs:
        r = G.parse_helper_out(ln)
        res.append(("I", r[1]) if r[0] == "N" else r)
    return res


def helper_impl_eval(binary, cases):
    return G.run_lines_robust(binary, [G.helper_wire(c) for c in cases])


def judge_helper(c, line):
    """the property's own oracle on the implementation's output -> (key, text) or None"""
    op = c["op"]
    if line.startswith("OOBW"):
        return ("helper-oob-write:" + op, "wide_%s wrote outside its destination buffer" % op)
    if line.startswith("OOBR"):
        return ("helper-oob-read:" + op, "wide_%s: result depends on memory outside its operand buffers "
                "(or part of the destination is left unwritten): %s" % (op, line[:120]))
    if line == "NOTRUN":
        return None
    got = G.parse_helper_out(line)
    if got[0] == "BAD":
        return ("helper-panic:" + op, "wide_%s did not return: %s" % (op, line[:160]))
    want = G.helper_spec(c)
    if want is not None and not G.same_result(got, want):
        return ("helper:" + op, "wide_%s returned %s, the operator it implements gives %s" % (op, got[1], want[1]))
    return None


def case_size(c):
    return sum(len(c.get(k, [])) for k in ("a", "b", "src", "dst", "dst0"))


def run_helpers(res, binary, tier, seed):
    rng = random.Random(seed * 104729 + 18)
    cases = corpus_helper_cases()
    ncorp = len(cases)
    cases += [G.gen_helper_case(rng) for _ in range(HELPER_N[tier])]
    impl = helper_impl_eval(binary, cases)
    model = helper_model_eval(cases)
    res.count("evaluations", len(cases))
    distinct = set()
    oracle_fail = {}
    mism = []
    for i, (c, ln, mo) in enumerate(zip(cases, impl, model)):
        res.hist("helper_op_histogram", c["op"])
        for t in G.helper_shape(c):
            res.hist("helper_shape_histogram", t)
        if case_size(c) >= 2:
            distinct.add(G.helper_wire(c))
        bad = judge_helper(c, ln)
        if bad:
            k = bad[0]
            if k not in oracle_fail or case_size(c) < case_size(oracle_fail[k][0]):
                oracle_fail[k] = (c, ln, bad[1])
        got = G.parse_helper_out(ln)
        if ln != "NOTRUN" and (got[0] == "BAD" or not G.same_result(got, mo)):
            mism.append(i)
        if i in (ncorp, ncorp + 1):
            res.sample({"helper_case": G.helper_wire(c)[:300], "impl": ln[:200]})
    res.coverage["helper_cases"] = len(cases)
    res.coverage["helper_distinct"] = len(distinct)
    res.coverage["helper_correspondence_mismatches"] = len(mism)
    res.obligation("correspondence wide_ops::* = VV.Wide.WideModel on %d generated helper calls" % len(cases), not mism)
    res.obligation("property oracle (arithmetic meaning, no out-of-bounds access) on the implementation's %d results" % len(cases),
                   not oracle_fail)
    for k, (c, ln, what) in sorted(oracle_fail.items()):
        res.violation(k, what, {"kind": "helper", "case": c, "wire": G.helper_wire(c), "impl": ln[:400],
                                "required": repr(G.helper_spec(c))})
    if mism and not oracle_fail:
        i = min(mism, key=lambda j: case_size(cases[j]))
        res.violation("correspondence", "wide_ops helper and its Gallina model disagree; the arithmetic meaning of the result "
                      "is still met (or the case is outside the specified domain)",
                      {"no_longer_checks": "correspondence wide_ops::wide_%s = VV.Wide.WideModel" % cases[i]["op"],
                       "kind": "helper", "case": cases[i], "wire": G.helper_wire(cases[i]), "impl": impl[i][:400],
                       "model": repr(model[i]), "mismatching_cases": len(mism)}, no_input=True)
    return len(distinct)


# ------------------------------------------------------------------------------------------------ engines stream

_EXPR_BIN = [None]


def expr_model_build():
    if _EXPR_BIN[0] is None:
        ok, binp, log = C.ocaml_build("expr_model", G.EXPR_EXTRACT_V, G.EXPR_DRIVER_ML)
        if not ok:
            raise RuntimeError("extraction of VV.Wide.ExprEval failed: " + log[-1500:])
        _EXPR_BIN[0] = binp
    return _EXPR_BIN[0]


def ref_eval(points, name="c18e"):
    """points: list of (wo, expr, ports, values, masks) -> list of (payload, mask): the Coq reference
    evaluator VV.Wide.ExprEval.eval_assign (extracted to OCaml)"""
    lines = ["%d %s" % (wo, G.expr_wire(e, ports, vals, masks)) for (wo, e, ports, vals, masks) in points]
    outs = C.run_lines(expr_model_build(), lines)
    res = []
    for ln in outs:
        t = ln.split()
        if len(t) != 3 or t[0] != "OK":
            raise RuntimeError("reference evaluator failed: " + ln[:200])
        res.append((int(t[1]), int(t[2])))
    return res


def sim_env(cache_dir):
    return {"VERYL_AOT_CACHE_DIR": cache_dir}


def engine_expect(cfg, ref):
    """what an engine configuration must return for reference value ref=(p, m); None = not comparable.
    Results with x bits (division by zero with known operands) are not compared: a 2-state engine
    cannot represent them, and the 4-state engines do not follow IEEE x-propagation through
    relational / equality operators (observed on the unchanged tree; x semantics is outside the
    known-operand scope of this stream)."""
    p, m = ref
    if m != 0:
        return None
    return (p, 0)


def cfg_class(cfg):
    eng = "cc" if "c" in cfg else ("cranelift" if "j" in cfg else "interpreter")
    return eng + ("-4state" if "4" in cfg else "")


def describe(mod, k, vals):
    return {"module": mod.single(k).text(), "expr": G.expr_veryl(mod.exprs[k], mod.ports),
            "ports": [(p.name, p.width, p.signed) for p in mod.ports],
            "values": ["%s=%s" % (p.name, G.lit_text(p.width, p.signed, v)) for p, v in zip(mod.ports, vals)],
            "out_width": mod.outs[k].width}


def run_single(binary, cache_dir, mod, vals, cfgs):
    ln = G.sim_line(cfgs, mod.name, mod.text(), [o.name for o in mod.outs], mod.ports, [vals])
    out = C.run_lines(binary, [ln], env=sim_env(cache_dir), nshards=1)[0]
    return G.parse_sim(out)


def shrink_engine(binary, cache_dir, mod, k, vals, cfg):
    """smallest failing (expression, output width) reachable by descending into operands"""
    cur_e, cur_w = mod.exprs[k], mod.outs[k].width
    for _ in range(6):
        progressed = False
        for child in G.expr_children(cur_e):
            if child[0] in ("var", "lit"):
                continue
            for wo in (cur_w, 300, 64, 1):
                m1 = mod.single(k, child, wo)
                try:
                    ref = ref_eval([(wo, child, mod.ports, vals, None)], name="c18_shrink")[0]
                except Exception:
                    continue
                r = run_single(binary, cache_dir, m1, vals, [cfg])
                if isinstance(r, dict) and isinstance(r.get(cfg), list):
                    got = r[cfg][0][0]
                    want = engine_expect(cfg, ref)
                    if got is not None and want is not None and (got[0], got[1]) != want:
                        cur_e, cur_w, progressed = child, wo, True
                        break
            if progressed:
                break
        if not progressed:
            break
    return cur_e, cur_w


def run_engines(res, binary, tier, seed, only=None):
    rng = random.Random(seed * 1299709 + 1800)
    cache_dir = C.scratch_dir("c18_aot")
    try:
        return _run_engines(res, binary, tier, seed, rng, cache_dir)
    finally:
        shutil.rmtree(cache_dir, ignore_errors=True)


def corpus_modules():
    """hand-written seeds: corpus/C18/engines.jsonl, one {ports:[[w,signed],..], exprs:[..python tuples as lists..],
    outs:[w..], vectors:[[..]]} per line"""
    out = []
    f = os.path.join(C.VERIF, "corpus", PID, "engines.jsonl")
    if not os.path.exists(f):
        return out

    def tup(x):
        if isinstance(x, list):
            if x and x[0] == "cat":
                return ("cat", [tup(y) for y in x[1]])
            return tuple(tup(y) for y in x)
        return x
    for i, ln in enumerate(open(f)):
        ln = ln.strip()
        if not ln or ln.startswith("#"):
            continue
        d = json.loads(ln)
        ports = [G.Port("p%d" % j, w, bool(s)) for j, (w, s) in enumerate(d["ports"])]
        outs = [G.Port("o%d" % j, w, False) for j, w in enumerate(d["outs"])]
        m = G.ExprModule("K%d" % i, ports, outs, [tup(e) for e in d["exprs"]])
        m.key = d.get("key")
        out.append((m, d["vectors"]))
    return out


def _run_engines(res, binary, tier, seed, rng, cache_dir):
    nvec = ENGINE_VECTORS[tier]
    mods = corpus_modules()
    for i in range(ENGINE_MODULES[tier]):
        r = rng.random()
        if r < 0.25:
            ops = rng.choice([G.ARITH, G.SHIFT, G.REL, ["+", "-", "*"], ["<<", ">>", ">>>"], ["<:", ">=", "=="], ["/", "%"]])
            m = G.gen_module(rng, i, depth=1, ops=ops)
        elif r < 0.33:
            m = G.gen_narrow_shift_module(rng, i)
        elif r < 0.45:
            m = G.gen_wide_core_module(rng, i)
        elif r < 0.55:
            m = G.gen_signed_shift_module(rng, i)
            mods.append((m, G.gen_signed_shift_vectors(rng, m, nvec)))
            continue
        elif r < 0.70:
            m = G.gen_root_mask_module(rng, i)
            mods.append((m, G.gen_root_mask_vectors(rng, m, nvec)))
            continue
        else:
            m = G.gen_module(rng, i)
        mods.append((m, G.gen_vectors(rng, m.ports, nvec)))
    INTERP = ["-", "f", "4", "4f"]

    def cfgs_of(m):
        if getattr(m, "key", None) or getattr(m, "kind", "") == "widecore":
            return G.ENGINE_CONFIGS
        mw = G.module_max_width(m)
        if mw <= 64:
            return G.ENGINE_CONFIGS
        if mw <= 128:
            return INTERP + ["j", "jf", "4j", "4jf"]
        return INTERP
    lines = []
    for m, vecs in mods:
        res.hist("engine_module_kind", {10: "all engines", 8: "interpreter+cranelift (some width in 65..128)",
                                        4: "interpreter only (some width > 128)"}[len(cfgs_of(m))])
        lines.append(G.sim_line(cfgs_of(m), m.name, m.text(), [o.name for o in m.outs], m.ports, vecs))
        lines.append(G.sim_line(["4"], m.name + "C", m.const_text(vecs),
                                ["c%d_%d" % (vi, k) for vi in range(len(vecs)) for k in range(len(m.outs))], [], [[]]))
    outs = C.run_lines(binary, lines, env=sim_env(cache_dir), timeout=1500, nshards=min(C.NCPU, max(1, len(lines) // 4)))
    points = []
    for m, vecs in mods:
        for vals in vecs:
            for k in range(len(m.outs)):
                points.append((m.outs[k].width, m.exprs[k], m.ports, vals, None))
    refs = ref_eval(points)
    pi = 0
    fails = {}          # key -> (size, replay)
    compared = 0
    distinct = set()
    for mi, (m, vecs) in enumerate(mods):
        eng = G.parse_sim(outs[2 * mi])
        con = G.parse_sim(outs[2 * mi + 1])
        if not isinstance(eng, dict):
            res.hist("engine_module_status", "rejected:" + str(eng[1])[:60])
            pi += len(vecs) * len(m.outs)
            continue
        res.hist("engine_module_status", "ok")
        con_ok = isinstance(con, dict) and isinstance(con.get("4"), list)
        res.hist("comptime_module_status", "ok" if con_ok else "rejected:" + (str(con[1]) if not isinstance(con, dict) else str(con.get("4")))[:60])
        mkey = getattr(m, "key", None)
        cfgs = cfgs_of(m)
        for cfg in cfgs:
            if not isinstance(eng.get(cfg), list):
                res.hist("engine_config_status", "%s:%s" % (cfg, str(eng.get(cfg))[:50]))
                why = str(eng.get(cfg, ("ERR", "missing"))[1])
                if why.startswith("panic"):
                    # an engine that dies on a design the others run does not compute the result
                    key = mkey or "engine-panic:%s" % cfg_class(cfg)
                    if key not in fails:
                        fails[key] = (0, (m, 0, vecs[0], cfg, ("panic", why), ("no panic", ""), (0, 0)))
        for vi, vals in enumerate(vecs):
            for k in range(len(m.outs)):
                ref = refs[pi]
                pi += 1
                ops = G.expr_ops(m.exprs[k])
                for o in set(ops):
                    res.hist("engine_operator_histogram", o)
                wmax = max([m.outs[k].width] + [m.ports[i].width for i in G.expr_ports(m.exprs[k])])
                res.hist("engine_width_histogram", "<=64" if wmax <= 64 else "<=128" if wmax <= 128 else ">128")
                res.hist("engine_reference_histogram", "has-x" if ref[1] else "known")
                distinct.add((mi, k, vi))
                for cfg in cfgs:
                    r = eng.get(cfg)
                    if not isinstance(r, list):
                        continue
                    got = r[vi][k]
                    want = engine_expect(cfg, ref)
                    if got is None or want is None:
                        continue
                    compared += 1
                    if (got[0], got[1]) != want:
                        key = mkey or "engine:%s:%s" % (cfg_class(cfg), ops[0] if ops else "?")
                        size = len(ops) * 1000 + wmax
                        if key not in fails or size < fails[key][0]:
                            fails[key] = (size, (m, k, vals, cfg, got, want, ref))
                if con_ok:
                    got = con["4"][0][vi * len(m.outs) + k]
                    if got is not None and ref[1] == 0:
                        compared += 1
                        if (got[0], got[1]) != ref:
                            key = mkey or "comptime:%s" % (ops[0] if ops else "?")
                            size = len(ops) * 1000 + wmax
                            if key not in fails or size < fails[key][0]:
                                fails[key] = (size, (m, k, vals, "comptime", got, ref, ref))
    res.count("evaluations", compared)
    res.coverage["engine_points"] = len(distinct)
    res.coverage["engine_comparisons"] = compared
    res.obligation("every engine configuration = Coq reference (ExprEval over Ops1800) = compile-time evaluation on %d "
                   "(expression, operand vector) points, %d comparisons (recorded findings aside: %d)" % (
                       len(distinct), compared, sum(1 for k in fails if k in res.known)),
                   not [k for k in fails if k not in res.known])
    if mods:
        m, vecs = mods[len(mods) // 2]
        res.sample({"engine_module": m.text()[:600], "vector": ["%x" % v for v in vecs[0]]})
    for key, (_, (m, k, vals, cfg, got, want, ref)) in sorted(fails.items()):
        if key in res.known:
            res.violation(key, "", {})
            continue
        d = describe(m, k, vals)
        e2, w2 = m.exprs[k], m.outs[k].width
        if got[0] == "panic":
            res.violation(key, "engine config '%s' (%s) panics on a module that the other engines run: %s" % (
                cfg, cfg_class(cfg), got[1][:200]),
                {"kind": "engine-panic", "config": cfg, "module": m.text(), "ports": [[p.width, p.signed] for p in m.ports]})
            continue
        if cfg != "comptime":
            try:
                e2, w2 = shrink_engine(binary, cache_dir, m, k, vals, cfg)
            except Exception as ex:      # shrinking is best effort
                res.notes.append("shrink failed: %r" % ex)
        m2 = m.single(k, e2, w2)
        d2 = describe(m2, 0, vals)
        what = ("%s returned payload=%x mask=%x for `%s` (output width %d) with %s; IEEE 1800 reference: payload=%x mask=%x" % (
            "compile-time evaluation" if cfg == "comptime" else "engine config '%s' (%s)" % (cfg, cfg_class(cfg)),
            got[0], got[1], d["expr"], d["out_width"], ", ".join(d["values"]), want[0], want[1]))
        res.violation(key, what, {"kind": "engine", "config": cfg, "original": d, "minimized": d2,
                                  "ports": [[p.width, p.signed] for p in m.ports], "values": vals,
                                  "expr": json.loads(json.dumps(e2)), "out_width": w2,
                                  "got": list(got), "required": list(want)})
    return len(distinct)


# ------------------------------------------------------------------------------------------------ replay

def do_replay(res, binary, rp):
    if rp.get("kind") == "helper":
        c = rp["case"]
        ln = helper_impl_eval(binary, [c])[0]
        print("replay: impl =", ln)
        bad = judge_helper(c, ln)
        if bad:
            res.violation(bad[0], bad[1], {"kind": "helper", "case": c, "impl": ln})
        else:
            mo = helper_model_eval([c], name="c18_replay")[0]
            if not G.same_result(G.parse_helper_out(ln), mo):
                res.violation("correspondence", "helper and model disagree", {"kind": "helper", "case": c, "impl": ln,
                                                                              "model": repr(mo)}, no_input=True)
        return
    if rp.get("kind") == "engine":
        def tup(x):
            if isinstance(x, list):
                if x and x[0] == "cat":
                    return ("cat", [tup(y) for y in x[1]])
                return tuple(tup(y) for y in x)
            return x
        ports = [G.Port("p%d" % j, w, bool(s)) for j, (w, s) in enumerate(rp["ports"])]
        e = tup(rp["expr"])
        wo = rp["out_width"]
        m = G.ExprModule("R", ports, [G.Port("o0", wo, False)], [e])
        vals = rp["values"]
        ref = ref_eval([(wo, e, ports, vals, None)], name="c18_replay")[0]
        cache_dir = C.scratch_dir("c18_aot")
        try:
            cfg = rp["config"]
            if cfg == "comptime":
                ln = G.sim_line(["4"], "RC", m.const_text([vals]), ["c0_0"], [], [[]])
                out = G.parse_sim(C.run_lines(binary, [ln], env=sim_env(cache_dir), nshards=1)[0])
                got = out["4"][0][0] if isinstance(out, dict) and isinstance(out.get("4"), list) else None
                want = ref
            else:
                out = run_single(binary, cache_dir, m, vals, [cfg])
                got = out[cfg][0][0] if isinstance(out, dict) and isinstance(out.get(cfg), list) else None
                want = engine_expect(cfg, ref)
        finally:
            shutil.rmtree(cache_dir, ignore_errors=True)
        print("replay: got =", got, "required =", want)
        if got is not None and want is not None and (got[0], got[1]) != tuple(want):
            res.violation(rp.get("key", "engine"), "replayed: engine result differs from the IEEE 1800 reference",
                          {"kind": "engine", "config": cfg, "module": m.text(), "values": vals, "got": list(got),
                           "required": list(want)})


def run(tier, seed, replay):
    res = C.Result(PID, "proof", tier, seed)
    res.coverage["trusted_base"] = C.std_trusted_base([
        "model: coq/Wide/WideModel.v transcribes crates/simulator/src/wide_ops.rs (limb lists; usize arithmetic unbounded)",
        "IEEE 1800 reading: coq/BV/Ops1800.v (operators) and coq/Wide/ExprEval.v (11.6/11.8 sizing and sign propagation)",
        "vh-wide harness (harness/wide): calls wide_ops::* on guarded buffers; builds Simulator from source text per Config",
        "engines (ir/expression.rs, cranelift/expression.rs, aot_c/emit.rs) are validated differentially, not modelled"])
    res.assumptions = [
        "helper theorems assume well-formed limbs (< 2^64), operand buffers of exactly n limbs, nb < 65536, width < 65536",
        "signed comparison / ashr theorems assume operands zero-padded above their width (as the callers keep them)",
        "engine stream: 2-state configurations are compared only where the IEEE result has no x bit"]
    proved = C.prove(res, PID)

    ok, binary, log = C.harness_build("vh-wide")
    res.obligation("harness build vh-wide from /repo working tree", ok, log[-400:])
    if not ok:
        res.violation("harness-build", "the wide/simulator harness no longer builds against /repo: " + log[-300:],
                      {"log": log[-2000:]}, no_input=True)
        return res.finish()

    if replay:
        do_replay(res, binary, json.load(open(replay)))
        return res.finish()

    d1 = run_helpers(res, binary, tier, seed)
    d2 = run_engines(res, binary, tier, seed)
    res.coverage["distinct_nontrivial"] = d1 + d2
    res.coverage["rule"] = ("helpers: distinct wire lines with >= 2 operand limbs (ops x limb counts 0..9 x widths straddling 64-bit "
                            "limbs x shift amounts {0,1,63,64,65,w-1,w,w+1,64n,2^63..}); engines: distinct (module, expression, "
                            "operand vector) points over ports of widths 1..300, each run under all engine configurations")
    if not proved and not res.violations:
        pf = getattr(res, "proof_failure", {})
        res.violation("proof", "Props/C18.v is no longer established: %s" % pf.get("where", "audit"),
                      {"no_longer_checks": "theorems of Props/C18.v", **pf}, no_input=True)
    return res.finish()
