"""C23 — Migration yields valid current-syntax code with the same tokens.

proof:   coq/Props/C23.v   migrate_content / walk_texts / migrate_separation (+ the refuted old
                           byte-length arithmetic) over the model coq/Pos/MigrateModel.v
tie:     correspondence  veryl_migrator::Migrator::migrate  vs  VV.Pos.MigrateModel.push_token folded
         over the item stream the old-grammar parser reports (harness mode O), byte for byte
oracle:  the property itself on the real code: old-grammar programs (for-loop index types inserted
         into generated designs, layout noise, multi-byte text) through Migrator + current Parser:
         the result parses, its tokens are the original's minus exactly the `: Type` tokens, all
         comments are kept in order; and through the real CLI: `veryl migrate --check` passes on
         already-current programs and `veryl migrate` leaves them byte-identical.
"""
import json
import os
import random
import shutil
import subprocess

from .. import common as C
from ..gen import posmodel as PM
from ..gen import vtext as V
from .c12 import comment_texts, hx, parse_tokens, unhx

PID = "C23"

MANIFEST = {
    "category": "other",
    "technique": "Coq proof about the migrator's spacing reconstruction (content, separation) + model/implementation "
                 "correspondence + end-to-end oracle through the old parser, Migrator, current parser and the CLI",
    "text": "Proved (Coq, all token lists): the migrated text is exactly the pushed token and comment texts in order, each preceded "
            "only by newline strings and blanks; the pushed items are all tokens except the for-loop index type and all comments; "
            "items that are apart in the source are written with a non-empty separator (columns counted in characters). The model "
            "of push_token is tied to veryl_migrator byte for byte on the item streams of generated old-grammar programs. Not proved: "
            "the two generated parsers and the formatter pass of `veryl migrate`; validated end to end (result parses, token stream = "
            "original minus `: Type`, comments kept, already-current programs untouched by the real CLI).",
    "note": "Trusted: Coq kernel; model coq/Pos/MigrateModel.v (u32 as unbounded N with saturating subtraction), its OCaml extraction + driver; vh-pos harness "
            "(modes M, O, T); the real `veryl` CLI for the unchanged-if-current part; python generator (old grammar = current "
            "grammar + mandatory `: ScalarType` after a for-statement index, read off crates/migrator/veryl.par) and lexer derived "
            "from the .par files. Partial proof + validation, hence category other.",
}


def auto_newline(text):
    i = text.find("\n")
    if i > 0 and text[i - 1] == "\r":
        return "\r\n"
    return "\n"


def strip_for_types(toks):
    """token texts of an old-grammar program -> the same without the `: Type` of for statements
    (`for` IDENT `:` ... up to the `in` that follows)"""
    out = []
    i = 0
    n = len(toks)
    while i < n:
        if toks[i] == "for" and i + 2 < n and toks[i + 2] == ":":
            out.append(toks[i])
            out.append(toks[i + 1])
            j = i + 3
            while j < n and toks[j] != "in":
                j += 1
            i = j
            continue
        out.append(toks[i])
        i += 1
    return out


def all_comments(text, lx):
    out = []
    for (k, s, st, md) in lx.lex(text if text.endswith("\n") else text + "\n"):
        if k == "CommentsTerm":
            out.extend(t for _, t in comment_texts(s.encode()))
    return out


def parse_old_items(ln):
    t = ln.split()
    if not t or t[0] != "OK":
        return None
    n = int(t[1])
    out = []
    p = 2
    for _ in range(n):
        out.append((t[p], t[p + 1] == "1", int(t[p + 2]), int(t[p + 3]), unhx(t[p + 4])))
        p += 5
    return out


def model_migrate(cases, name="c23"):
    """cases: [(nl bytes, items)] -> list of output bytes from the Coq model"""
    terms = []
    for nl, items in cases:
        its = []
        for (k, dropped, line, col, tx) in items:
            if dropped and k == "t":
                continue
            its.append("mkM %s %d %d" % (C.cstr(list(tx)), line, col))
        terms.append("(%s, [%s])" % (C.cstr(list(nl)), "; ".join(its)))
    pre = ("From VV Require Import Pos.MigrateModel.\nOpen Scope N_scope.\n"
           "Definition run (c : bytes * list mtok) := out_bytes (fold_left (push_token (fst c)) (snd c) init_ms).\n")
    vals = C.coq_eval_sharded(name, pre, terms, lambda l: "map run %s" % l, shard=40)
    return [bytes(v) for v in vals]


def corpus_texts():
    d = os.path.join(C.VERIF, "corpus", PID)
    out = []
    if os.path.isdir(d):
        for f in sorted(os.listdir(d)):
            if f.endswith(".veryl"):
                out.append(("corpus/" + f, open(os.path.join(d, f), "rb").read().decode("utf8")))
    return out


def gen_old_cases(rng, n, lx_old):
    cases = corpus_texts()
    for i in range(n):
        toks = V.gen_program(rng, rng.randint(1, 2), old_for=True)
        if not any(t.tag == "for_type" for t in toks):
            continue
        prof = rng.choice(V.PROFILE_NAMES)
        cases.append(("synthetic-old/%s/%d" % (prof, i), V.layout(toks, rng, prof, lx_old)))
    return cases


def judge_migration(text, migrated, new_tokens, lx_old):
    """oracle for one old-grammar program.  migrated: str or None; new_tokens: parse_tokens result"""
    bad = []
    if isinstance(new_tokens, tuple):
        if new_tokens[0] == "ERR":
            return [("result-rejected", "the current parser rejects the migrated text: %s" % new_tokens[1][:160])]
        return [("parser-panic", "the current parser panicked on the migrated text")]
    want = strip_for_types([t.text for t in V.lex_tokens(text, lx_old)[0]])
    got = [x[7].decode("utf8") for x in new_tokens if x[0] == "t" and x[7] != b""]
    if got != want:
        i = next((i for i, (a, b) in enumerate(zip(got, want)) if a != b), min(len(got), len(want)))
        bad.append(("tokens", "token stream after migration differs from the original minus the for-index types at index %d: got %r, expected %r" % (
            i, got[max(0, i - 1):i + 3], want[max(0, i - 1):i + 3])))
    wantc = all_comments(text, lx_old)
    gotc = [x[7] for x in new_tokens if x[0] == "c"]
    if gotc != wantc:
        i = next((i for i, (a, b) in enumerate(zip(gotc, wantc)) if a != b), min(len(gotc), len(wantc)))
        bad.append(("comments", "comments after migration differ from the original's at index %d: got %r, expected %r (%d vs %d comments)" % (
            i, gotc[i:i + 2], wantc[i:i + 2], len(gotc), len(wantc))))
    return bad


def run_old(binary, cases):
    """-> per case dict(mig=str|None, err=.., items=.., new=..)"""
    lines_m = ["M auto " + hx(t.encode()) for _, t in cases]
    lines_o = ["O " + hx(t.encode()) for _, t in cases]
    outs_m = C.run_lines(binary, lines_m, timeout=1200)
    outs_o = C.run_lines(binary, lines_o, timeout=1200)
    res = []
    idx = []
    tl = []
    for i, (om, oo) in enumerate(zip(outs_m, outs_o)):
        f = om.split()
        r = {"mig": None, "items": parse_old_items(oo), "raw": om[:200]}
        if f and f[0] == "OK":
            r["mig"] = unhx(f[1]).decode("utf8")
            idx.append(i)
            tl.append("T " + hx(r["mig"].encode()))
        elif f and f[0] == "ERR":
            r["err"] = om[4:]
        else:
            r["panic"] = om
        res.append(r)
    outs_t = C.run_lines(binary, tl, timeout=1200) if tl else []
    for i, ot in zip(idx, outs_t):
        res[i]["new"] = parse_tokens(ot)
    return res


def cli_unchanged(cli, texts, res):
    """`veryl migrate --check` and `veryl migrate` on a scratch project of already-current programs.
    Returns list of (key, what, replay)."""
    d = C.scratch_dir("c23cli")
    bad = []
    try:
        os.makedirs(os.path.join(d, "src"))
        open(os.path.join(d, "Veryl.toml"), "w").write('[project]\nname = "p"\nversion = "0.1.0"\n[build]\nsources = ["src"]\n')
        names = []
        for i, (label, t) in enumerate(texts):
            fn = os.path.join(d, "src", "f%03d.veryl" % i)
            open(fn, "wb").write(t.encode())
            names.append((fn, label, t))
        rc, o, e = C.sh([cli, "migrate", "--check"], cwd=d, timeout=900)
        res.count("cli_invocations")
        if rc != 0:
            bad.append(("current-check-fails", "`veryl migrate --check` exits %d on already-current programs: %s" % (rc, (o + e)[-300:]),
                        {"files": [l for _, l, _ in names][:50], "output": (o + e)[-2000:]}))
        rc, o, e = C.sh([cli, "migrate"], cwd=d, timeout=900)
        res.count("cli_invocations")
        for fn, label, t in names:
            now = open(fn, "rb").read()
            if now != t.encode():
                bad.append(("current-changed", "`veryl migrate` rewrote the already-current program %s" % label,
                            {"input": label, "text": t, "after": now.decode("utf8", "replace")}))
                break
    finally:
        shutil.rmtree(d, ignore_errors=True)
    return bad


def cli_migrate_old(cli, binary, cases, lx_old, res):
    """`veryl migrate` on old-grammar files: afterwards each file parses and keeps tokens (modulo the
    separators the formatter may add or drop) and comments"""
    d = C.scratch_dir("c23cli")
    bad = []
    try:
        os.makedirs(os.path.join(d, "src"))
        open(os.path.join(d, "Veryl.toml"), "w").write('[project]\nname = "p"\nversion = "0.1.0"\n[build]\nsources = ["src"]\n')
        names = []
        for i, (label, t) in enumerate(cases):
            fn = os.path.join(d, "src", "g%03d.veryl" % i)
            open(fn, "wb").write(t.encode())
            names.append((fn, label, t))
        rc, o, e = C.sh([cli, "migrate"], cwd=d, timeout=900)
        res.count("cli_invocations")
        if rc != 0:
            bad.append(("cli-migrate-fails", "`veryl migrate` exits %d on old-grammar programs: %s" % (rc, (o + e)[-300:]),
                        {"files": [l for _, l, _ in names][:50], "output": (o + e)[-2000:]}))
            return bad
        after = [open(fn, "rb").read().decode("utf8", "replace") for fn, _, _ in names]
        outs = C.run_lines(binary, ["T " + hx(a.encode()) for a in after])
        for (fn, label, t), a, ot in zip(names, after, outs):
            nt = parse_tokens(ot)
            if isinstance(nt, tuple):
                bad.append(("cli-result-rejected", "after `veryl migrate` the file %s is rejected by the current parser" % label,
                            {"input": label, "text": t, "after": a}))
                break
            want = [x for x in strip_for_types([k.text for k in V.lex_tokens(t, lx_old)[0]]) if x != ","]
            got = [x[7].decode("utf8") for x in nt if x[0] == "t" and x[7] not in (b"", b",")]
            if got != want:
                bad.append(("cli-tokens", "after `veryl migrate` (migrator + formatter) the tokens of %s differ from the original minus for-index types (commas ignored)" % label,
                            {"input": label, "text": t, "after": a}))
                break
    finally:
        shutil.rmtree(d, ignore_errors=True)
    return bad


def run(tier, seed, replay):
    res = C.Result(PID, "other", tier, seed)
    res.coverage["explanation"] = ("partial proof: push_token's spacing reconstruction is proved for all token lists and tied byte for byte; "
                                   "parsers, formatter and CLI control flow are validated end to end")
    res.coverage["trusted_base"] = C.std_trusted_base([
        "model: coq/Pos/MigrateModel.v transcribes Migrator::push_token / token / for_statement (crates/migrator/src/migrator.rs)",
        "vh-pos harness modes M (old Parser + Migrator::migrate), O (item stream of the old parser), T (current Parser)",
        "OCaml extraction of the model (ExtrOcamlBasic only) + driver vp/gen/posmodel.py (trusted glue; cross-checked against vm_compute on a sample every run)",
        "the real `veryl` CLI (C.cli_build) for `migrate --check` / `migrate` on scratch projects",
        "python: old-grammar generator (vp/gen/vtext.py, for-index types read off crates/migrator/veryl.par), lexers derived from both .par files"])
    res.assumptions = [
        "separation theorem: items carry their true 1-based line / character column and are in source order (chain); checked through C12's oracle for the current parser, and by the byte-for-byte correspondence here",
        "u32 overflow of line/column counters is not modelled"]
    proved = C.prove(res, PID)

    ok, binary, log = C.harness_build("vh-pos")
    res.obligation("harness build vh-pos from /repo working tree", ok, log[-400:])
    if not ok:
        res.violation("harness-build", "the position harness no longer builds against /repo: " + log[-300:], {"log": log[-2000:]}, no_input=True)
        return res.finish()
    okc, bins, logc = C.cli_build()
    cli = bins.get("veryl")
    res.obligation("CLI build (veryl) from /repo working tree", okc, logc[-400:])
    if not okc:
        res.violation("cli-build", "the veryl CLI no longer builds: " + logc[-300:], {"log": logc[-2000:]}, no_input=True)
        return res.finish()
    lx_old = V.lexer(C.REPO, "migrator")
    lx_new = V.lexer(C.REPO, "parser")

    # the old grammar must still be "current grammar + mandatory `: ScalarType` in ForStatement"
    par_old = open(os.path.join(C.REPO, "crates", "migrator", "veryl.par")).read()
    res.obligation("crates/migrator/veryl.par: ForStatement: For Identifier Colon ScalarType In ...",
                   "ForStatement: For Identifier Colon ScalarType In" in par_old)

    if replay:
        rp = json.load(open(replay))
        text = rp["text"]
        if rp.get("stream") == "current":
            for k, w, r in cli_unchanged(cli, [("replay", text)], res):
                res.violation(k, w, r)
            return res.finish()
        r = run_old(binary, [("replay", text)])[0]
        print("replay: migrated =", repr(r.get("mig"))[:2000])
        if r["mig"] is None:
            if "panic" in r:
                res.violation("migrator-panic", "the migrator panicked: " + r["panic"][:200], rp)
        else:
            for k, w in judge_migration(text, r["mig"], r.get("new"), lx_old):
                res.violation(k, w, rp)
        return res.finish()

    rng = random.Random(seed * 7919 + 23)
    quick = tier == "quick"

    # ---- old-grammar programs through Migrator + current Parser; correspondence with the model
    import time
    tm = res.coverage.setdefault('timing_s', {})
    t_ = time.time()
    cases = gen_old_cases(rng, 200 if quick else 5000, lx_old)
    tm['generate'] = round(time.time() - t_, 1)
    t_ = time.time()
    outs = run_old(binary, cases)
    tm['migrate_parse'] = round(time.time() - t_, 1)
    fails = []
    mcases = []
    midx = []
    n_mig = n_rej = 0
    distinct = set()
    for i, ((label, text), r) in enumerate(zip(cases, outs)):
        if r["mig"] is None:
            if "panic" in r:
                fails.append((i, "migrator-panic", "the old parser / migrator panicked on %s: %s" % (label, r["panic"][:160])))
            else:
                n_rej += 1
                res.hist("rejected_by_old_parser", label.split("/")[0])
            continue
        n_mig += 1
        for k, w in judge_migration(text, r["mig"], r.get("new"), lx_old):
            fails.append((i, k, w))
        if r["items"] is not None:
            mcases.append((auto_newline(text).encode(), r["items"]))
            midx.append(i)
        shape = []
        if any(ord(c) > 127 for c in text):
            shape.append("utf8")
        if "\r\n" in text:
            shape.append("crlf")
        if "/*" in text or "//" in text:
            shape.append("comments")
        res.hist("old_program_histogram", "+".join(shape) or "plain-ascii")
        if text.count("for ") >= 1 and len(text) > 200:
            distinct.add(text)
        if len(res.coverage["samples"]) < 3:
            res.sample({"input": label, "old_head": text[:160], "migrated_head": r["mig"][:160]})
    t_ = time.time()
    okm, mbin, mlog = PM.build()
    res.obligation("extracted model builds (OCaml, ExtrOcamlBasic only)", okm, mlog[-400:])
    if not okm:
        res.violation("model-build", "the extracted migrator model no longer builds: " + mlog[-300:],
                      {"no_longer_checks": "correspondence Migrator::migrate = push_token fold", "log": mlog[-2000:]}, no_input=True)
        return res.finish()
    model = PM.migrate_eval(mbin, [(nl, [(l, c, tx) for (k, d, l, c, tx) in items if not (d and k == "t")]) for nl, items in mcases]) if mcases else []
    tm['model_ocaml'] = round(time.time() - t_, 1)
    t_ = time.time()
    # a few item streams are also evaluated inside Coq (vm_compute); both evaluations must agree
    ns = min(4, len(mcases))
    coq_sample = model_migrate(mcases[:ns]) if ns else []
    res.obligation("extracted model = vm_compute of the model inside Coq on %d item streams" % ns, coq_sample == model[:ns])
    tm['model_coq_sample'] = round(time.time() - t_, 1)
    t_ = time.time()
    mism = [midx[j] for j, mo in enumerate(model) if mo is None or mo != outs[midx[j]]["mig"].encode()]
    res.obligation("correspondence Migrator::migrate = model push_token fold on %d item streams (byte for byte)" % len(mcases), not mism)
    res.coverage["correspondence_mismatches"] = len(mism)
    res.obligation("old-grammar generator accepted by the old parser (>= 90%%): %d of %d" % (n_mig, len(cases)), n_mig * 10 >= len(cases) * 9)
    if n_mig * 10 < len(cases) * 9:
        res.violation("generator-rejected", "the old parser rejects %d of %d generated old-grammar programs" % (n_rej, len(cases)),
                      {"no_longer_checks": "end-to-end migration oracle input stream"}, no_input=True)

    # ---- the real CLI: already-current programs untouched; old programs migrated + formatted
    current = []
    for i in range(25 if quick else 300):
        toks = V.gen_program(rng, rng.randint(1, 2))
        prof = rng.choice(V.PROFILE_NAMES)
        current.append(("synthetic-current/%s/%d" % (prof, i), V.layout(toks, rng, prof, lx_new)))
    tcs = V.repo_testcases(C.REPO, subdirs=("veryl",))
    rng.shuffle(tcs)
    for p, t in tcs[:30 if quick else len(tcs)]:
        current.append((p, t))
        try:
            current.append((p + "@relayout", V.relayout(t, rng, rng.choice(V.PROFILE_NAMES), lx_new)[0]))
        except V.LexError:
            pass
    # only programs the current parser accepts are "already current"
    acc = C.run_lines(binary, ["T " + hx(t.encode()) for _, t in current])
    current = [c for c, o in zip(current, acc) if o.startswith("OK")]
    cli_bad = cli_unchanged(cli, current, res)
    plain_old = [(l, t) for (l, t), r in zip(cases, outs) if r["mig"] is not None and not any(ord(c) > 127 for c in t)][:20 if quick else 200]
    cli_bad += cli_migrate_old(cli, binary, plain_old, lx_old, res)
    res.obligation("CLI: migrate --check passes and migrate leaves %d already-current programs byte-identical; %d old programs migrate" % (
        len(current), len(plain_old)), not [b for b in cli_bad if b[0] not in res.known])

    tm['cli'] = round(time.time() - t_, 1)
    res.coverage["evaluations"] = n_mig + len(current) + len(plain_old)
    res.coverage["old_programs_migrated"] = n_mig
    res.coverage["current_programs_through_cli"] = len(current)
    res.coverage["distinct_nontrivial"] = len(distinct)
    res.coverage["rule"] = ("old-grammar programs = generated designs with `: Type` after every for-statement index (u32/i32/u8/u64/logic<8>/bit<4>..., "
                            "rev/step variants, nested loops) under 6 layout-noise profiles (comments between any two tokens incl. around the dropped "
                            "tokens, multi-byte text, CRLF); non-trivial = contains a for statement and > 200 bytes; distinct by text")
    res.coverage["oracle_failures"] = len(fails)

    reported = set()
    for i, k, w in fails:
        if k in reported:
            continue
        reported.add(k)
        label, text = cases[i]
        if k in res.known:
            res.violation(k, w, {})
            continue
        res.violation(k, w, {"stream": "old", "input": label, "text": text, "migrated": outs[i].get("mig")})
    for k, w, r in cli_bad:
        if k in reported:
            continue
        reported.add(k)
        r = dict(r)
        r.setdefault("stream", "current" if k.startswith("current") else "old")
        res.violation(k, w, r, no_input=("text" not in r))
    if mism and not res.violations:
        i = mism[0]
        label, text = cases[i]
        res.violation("correspondence", "Migrator::migrate and the model push_token fold differ; the property's oracle found no failing input",
                      {"no_longer_checks": "correspondence veryl_migrator::Migrator::migrate = VV.Pos.MigrateModel.push_token",
                       "stream": "old", "input": label, "text": text, "impl": outs[i]["mig"],
                       "model": (model[midx.index(i)] or b"<model evaluation failed>").decode("utf8", "replace"), "mismatching_cases": len(mism)}, no_input=True)
    if not proved and not res.violations:
        pf = getattr(res, "proof_failure", {})
        res.violation("proof", "Props/C23.v is no longer established: %s" % pf.get("where", "audit"),
                      {"no_longer_checks": "theorems of Props/C23.v", **pf}, no_input=True)
    return res.finish()
