"""C27 — Check modes agree with write modes.

proof:   coq/Props/C27.v — control-flow model of `fmt [--check]` (cmd_fmt.rs) and of
         `build [--check]` (cmd_build.rs emit loop, gen_filelist, check_bundle) over an abstract file
         system: fmt_check_iff_noop (proved, both directions); build: noop => check passes
         (proved), check passes => existing project .sv / bundle unchanged (proved, partial);
         refuted with witnesses for source maps, filelist, missing-output-with-empty-text, $std.
tie:     the model's check verdict (vm_compute) is compared with the CLI's exit status on every
         generated state, with the write-mode run supplying the emitted texts.
oracle:  `--check` exits 0  <=>  the write-mode command (on a copy) changes no file outside .build;
         and `--check` itself never changes a file.
"""
import json
import os
import random
import shutil
import time
from concurrent.futures import ThreadPoolExecutor

from .. import common as C
from ..gen import projects as G

PID = "C27"
QUICK_NF, QUICK_NB, THOROUGH_NF, THOROUGH_NB = 40, 70, 600, 1200   # fmt / build cases per tier

MANIFEST = {
    "category": "other",
    "technique": "Coq proof on a control-flow model of check vs write mode + CLI correspondence and the property's own "
                 "oracle (exit status of --check vs files changed by the write mode) on generated project states",
    "text": "fmt: theorem fmt_check_iff_noop — `fmt --check` passes iff `fmt` completes and changes no file, for every "
            "formatter and file system. build: build_noop_check_passes (if build changes nothing, --check passes), "
            "build_check_iff_noop_partial (if --check passes, every existing own .sv is unchanged by build), "
            "bundle_check_iff_bundle_unchanged; the full equivalence is refuted by five model witnesses (source maps, "
            "filelist, missing output with empty text, $std outputs, bundle filelist), each replayed on the CLI and "
            "recorded as a finding. End to end, --check's exit status is compared with the tree change made by the write "
            "mode on generated states (clean, stale, missing, hand-edited outputs, stale maps/filelists, bundle targets, "
            "unformatted / CRLF sources).",
    "note": "Partial: parsing, formatting, analysis and emission are uninterpreted (both modes share them); the model covers "
            "which results are compared with which files. Trusted: Coq kernel, hand-written model coq/Incr/CheckModel.v, "
            "python state generator and tree differ. Incremental builds restore files without comparing them in either mode.",
}


def tree(sb, root, roots, drop=("Veryl.lock",)):
    """content hashes with the project root paths (absolute filelists) normalised, so that the
    project and its copy compare equal"""
    t = sb.norm_tree(root, roots)
    return {k: v for k, v in t.items() if k not in drop}


def check_then_write(sb, base, check_args, write_args):
    """Run the check-mode command, put the project back exactly as it was (check mode may touch
    .build), run the write-mode command IN THE SAME PLACE (absolute paths in filelists and in the
    incremental cache stay valid).  Returns (check result, write result, tree before, tree after
    check, tree after write)."""
    roots = (sb.root,)
    backup = os.path.join(base, "backup")
    shutil.copytree(sb.root, backup, symlinks=True)
    before = tree(sb, sb.root, roots)
    rc = sb.run(check_args)
    after_check = tree(sb, sb.root, roots)
    shutil.rmtree(sb.root)
    shutil.copytree(backup, sb.root, symlinks=True)
    rw = sb.run(write_args)
    after_write = tree(sb, sb.root, roots)
    return rc, rw, before, after_check, after_write


def changed(a, b):
    return sorted(p for p in set(a) | set(b) if a.get(p) != b.get(p))


# ------------------------------------------------------------------------------------------
# fmt states
# ------------------------------------------------------------------------------------------

def unformat(text, rng, how):
    if how == "spaces":
        return text.replace(" = ", "  =   ", 1).replace("{\n", "{\n\n", 1)
    if how == "indent":
        return "\n".join((" " + ln if ln.startswith("    ") and rng.random() < 0.5 else ln) for ln in text.split("\n"))
    if how == "crlf":
        return text.replace("\n", "\r\n")
    if how == "mixed_newlines":
        ls = text.split("\n")
        return "\r\n".join(ls[:2]) + "\n" + "\n".join(ls[2:])
    if how == "trailing_ws":
        return text.replace(";\n", ";   \n", 1)
    if how == "no_final_newline":
        return text.rstrip("\n")
    if how == "blank_lines":
        return text + "\n\n\n"
    if how == "syntax_error":
        return text.replace("{", "{ = ", 1)
    if how == "tabs":
        return text.replace("    ", "\t", 2)
    if how == "comment":
        return text.replace("\n", " // c\n", 1)
    return text


FMT_HOWS = ["none", "spaces", "indent", "crlf", "mixed_newlines", "trailing_ws", "no_final_newline", "blank_lines",
            "syntax_error", "tabs", "comment"]


def fmt_case(veryl, prj, muts, fmt_toml):
    """muts: {path: how}.  Returns record."""
    base = C.scratch_dir("c27f")
    try:
        sb = G.Sandbox(base, veryl)
        p = prj.clone()
        for sec, kv in fmt_toml.items():
            p.toml.setdefault(sec, {}).update(kv)
        sb.materialise(p)
        sb.run(["fmt"])                           # baseline: every source in canonical format
        rng = random.Random(len(muts))
        for path, how in muts.items():
            with open(os.path.join(sb.root, path), newline="") as f:
                txt = f.read()
            with open(os.path.join(sb.root, path), "w", newline="") as f:
                f.write(unformat(txt, rng, how))
        rc, rw, before, after_check, after_write = check_then_write(sb, base, ["fmt", "--check"], ["fmt"])
        # a second --check after write mode must pass whenever write mode succeeded (idempotence
        # of the pair is C08; here only: write mode reached a state where check passes)
        return {"check_rc": rc.rc, "write_rc": rw.rc, "check_changed": changed(before, after_check),
                "write_changed": changed(before, after_write), "panic": rc.panic or rw.panic,
                "stderr": rc.stderr[-400:]}
    finally:
        shutil.rmtree(base, ignore_errors=True)


# ------------------------------------------------------------------------------------------
# build states
# ------------------------------------------------------------------------------------------

BUILD_STATES = ["clean", "never-built", "stale-source", "missing-sv", "edited-sv", "empty-sv", "garbage-map", "missing-map",
                "edited-filelist", "missing-filelist", "touched-sv", "extra-file", "config-format", "all-missing",
                "missing-empty-sv"]


def apply_state(sb, prj, state, rng):
    """Bring a built project into `state`.  Returns a description."""
    outs = sb.output_files(prj)
    pick = lambda l: l[rng.randrange(len(l))] if l else None  # noqa: E731
    if state in ("clean", "never-built"):
        return state
    if state == "stale-source":
        p = rng.choice(sorted(prj.files))
        s, tag = G.mutate_spec(rng, prj, p)
        s.pop("error", None)
        sb.apply(prj, {"op": "edit", "path": p, "spec": s})
        return "edit %s (%s)" % (p, tag)
    if state in ("missing-sv", "edited-sv", "empty-sv", "touched-sv"):
        f = pick(outs["sv"])
        if f:
            if state == "missing-sv":
                os.remove(f)
            elif state == "edited-sv":
                open(f, "a").write("// hand edit\n")
            elif state == "empty-sv":
                open(f, "w").close()
            else:
                os.utime(f, None)
        return "%s %s" % (state, f and os.path.relpath(f, sb.root))
    if state in ("garbage-map", "missing-map"):
        f = pick(outs["map"])
        if f:
            if state == "missing-map":
                os.remove(f)
            else:
                open(f, "w").write("garbage")
        return "%s %s" % (state, f and os.path.relpath(f, sb.root))
    if state in ("edited-filelist", "missing-filelist"):
        f = pick(outs["filelist"])
        if f:
            if state == "missing-filelist":
                os.remove(f)
            else:
                open(f, "a").write("extra.sv\n")
        return "%s %s" % (state, f and os.path.relpath(f, sb.root))
    if state == "extra-file":
        os.makedirs(os.path.join(sb.root, "target"), exist_ok=True)
        open(os.path.join(sb.root, "target", "zz_unrelated.sv"), "w").write("// not ours\n")
        return state
    if state == "config-format":
        sb.apply(prj, {"op": "toml", "section": "format", "key": "indent_width", "value": 2})
        return state
    if state == "missing-empty-sv":
        gone = [f for f in outs["sv"] if os.path.getsize(f) == 0]
        for f in gone:
            os.remove(f)
        return "%s %s" % (state, [os.path.relpath(f, sb.root) for f in gone])
    if state == "all-missing":
        for f in outs["sv"] + outs["map"] + outs["filelist"]:
            os.remove(f)
        return state
    return state


def build_case(veryl, prj, variant, state, seed):
    base = C.scratch_dir("c27b")
    try:
        rng = random.Random(seed)
        sb = G.Sandbox(base, veryl)
        p = prj.clone()
        p.toml["build"].update(variant)
        sb.materialise(p)
        if state != "never-built":
            sb.run(["build"])
        else:
            sb.run(["metadata"])
        desc = apply_state(sb, p, state, rng)
        rc, rw, before, after_check, after_write = check_then_write(sb, base, ["build", "--check"], ["build"])
        return {"desc": desc, "check_rc": rc.rc, "write_rc": rw.rc, "panic": rc.panic or rw.panic,
                "check_changed": changed(before, after_check), "write_changed": changed(before, after_write),
                "before": before, "after_write": after_write, "stderr": rc.stderr[-500:],
                "empty_after": sorted(k for k, v in after_write.items() if v == G.hashlib.sha256(b"").hexdigest())}
    finally:
        shutil.rmtree(base, ignore_errors=True)


def classify_build(rec, variant):
    """Known classes of `--check passes but build changes files`, by WHICH files change."""
    ch = rec["write_changed"]
    bundle = variant.get("target", {}).get("type") == "bundle"

    def kind(p):
        if p.endswith(".sv.map"):
            return "map"
        if p.endswith(".f"):
            return "filelist"
        if p.endswith(".sv"):
            if p not in rec["before"] and p in rec["empty_after"]:
                return "missing-empty"
            return "sv"
        return "other"
    kinds = sorted({kind(p) for p in ch})
    if kinds and all(k == "map" for k in kinds):
        return "check-ignores-sourcemap"
    if kinds and all(k in ("filelist",) for k in kinds):
        return "check-ignores-filelist"
    if kinds and all(k in ("map", "filelist") for k in kinds):
        return "check-ignores-sourcemap-and-filelist"
    if kinds and all(k in ("missing-empty", "map", "filelist") for k in kinds):
        return "check-missing-output-empty-text"
    return "check-passes-but-build-changes:" + "+".join(kinds)


# ------------------------------------------------------------------------------------------
# model correspondence
# ------------------------------------------------------------------------------------------

def model_verdicts(cases, name="c27"):
    """cases: list of (bundle?, before tree, after_write tree, sv paths).  The model's check
    verdict from the abstract file system: texts are numbered by content hash, the emitted text
    of a unit is what write mode left in its .sv (write mode = the reference emission)."""
    terms = []
    for bundle, before, after, svs in cases:
        ids = {}

        def tid(h):
            if h == G.hashlib.sha256(b"").hexdigest():
                return 0
            return ids.setdefault(h, len(ids) + 1)
        paths = {}

        def pid(p):
            return paths.setdefault(p, len(paths) + 1)
        fs = "; ".join("(%d, %d)" % (pid(p), tid(h)) for p, h in sorted(before.items()))
        us = "; ".join("mkUnit N %d %d %d 0 false" % (pid(p), pid(p + ".map"), tid(after[p])) for p in svs if p in after)
        terms.append("(wfs [%s], [%s])" % (fs, us))
    pre = ("From VV Require Import Incr.CheckModel Incr.CheckProofs.\nFrom Coq Require Import List NArith.\nImport ListNotations.\n"
           "Open Scope N_scope.\nDefinition v1 (c : fsys N * list (unit_out N)) := build_check_dir N N.eqb 0 (fst c) (snd c).\n")
    return C.coq_eval_sharded(name, pre, terms, lambda l: "map v1 %s" % l, shard=60)


# ------------------------------------------------------------------------------------------
# the check
# ------------------------------------------------------------------------------------------

def run(tier, seed, replay):
    res = C.Result(PID, "other", tier, seed)
    res.coverage["explanation"] = (
        "partial proof + correspondence: the check/write control flow of cmd_fmt.rs and cmd_build.rs is modelled over an abstract "
        "file system (formatting/emission uninterpreted); fmt_check_iff_noop is proved in full, build --check is proved for the "
        "directions/files where it holds and refuted by witness elsewhere (recorded findings); the model's verdict and the "
        "property's own oracle (exit status of --check vs files changed by write mode) are evaluated on the real CLI")
    res.coverage["trusted_base"] = C.std_trusted_base([
        "model: coq/Incr/CheckModel.v transcribes the check/write branches of crates/veryl/src/cmd_fmt.rs and cmd_build.rs "
        "(emit loop, gen_filelist, check_bundle) and utils::write_file_if_changed over path -> option text",
        "the real CLI driven in scratch projects; tree hashes before/after; Veryl.lock and .build are not part of the compared tree"])
    res.assumptions = ["paths written by one build are pairwise distinct (distinct); text equality is decidable",
                       "parsing, formatting, analysis, emission are the same function in both modes (uninterpreted)"]
    proved = C.prove(res, PID)
    ok, bins, log = C.cli_build()
    res.obligation("CLI build from the working tree", ok, log[-400:])
    if not ok:
        res.violation("cli-build", "the veryl CLI no longer builds: " + log[-300:], {"log": log[-2000:]}, no_input=True)
        return res.finish()
    bindir = C.scratch_dir("c27bin")
    veryl = G.private_binary(bins["veryl"], bindir)
    try:
        return _run_with(res, veryl, tier, seed, replay, proved)
    finally:
        shutil.rmtree(bindir, ignore_errors=True)


def _run_with(res, veryl, tier, seed, replay, proved):
    rng = random.Random(seed * 104729 + 27)

    variants = [
        ("directory", {"incremental": False}),
        ("directory-nomap", {"incremental": False, "sourcemap_target": {"type": "none"}}),
        ("directory-mapdir", {"incremental": False, "sourcemap_target": {"type": "directory", "path": "maps"}}),
        ("source", {"incremental": False, "target": {"type": "source"}}),
        ("bundle", {"incremental": False, "target": {"type": "bundle", "path": "out/all.sv"}}),
        ("directory-relative", {"incremental": False, "filelist_type": "relative"}),
        ("directory-incremental", {"incremental": True}),
    ]

    if replay:
        rp = json.load(open(replay))
        prj = G.Project.from_json(rp["project"])
        if rp["kind"] == "fmt":
            rec = fmt_case(veryl, prj, rp["muts"], rp.get("toml", {}))
        else:
            rec = build_case(veryl, prj, rp["variant"], rp["state"], rp["case_seed"])
        rec.pop("before", None), rec.pop("after_write", None)
        print("replay:", json.dumps(rec, indent=1)[:2000])
        bad = judge_fmt(rec) if rp["kind"] == "fmt" else judge_build(rec, rp.get("variant", {}))
        for k, w in bad:
            res.violation(k, w, rp)
        return res.finish()

    nf = QUICK_NF if tier == "quick" else THOROUGH_NF
    nb = QUICK_NB if tier == "quick" else THOROUGH_NB
    # ---- fmt cases
    fjobs = []
    for i in range(nf):
        prj = G.gen_project(rng, nfiles=rng.randint(2, 4), incremental=False)
        muts = {}
        for p in sorted(prj.files):
            if rng.random() < 0.5:
                muts[p] = rng.choice(FMT_HOWS[1:])
        if i < len(FMT_HOWS):
            muts = {sorted(prj.files)[0]: FMT_HOWS[i]} if FMT_HOWS[i] != "none" else {}
        ftoml = {}
        if rng.random() < 0.3:
            ftoml = {"format": {"indent_width": rng.choice([2, 4]), "newline_style": rng.choice(["auto", "native", "unix", "windows"])}}
        fjobs.append((prj, muts, ftoml))
    # ---- build cases: every (variant, state) once on a small fixed project, the rest random
    pkg = {"kind": "pkg", "name": "PkgA", "w": 8, "v": 1}
    modb = {"kind": "mod", "name": "ModB", "ff": True, "rstval": 0, "consts": ["PkgA"], "lit": 0}
    empty = {"kind": "raw", "name": None, "text": ""}
    fixed = G.Project(G.base_toml("p", False), {"src/a.veryl": pkg, "src/b.veryl": modb})
    fixed_empty = G.Project(G.base_toml("p", False), {"src/a.veryl": pkg, "src/e.veryl": empty})
    bjobs = []
    for vname, var in variants:
        for st in BUILD_STATES:
            bjobs.append((fixed, vname, var, st, len(bjobs)))
    bjobs.append((fixed_empty, "directory-nomap", variants[1][1], "missing-empty-sv", 1))
    bjobs.append((fixed_empty, "directory", variants[0][1], "missing-empty-sv", 2))
    bjobs.append((fixed_empty, "directory-nomap", variants[1][1], "never-built", 3))
    while len(bjobs) < max(nb, len(bjobs)):
        if len(bjobs) >= nb:
            break
        prj = G.gen_project(rng, nfiles=rng.randint(2, 5), incremental=False)
        vname, var = rng.choice(variants)
        bjobs.append((prj, vname, var, rng.choice(BUILD_STATES), rng.randrange(10**6)))

    # corpus first (hand-written witnesses)
    cdir = os.path.join(C.VERIF, "corpus", PID)
    for fn in sorted(os.listdir(cdir)) if os.path.isdir(cdir) else []:
        if fn.endswith(".json"):
            rp = json.load(open(os.path.join(cdir, fn)))
            prj = G.Project.from_json(rp["project"])
            if rp["kind"] == "fmt":
                fjobs.insert(0, (prj, rp["muts"], rp.get("toml", {})))
            else:
                bjobs.insert(0, (prj, "corpus:" + fn[:-5], rp["variant"], rp["state"], rp["case_seed"]))
    t0 = time.time()
    with ThreadPoolExecutor(max_workers=min(C.NCPU, 16)) as exe:
        frecs = list(exe.map(lambda j: fmt_case(veryl, *j), fjobs))
        brecs = list(exe.map(lambda j: build_case(veryl, j[0], j[2], j[3], j[4]), bjobs))
    res.coverage["cli_wall_s"] = round(time.time() - t0, 1)

    viol = []
    for (prj, muts, ftoml), rec in zip(fjobs, frecs):
        for h in (muts.values() or ["none"]):
            res.hist("fmt_states", h)
        for k, w in judge_fmt(rec):
            viol.append((k, "fmt, sources %s: %s" % (muts, w), {"kind": "fmt", "project": prj.to_json(), "muts": muts, "toml": ftoml,
                                                                 "record": {x: rec[x] for x in ("check_rc", "write_rc", "check_changed", "write_changed")}}))
    # model correspondence for the non-bundle build cases
    mcases, midx = [], []
    for i, ((prj, vname, var, st, cs), rec) in enumerate(zip(bjobs, brecs)):
        if var.get("target", {}).get("type") == "bundle" or rec["write_rc"] != 0 or var.get("incremental"):
            continue
        svs = [p for p in rec["after_write"] if p.endswith(".sv") and not p.endswith("zz_unrelated.sv")]
        mcases.append((False, rec["before"], rec["after_write"], svs))
        midx.append(i)
    model_ok = True
    verdicts = {}
    try:
        for i, v in zip(midx, model_verdicts(mcases)):
            verdicts[i] = bool(v)
    except Exception as e:
        model_ok = False
        res.notes.append("model evaluation failed: %s" % str(e)[:300])
    res.obligation("model (vm_compute) evaluated on %d build states" % len(verdicts), model_ok)
    mism = 0
    for i, ((prj, vname, var, st, cs), rec) in enumerate(zip(bjobs, brecs)):
        res.hist("build_states", "%s/%s" % (vname, st))
        rp = {"kind": "build", "project": prj.to_json(), "variant": var, "state": st, "case_seed": cs, "desc": rec["desc"],
              "record": {x: rec[x] for x in ("check_rc", "write_rc", "check_changed", "write_changed", "stderr")}}
        for k, w in judge_build(rec, var):
            viol.append((k, "build [%s] state %s (%s): %s" % (vname, st, rec["desc"], w), rp))
        if i in verdicts and verdicts[i] != (rec["check_rc"] == 0):
            mism += 1
            viol.append(("correspondence", "build [%s] state %s: model says --check %s, CLI exit status %s" % (
                vname, st, "passes" if verdicts[i] else "fails", rec["check_rc"]),
                dict(rp, no_longer_checks="correspondence cmd_build check branch = VV.Incr.CheckModel.build_check_dir")))
    res.obligation("correspondence: model verdict = CLI exit status on %d states" % len(verdicts), mism == 0)
    res.coverage["evaluations"] = len(fjobs) + len(bjobs)
    res.coverage["fmt_cases"] = len(fjobs)
    res.coverage["build_cases"] = len(bjobs)
    res.coverage["check_failed_cases"] = sum(1 for r in frecs + brecs if r["check_rc"] != 0)
    res.coverage["distinct_nontrivial"] = len({json.dumps([j[0].to_json(), j[1], j[3]], sort_keys=True) for j in bjobs if j[3] != "clean"}) + \
        len({json.dumps([j[0].to_json(), j[1]], sort_keys=True) for j in fjobs if j[1]})
    res.coverage["rule"] = ("fmt case = generated project (2-4 files) with 0..n sources un-formatted (spacing, indent, CRLF, mixed newlines, trailing "
                            "whitespace, missing final newline, blank lines, tabs, comment, syntax error) x [format] options; build case = "
                            "project x target variant (directory, no map, map directory, source, bundle, relative filelist, incremental) x "
                            "state (clean, never built, stale source, missing/edited/empty/touched .sv, garbage/missing map, edited/missing "
                            "filelist, extra file, [format] changed, everything missing); non-trivial = state other than clean / a source "
                            "actually changed; distinct by serialised case")
    res.sample({"fmt_example": {"muts": fjobs[1][1], "check_rc": frecs[1]["check_rc"], "write_changed": frecs[1]["write_changed"]}})
    res.sample({"build_example": {"variant": bjobs[4][1], "state": bjobs[4][3], "check_rc": brecs[4]["check_rc"],
                                  "write_changed": brecs[4]["write_changed"]}})
    res.obligation("oracle: --check exit status <=> write mode changes nothing, on %d fmt and %d build states" % (len(fjobs), len(bjobs)),
                   not [v for v in viol if v[0] not in res.known])
    reported = set()
    for key, what, rp in viol:
        if key in reported:
            continue
        reported.add(key)
        if key in res.known:
            res.violation(key, what, {})
        elif key == "correspondence":
            res.violation(key, what, rp, no_input=not any(v[0] not in res.known and v[0] != "correspondence" for v in viol))
        else:
            res.violation(key, what, rp)
    if not proved and not res.violations:
        pf = getattr(res, "proof_failure", {})
        res.violation("proof", "Props/C27.v is no longer established: %s" % pf.get("where", "audit"),
                      {"no_longer_checks": "theorems of Props/C27.v", **pf}, no_input=True)
    return res.finish()


def judge_fmt(rec):
    bad = []
    if rec["panic"]:
        bad.append(("fmt-panic", "veryl fmt panicked: " + rec["stderr"][-200:]))
    if rec["check_changed"]:
        bad.append(("fmt-check-writes", "`fmt --check` changed files: %s" % rec["check_changed"]))
    passes = rec["check_rc"] == 0
    noop = rec["write_rc"] == 0 and not rec["write_changed"]
    if passes and not noop:
        bad.append(("fmt-check-passes-but-fmt-changes", "`fmt --check` exits 0 but `fmt` (exit %s) changes %s" % (rec["write_rc"], rec["write_changed"])))
    if noop and not passes:
        bad.append(("fmt-check-fails-but-fmt-noop", "`fmt --check` exits %s but `fmt` succeeds and changes nothing" % rec["check_rc"]))
    return bad


def judge_build(rec, variant):
    bad = []
    if rec["panic"]:
        bad.append(("build-panic", "veryl build panicked: " + rec["stderr"][-200:]))
    if rec["check_changed"]:
        bad.append(("build-check-writes", "`build --check` changed files outside .build: %s" % rec["check_changed"]))
    passes = rec["check_rc"] == 0
    noop = rec["write_rc"] == 0 and not rec["write_changed"]
    if passes and not noop:
        if rec["write_rc"] != 0:
            bad.append(("build-check-passes-but-build-fails", "`build --check` exits 0 but `build` exits %s" % rec["write_rc"]))
        else:
            bad.append((classify_build(rec, variant), "`build --check` exits 0 but `build` changes %s" % rec["write_changed"]))
    if noop and not passes:
        bad.append(("build-check-fails-but-build-noop", "`build --check` exits %s but `build` changes nothing: %s" % (rec["check_rc"], rec["stderr"][-200:])))
    return bad
