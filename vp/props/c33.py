"""C33 — Switching to the compiled C backend mid-run is invisible.

proof:   coq/Props/C33.v  (swap theorem: two step functions that preserve a state relation and agree on
         observables under it give the same trace whichever step the switch happens at, including never;
         counterexample: per-step agreement of observables alone is not enough)
tie:     the real hot swap, forced by the cfg(veryl_verif) hook `backend::aot_c::verif_swap`
         (crates/simulator/src/backend/aot_c.rs): with `aot_c_async` the n-th whole-comb/whole-event
         dispatch is the first to run compiled C code.  n in {0,1,2,3,5,8,13,last,never} per program.
oracle:  the property itself: all swap points give the same trace; also compared with the pure JIT run
         and with the extracted reference VV.Rtl.Cycle.step
"""
import json
import os
import random

from .. import common as C
from .. import rtl_ref as R
from .. import rtl_sim as S
from ..gen import rtl as G

PID = "C33"

MANIFEST = MANIFEST_ = {
    "category": "other",
    "technique": "Coq swap theorem (induction on the swap point) + forced hot swap of the real simulator at chosen dispatch "
                 "counts via a cfg(veryl_verif) hook, compared across swap points and against the extracted reference",
    "text": "Partial proof + correspondence.  Proved (Coq, no axioms): if two step functions keep a reflexive state relation R "
            "(stepA s ~ stepB s' whenever s ~ s') and agree on observables under R, then running A for the first n steps and B "
            "afterwards yields the trace of running A throughout, for every n (swap_invisible, swap_point_irrelevant); and a "
            "counterexample shows that agreement of observables step by step from equal states is NOT sufficient.  NOT proved: that "
            "the Cranelift and C engines satisfy such a relation.  Validated on every run: generated programs run on the async C "
            "backend with the compiled code taking over at dispatch 0,1,2,3,5,8,13,last and never (forced by the hook, which waits for "
            "the background compile so the swap point is exact); all traces must be equal to each other, to the pure JIT run and to the "
            "reference.",
    "note": "Trusted: as C02 plus the hook (add-only, cfg(veryl_verif)): `verif_swap` gates AotCWhole::try_dispatch/try_dispatch_const.  "
            "The compile thread pool, dlopen and real timing are outside; the swap is exercised at dispatch granularity (a dispatch = one "
            "whole-comb settle pass or one whole-event evaluation), which includes swapping between the comb settle and the event of "
            "the same step.  Requires a C compiler (cc) — present in this sandbox.",
}

SWAP_POINTS = [0, 1, 2, 3, 5, 8, 13]


def gen_cases(rng, tier):
    """entries of the fixed C02 pool on which all engines agree (a C-backend bug that C02 records would make
    ANY swap visible; here only the swap itself is under test); the check seed selects the subset"""
    from . import c02
    pool = [c for c in c02.pool_cases() if c[4] == "ok"]
    n = 14 if tier == "quick" else 150
    pick = rng.sample(pool, min(n, len(pool)))
    out = []
    for (m, st, tag, _, _) in pick:
        st2 = [((r or rng.random() < 0.08) and i > 0, v) for i, (r, v) in enumerate(st)]     # extra mid-run resets
        out.append((m, st2, tag))
    return out


def corpus_cases():
    d = os.path.join(C.VERIF, "corpus", "C33")
    out = []
    if os.path.isdir(d):
        for f in sorted(os.listdir(d)):
            if f.endswith(".json"):
                j = json.load(open(os.path.join(d, f)))
                out.append((G.module_from_json(j["module"]), G.stim_from_json(j["stim"]), "corpus:" + f))
    return out


def run_swaps(binary, cases, points):
    """cases: [(m, stim, tag)], points: per case list of swap points (ints / "never").
    returns per case dict point -> result"""
    sim = []
    index = []
    for ci, (m, st, _) in enumerate(cases):
        for p in points[ci]:
            c = G.sim_case(m, st)
            c["swap_at"] = p
            sim.append(c)
            index.append((ci, p))
    outs = S.run_engine(binary, sim, S.ENGINES["cc_async"], nshards=min(C.NCPU, max(1, len(sim) // 6)))
    res = [dict() for _ in cases]
    for (ci, p), o in zip(index, outs):
        res[ci][p] = o
    return res


def judge(m, by_point, jit, ref):
    bad = []
    outs = G.outputs_of(m)
    base = None
    for p in sorted(by_point, key=lambda x: (isinstance(x, str), x)):
        r = by_point[p]
        if r[0] in ("PANIC", "CRASH"):
            bad.append(("panic", "swap at %s: crashed: %s" % (p, r[1][:200]), {"swap_at": p}))
            continue
        if r[0] == "ERR":
            bad.append(("rejected", "swap at %s: rejected: %s" % (p, r[1][:200]), {"swap_at": p}))
            continue
        t = S.trace_payloads(r[1])
        if base is None:
            base = (p, t)
        else:
            d = S.first_diff(base[1], t)
            if d is not None:
                bad.append(("swap-visible", "traces for swap points %s and %s differ at cycle %d output %s: %x vs %x" % (
                    base[0], p, d[0], m["decls"][outs[d[1]]][0], base[1][d[0]][d[1]], t[d[0]][d[1]]),
                    {"swap_points": [base[0], p], "cycle": d[0], "output": d[1]}))
        if jit[0] == "OK":
            d = S.first_diff(S.trace_payloads(jit[1]), t)
            if d is not None:
                bad.append(("jit-differs", "swap at %s differs from the pure JIT run at cycle %d output %s" % (p, d[0], m["decls"][outs[d[1]]][0]),
                            {"swap_points": [p], "cycle": d[0], "output": d[1]}))
        if ref[0] == "OK":
            d = S.first_diff(S.trace_payloads(ref[1]), t)
            if d is not None:
                bad.append(("ref-differs", "swap at %s differs from the reference at cycle %d output %s" % (p, d[0], m["decls"][outs[d[1]]][0]),
                            {"swap_points": [p], "cycle": d[0], "output": d[1]}))
    return bad


def run(tier, seed, replay):
    res = C.Result(PID, "other", tier, seed)
    res.coverage["trusted_base"] = C.std_trusted_base([
        "reference semantics coq/Rtl (as C02) and BV/Ops1800.v",
        "hook verif_swap in crates/simulator/src/backend/aot_c.rs (cfg(veryl_verif), add-only): forces the readiness point of the compiled artifact",
        "extraction ExtrOcamlBasic + OCaml driver (vp/rtl_ref.py), vh-sim harness built with feature swap_hook, generator vp/gen/rtl.py"])
    res.assumptions = ["the engines are not modelled; the swap theorem names the contract (a preserved state relation) they must meet",
                       "swap points are dispatch counts, not wall-clock instants; the compile pool / dlopen timing is outside"]
    res.coverage["explanation"] = MANIFEST_["text"]
    proved = C.prove(res, PID)
    cc = C.sh(["cc", "--version"])[0] == 0
    res.obligation("a C compiler is available (cc --version)", cc)
    ok, binary, log = C.harness_build("vh-sim")
    res.obligation("harness build vh-sim (with the verif_swap hook) from the working tree", ok, log[-400:])
    if not ok or not cc:
        res.violation("harness-build", "the simulator harness with the swap hook no longer builds (or cc is missing): " + log[-300:],
                      {"log": log[-2000:]}, no_input=True)
        return res.finish()
    okr, refbin, logr = R.ref_build()
    res.obligation("extraction of the reference semantics + OCaml driver", okr, (logr or "")[-400:])
    if not okr:
        res.violation("reference-build", "the reference semantics no longer extracts/builds", {"log": (logr or "")[-2000:]}, no_input=True)
        return res.finish()

    def full(cases):
        never = run_swaps(binary, cases, [["never"]] * len(cases))
        pts = []
        for ci in range(len(cases)):
            r = never[ci]["never"]
            total = r[3].get("dispatches", 0) if r[0] == "OK" else 0
            p = [x for x in SWAP_POINTS if x < total]
            if total > 0:
                p += [total - 1]
                if total // 2 not in p:
                    p.append(total // 2)
            pts.append(sorted(set(p)))
        sw = run_swaps(binary, cases, pts)
        for ci in range(len(cases)):
            sw[ci]["never"] = never[ci]["never"]
        jit = S.run_engine(binary, [G.sim_case(m, st) for m, st, _ in cases], S.ENGINES["jit"], nshards=4)
        ref = R.ref_eval(refbin, [(m, st, "2u") for m, st, _ in cases])
        return sw, jit, ref

    if replay:
        rp = json.load(open(replay))
        m = G.module_from_json(rp["module"])
        stim = G.stim_from_json(rp["stim"])
        sw, jit, ref = full([(m, stim, "replay")])
        for k, w, d in judge(m, sw[0], jit[0], ref[0]):
            print("replay:", k, w)
            res.violation(k, w, {"module": G.module_to_json(m), "stim": G.stim_to_json(stim)})
        return res.finish()

    rng = random.Random(seed * 1000003 + 33)
    cases = corpus_cases() + gen_cases(rng, tier)
    sw, jit, ref = full(cases)
    failures = []
    accepted = 0
    swapped_programs = 0
    distinct = set()
    evals = 0
    for i, (m, stim, tag) in enumerate(cases):
        byp = sw[i]
        if all(v[0] == "ERR" for v in byp.values()):
            res.hist("rejected_by_analyzer", list(byp.values())[0][1][:60])
            continue
        accepted += 1
        nv = byp["never"]
        total = nv[3].get("dispatches", 0) if nv[0] == "OK" else 0
        really = 0
        for p, r in byp.items():
            if r[0] == "OK":
                evals += len(stim)
                if p != "never" and r[3].get("compiled_dispatches", 0) > 0:
                    really += 1
                    res.hist("swap_point_histogram", str(p) if p in SWAP_POINTS else ("last" if p == total - 1 else "mid"))
                if p == "never" and r[3].get("compiled_dispatches", 0) != 0:
                    failures.append((i, "hook", "swap point never: compiled code ran anyway", {"swap_points": ["never"]}))
        if really:
            swapped_programs += 1
            distinct.add(G.wire_ref(m, stim, "2"))
        else:
            res.hist("no_compiled_dispatch", "dispatches=%d" % total)
        for k, v in G.histogram(m).items():
            res.hist("construct_histogram", k, v)
        for k, w, d in judge(m, byp, jit[i], ref[i]):
            failures.append((i, k, w, d))
        if len(res.coverage["samples"]) < 2:
            res.sample({"origin": tag, "veryl_head": G.to_veryl(m)[:1000], "dispatches": total,
                        "swap_points_run": [str(p) for p in byp]})
    res.coverage["evaluations"] = evals
    res.coverage["programs"] = accepted
    res.coverage["programs_with_real_swap"] = swapped_programs
    res.coverage["distinct_nontrivial"] = len(distinct)
    res.coverage["rule"] = ("random and pass-shaped µRTL programs x stimulus with mid-run resets, each run with the compiled C code taking "
                            "over at dispatch 0,1,2,3,5,8,13,mid,last and never; counted only where compiled code really ran after the swap "
                            "point (hook counter); evaluations = runs x cycles")
    res.obligation("the swap really happens (compiled code dispatched) on most programs (%d of %d)" % (swapped_programs, accepted),
                   swapped_programs * 10 >= accepted * 6 and accepted > 0)
    corr = [f for f in failures if f[1] == "ref-differs"]
    orac = [f for f in failures if f[1] != "ref-differs"]
    res.coverage["correspondence_mismatches"] = len(corr)
    res.coverage["oracle_failures"] = len(orac)
    res.obligation("oracle: traces identical for all swap points (and the pure JIT run) on %d programs" % accepted, not orac)
    res.obligation("correspondence: every trace equals the reference trace", not corr)
    reported = set()
    for i, k, w, d in orac + corr:
        if k in reported:
            continue
        reported.add(k)
        if k in res.known:
            res.violation(k, w, {})
            continue
        m, stim, tag = cases[i]

        def pred_batch(cands, k=k):
            try:
                s2, j2, r2 = full([(a, b, "shrink") for a, b in cands])
            except Exception:
                return [False] * len(cands)
            out = []
            for ci, (a, b) in enumerate(cands):
                if any(v[0] == "ERR" for v in s2[ci].values()):
                    out.append(False)
                    continue
                out.append(any(k2 == k for k2, _, _ in judge(a, s2[ci], j2[ci], r2[ci])))
            return out
        try:
            m2, st2 = S.shrink_batch(m, stim, pred_batch, rounds=5 if tier == "quick" else 14)
        except Exception:
            m2, st2 = m, stim
        rep = {"module": G.module_to_json(m2), "stim": G.stim_to_json(st2), "veryl": G.to_veryl(m2)[:20000], "origin": tag, "detail": d}
        if k == "ref-differs":
            res.violation(k, w + " — all swap points agree with each other; reference and simulator differ",
                          dict(rep, no_longer_checks="correspondence reference = simulator"), no_input=True)
        else:
            res.violation(k, w, rep)
    if not proved and not res.violations:
        pf = getattr(res, "proof_failure", {})
        res.violation("proof", "Props/C33.v is no longer established: %s" % pf.get("where", "audit"),
                      {"no_longer_checks": "theorems of Props/C33.v", **pf}, no_input=True)
    return res.finish()
