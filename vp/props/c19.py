"""C19 — Synthesized netlists behave like the RTL.

proof:   coq/Props/C19.v — semantics of the gate-level IR (coq/GateSim/GateModel.v): cell functions = documented
         formulas (CellKind list / arities / doc formulas regenerated from ir.rs by translators/cellkinds.py),
         evaluation-order irrelevance, soundness of the netlist check, ripple adder, Kogge-Stone = ripple,
         Sklansky = scan, re-association, mux decoding, count rebuild — all widths.
tie / detector (translation validation, every run): harness/netsim (vh-netsim) runs the REAL synthesizer
         (veryl_synthesizer::synthesize_with, the call `veryl synth` makes) on generated designs for several cell
         libraries and RamConfigs, serialises each GateModule, and simulates the RTL with veryl's Simulator
         (4-state, X = don't care).  The Gallina gate_cycle, extracted to OCaml, simulates every netlist on the
         same stimulus; all known output bits must agree in every cycle.  Structural oracle in addition: flip-flop
         clock edge / reset polarity / sync-ness must be the declared clock and reset type.
"""
import json
import os
import random
import re

from .. import common as C
from ..gen import synthdesigns as G

PID = "C19"

MANIFEST = {
    "category": "other",
    "technique": "Coq semantics of the gate netlist IR + proofs of the building blocks; per-netlist translation validation "
                 "(extracted gate_cycle vs veryl's RTL simulator on generated designs x libraries x RAM configs)",
    "text": "The 13k-line conversion is not transcribed. Proved (all widths/lengths, no axioms): every CellKind's function equals "
            "its documented formula (kind list/arity/formulas regenerated from ir.rs each run); evaluating a netlist in any "
            "topological order gives the unique solution of its equations (order irrelevance, also for whole runs); the netlist "
            "checker is sound; ripple adder = a+b+cin; Kogge-Stone adder = ripple; Sklansky network = linear scan; And/Or/Xor "
            "re-association; mux-tree/chain decoding; popcount rebuild of count scans. Validated per run: for generated designs "
            "(arithmetic 1..70 bits, mul/div, shifts, muxes/case, reductions/scans, count scans, registers with every reset kind, "
            "arrays around the RAM threshold, hierarchy, concat/selects/signed) the real synthesizer's netlist, simulated by the "
            "extracted Gallina gate_cycle, equals veryl's RTL simulation on every known output bit of every cycle, for several "
            "libraries and RAM thresholds.",
    "note": "Trusted: Coq kernel; GateModel.v as the meaning of GateModule (cycle-level: one active edge per cycle, async reset sampled "
            "at the edge like veryl's Simulator, X never modelled - RTL X bits are don't-care); vh-netsim harness + OCaml driver "
            "(parsing, topological sort - re-checked in Gallina); veryl's own Simulator as the RTL reference (interpreter, 4-state). "
            "Partial: no theorem covers the conversion passes themselves; they are validated per generated netlist only.",
}

HERE = os.path.dirname(os.path.abspath(__file__))
OCAML_DIR = os.path.join(C.HARNESS, "netsim", "ocaml")
CORPUS = os.path.join(C.VERIF, "corpus", "C19")


# --------------------------------------------------------------------------------------------- running things
def harness_cases(binary, cases, timeout=3000):
    """cases: list of dict (design + 'cycles' + 'configs'); returns parsed results (dict or ('ERR', text))."""
    lines = [json.dumps(c, separators=(",", ":")) for c in cases]
    outs = C.run_lines(binary, lines, timeout=timeout, nshards=min(C.NCPU, max(1, len(lines))))
    res = []
    for ln in outs:
        if ln.startswith("OK "):
            try:
                res.append(json.loads(ln[3:]))
                continue
            except ValueError:
                pass
        res.append(("ERR", ln[:400]))
    return res


def case_of(d, stim, configs):
    return {"src": d["src"], "top": d["top"], "clk": d["clk"], "rst": d["rst"], "reset_type": d["reset_type"],
            "clock_type": d["clock_type"], "ins": d["ins"], "outs": d["outs"], "cycles": stim, "configs": configs}


def netlist_ports(text):
    """[(dir, name, width)] in netlist order"""
    out = []
    for r in text.split(";"):
        if r.startswith("P "):
            f = r.split(" ")
            out.append((f[1], f[2], int(f[3])))
    return out


def netlist_ffs(text):
    out = []
    for r in text.split(";"):
        if r.startswith("F "):
            f = r.split(" ")
            if f[3] == "-":
                out.append((f[2], None, None))
            else:
                out.append((f[2], f[4], f[5]))
    return out


def model_line(d, stim, rstv, text):
    """driver input line for one netlist; returns (line, out_ports) or raises ValueError"""
    ports = netlist_ports(text)
    names = [n for n, _ in d["ins"]]
    cyc = []
    for ci, c in enumerate(stim):
        vals = []
        for (dr, name, w) in ports:
            if dr == "o":
                continue
            if name == d["clk"]:
                vals.append("0")
            elif name == d["rst"]:
                vals.append("%x" % (rstv[ci] if ci < len(rstv) else 0))
            elif name in names:
                vals.append(c["v"][names.index(name)])
            else:
                # an input port the design does not have (e.g. the arguments of an inlined function show up as
                # `f.x`): its value must not matter, so it is driven with a changing pattern
                vals.append("%x" % (((0x5a5a5a5a5a5a5a5a5a5a5a5a5a5a5a5a >> (ci % 7)) ^ (ci * 0x9e3779b97f4a7c15)) & ((1 << w) - 1)))
        cyc.append(" ".join(vals))
    outp = [(name, w) for (dr, name, w) in ports if dr != "i"]
    return "%s|%s|%s" % (text, d["clk"] or "-", ";".join(cyc)), outp


def run_model(model_bin, lines, timeout=3000):
    return C.run_lines(model_bin, lines, timeout=timeout, nshards=min(C.NCPU, max(1, len(lines))))


def compare(d, rtl, model_out, outp):
    """first mismatch (cycle, port, rtl, netlist) or None; plus (#known bits compared, #x bits skipped)"""
    if not model_out.startswith("OK"):
        return ("model", model_out[:200]), 0, 0
    cycles = model_out[3:].split(";") if len(model_out) > 3 else []
    trace = rtl["trace"]
    if len(cycles) != len(trace):
        return ("model", "cycle count %d vs %d" % (len(cycles), len(trace))), 0, 0
    pos = {name: i for i, (name, w) in enumerate(outp)}
    known_bits = 0
    x_bits = 0
    first = None
    for ci, (row, mc) in enumerate(zip(trace, cycles)):
        mv = mc.split(" ") if mc else []
        for oi, (name, w) in enumerate(d["outs"]):
            if name not in pos:
                return ("model", "output port %s missing from the netlist" % name), 0, 0
            pay, msk = row[oi].split("/")
            pay, msk = int(pay, 16), int(msk, 16)
            full = (1 << w) - 1
            got = int(mv[pos[name]], 16)
            known = full & ~msk
            known_bits += bin(known).count("1")
            x_bits += bin(msk & full).count("1")
            if (pay ^ got) & known and first is None:
                first = (ci, name, "%x/%x" % (pay, msk), "%x" % got)
    return first, known_bits, x_bits


CLK_EDGE = {"clock_posedge": "p", "clock_negedge": "n"}
RST_KIND = {"reset_async_high": ("h", "a"), "reset_async_low": ("l", "a"), "reset_sync_high": ("h", "s"), "reset_sync_low": ("l", "s")}
RT_KIND = {"async_high": ("h", "a"), "async_low": ("l", "a"), "sync_high": ("h", "s"), "sync_low": ("l", "s")}


def structural(d, text):
    """declared clock edge / reset kind vs the netlist's flip-flops.  Returns list of (key, text)."""
    p = d.get("params") or {}
    bad = []
    clk_ty, rst_ty = p.get("clk_ty"), p.get("rst_ty")
    if d["family"] not in ("regs", "hier") or not d["clk"]:
        return bad
    want_edge = None
    if clk_ty in CLK_EDGE:
        want_edge = CLK_EDGE[clk_ty]
    elif clk_ty == "clock":
        want_edge = "n" if d["clock_type"] == "negedge" else "p"
    elif d["family"] == "hier":
        want_edge = "n" if d["clock_type"] == "negedge" else "p"
    want_rst = None
    if rst_ty in RST_KIND:
        want_rst = RST_KIND[rst_ty]
    elif rst_ty == "reset":
        want_rst = RT_KIND[d["reset_type"]]
    for (edge, pol, sy) in netlist_ffs(text):
        if want_edge and edge != want_edge:
            bad.append(("ff-edge", "flip-flop clock edge %s, declared clock type %s (clock_type=%s)" % (edge, clk_ty or "clock", d["clock_type"])))
            break
    for (edge, pol, sy) in netlist_ffs(text):
        if pol is not None and want_rst and (pol, sy) != want_rst:
            bad.append(("ff-reset-kind", "flip-flop reset is (%s,%s), declared %s (reset_type=%s) means (%s,%s)" %
                        (pol, sy, rst_ty, d["reset_type"], want_rst[0], want_rst[1])))
            break
    return bad


def finding_class(d):
    """identity of the known-finding class a (corpus) design reproduces, or None.  Generated designs avoid the
    known classes (see vp/gen/synthdesigns.py), so only corpus reproducers carry a finding_key."""
    return d.get("finding_key")


def judge_case(d, stim, configs, hres, model_bin, runner=None):
    """Evaluate one harness result.  Returns dict with 'viol': [(key, what, detail)], stats."""
    out = {"viol": [], "known_bits": 0, "x_bits": 0, "synth": {}, "sims": 0}
    if isinstance(hres, tuple):
        kind = hres[1].split(" ")[0]
        out["harness"] = hres[1]
        if kind == "PANIC":
            out["viol"].append(("frontend-panic", "parser/analyzer panicked on a generated design: " + hres[1][:200], {}))
        return out
    rtl = hres["rtl"]
    out["rtl"] = rtl["status"]
    lines, meta = [], []
    texts = {}
    for ci, (cfg, s) in enumerate(zip(configs, hres["synth"])):
        st = s["status"]
        out["synth"][st] = out["synth"].get(st, 0) + 1
        if st == "panic":
            out["viol"].append(("synth-panic", "the synthesizer panicked (%s): %s" % (cfg["lib"], s.get("msg", "")[:200]), {"config": cfg}))
        if st != "ok":
            continue
        text = s["net"] if s["net"] is not None else texts.get(s["same"])
        texts[ci] = text
        for k, w in structural(d, text):
            out["viol"].append((k, w, {"config": cfg}))
        if s["net"] is None or rtl["status"] != "ok":
            continue
        try:
            ln, outp = model_line(d, stim, rtl.get("rst", []), text)
        except ValueError as e:
            out["viol"].append(("ports", str(e), {"config": cfg}))
            continue
        lines.append(ln)
        meta.append((ci, cfg, outp, s))
    if lines:
        mo = (runner(lines) if runner else run_model(model_bin, lines)) if model_bin else []
        for (ci, cfg, outp, s), m in zip(meta, mo):
            out["sims"] += 1
            if m.startswith("ILLFORMED"):
                out["viol"].append(("illformed-netlist", "the netlist is cyclic / has a doubly driven net / a cell with wrong arity (%s)" % cfg["lib"], {"config": cfg}))
                continue
            if m.startswith("CLOCK"):
                out["viol"].append(("derived-clock", "a flip-flop or RAM is clocked by a net that is not the clock port (%s)" % cfg["lib"], {"config": cfg}))
                continue
            first, kb, xb = compare(d, rtl, m, outp)
            out["known_bits"] += kb
            out["x_bits"] += xb
            if first is None:
                continue
            if first[0] == "model":
                out["viol"].append(("model-io", "extracted evaluator could not be compared: %s" % first[1], {"config": cfg}))
                continue
            cyc, port, rv, gv = first
            same_cfgs = [configs[j] for j, s2 in enumerate(hres["synth"]) if s2.get("same") == ci]
            out["viol"].append(("mismatch", "netlist output differs from the RTL simulation: library %s ram %s cycle %d port %s: RTL %s (payload/xmask), netlist %s"
                                % (cfg["lib"], cfg.get("ram"), cyc, port, rv, gv),
                                {"config": cfg, "cycle": cyc, "port": port, "rtl": rv, "netlist": gv,
                                 "also_configs": same_cfgs, "cells": s.get("cells"), "ffs": s.get("ffs"), "rams": s.get("rams")}))
    return out


def configs_for(d, tier, idx):
    rams = [G.RAM_DEFAULT]
    if d["family"] in ("ram", "hram"):
        rams = [G.RAM_DEFAULT, G.RAM_SMALL]
    if tier == "quick":
        libs = [G.LIBS[idx % 4], G.LIBS[(idx + 1 + (idx // 4) % 3) % 4]]
    else:
        libs = list(G.LIBS)
        rams = [G.RAM_DEFAULT, G.RAM_SMALL]
    return [{"lib": lb, "ram": r} for r in rams for lb in libs]


def load_corpus():
    out = []
    if os.path.isdir(CORPUS):
        for f in sorted(os.listdir(CORPUS)):
            if f.endswith(".json"):
                j = json.load(open(os.path.join(CORPUS, f)))
                j.setdefault("family", "corpus")
                j.setdefault("params", {})
                j.setdefault("top", "Top")
                j.setdefault("reset_type", "async_low")
                j.setdefault("clock_type", "posedge")
                j.setdefault("init", None)
                j.setdefault("tags", [])
                j["corpus_file"] = f
                out.append(j)
    return out


# --------------------------------------------------------------------------------------------- shrinking
def still_fails(binary, model_bin, d, stim, cfg, key):
    h = harness_cases(binary, [case_of(d, stim, [cfg])], timeout=600)[0]
    j = judge_case(d, stim, [cfg], h, model_bin)
    for (k, w, det) in j["viol"]:
        if k == key:
            return (k, w, det)
    return None


def shrink(binary, model_bin, d, stim, cfg, key, stim_seed, budget=60):
    """greedy: fewer cycles, then smaller parameters (re-rendered design, regenerated stimulus)."""
    cur_d, cur_s = d, stim
    f = still_fails(binary, model_bin, cur_d, cur_s, cfg, key)
    if f is None:
        return d, stim, None
    best = f
    if key == "mismatch":
        cyc = f[2].get("cycle", len(cur_s) - 1)
        s2 = cur_s[:cyc + 1]
        f2 = still_fails(binary, model_bin, cur_d, s2, cfg, key)
        if f2:
            cur_s, best = s2, f2
    if cur_d["family"] in G.FAMILIES:
        improved = True
        while improved and budget > 0:
            improved = False
            for p in G.shrink_params(cur_d["family"], cur_d["params"]):
                if budget <= 0:
                    break
                budget -= 1
                nd = G.build(cur_d["family"], p)
                ns = G.gen_stimulus(random.Random(stim_seed), nd, 24)
                f2 = still_fails(binary, model_bin, nd, ns, cfg, key)
                if f2:
                    if key == "mismatch":
                        ns = ns[:f2[2].get("cycle", len(ns) - 1) + 1]
                    cur_d, cur_s, best = nd, ns, f2
                    improved = True
                    break
    return cur_d, cur_s, best


def replay_dict(d, stim, cfg, det):
    r = {"design": {k: d.get(k) for k in ("family", "params", "src", "top", "clk", "rst", "reset_type", "clock_type", "ins", "outs",
                                          "finding_key", "addr_ports")},
         "config": cfg, "stimulus": stim}
    r.update({k: v for k, v in det.items() if k != "config"})
    return r


# --------------------------------------------------------------------------------------------- the check
def run(tier, seed, replay):
    res = C.Result(PID, "other", tier, seed)
    res.coverage["trusted_base"] = C.std_trusted_base([
        "model: coq/GateSim/GateModel.v is the meaning of synthesizer::ir::GateModule (structural: ports/cells/ffs/ram_blocks; NetDriver table ignored); "
        "cycle-level: one active edge per cycle, async reset sampled at the edge (as veryl's Simulator does), 2-state",
        "translators/cellkinds.py copies the CellKind list, arities, symbols and doc formulas from crates/synthesizer/src/ir.rs",
        "harness/netsim (vh-netsim): calls veryl_synthesizer::synthesize_with and veryl_simulator::Simulator, prints the netlist structurally",
        "harness/netsim/ocaml/driver.ml: parsing, Kahn topological sort (validated by the extracted check_netlist), number conversion",
        "RTL reference = veryl's own Simulator (interpreter, 4-state); bits it reports as X are not compared"])
    res.assumptions = [
        "netlist semantics is cycle based: posedge/negedge flops on one clock are not distinguished by simulation (the declared edge is checked structurally)",
        "asynchronous reset modelled as sampled at the clock edge, like Simulator::set_reset_level + step",
        "X is not modelled: model state starts at 0; only output bits the RTL simulation reports as known are compared",
        "the conversion passes are validated per netlist, not proved"]
    explanation = ("whole-pipeline property: the conversion (conv/*.rs, 13k lines) is not transcribed into Gallina; the theorems cover the "
                   "netlist semantics and the building blocks, the pipeline is translation-validated per generated design")
    res.coverage["explanation"] = explanation

    # 1. translator
    try:
        import importlib.util
        spec = importlib.util.spec_from_file_location("cellkinds", os.path.join(C.VERIF, "translators", "cellkinds.py"))
        ck = importlib.util.module_from_spec(spec)
        spec.loader.exec_module(ck)
        C.ensure_dirs()
        rows = ck.run(C.REPO, C.COQ)
        res.obligation("translator cellkinds: %d CellKind variants with arity, symbol, documented formula" % len(rows), True)
        res.coverage["cell_kinds"] = [{"kind": r["kind"], "arity": r["arity"], "formula": r["formula"], "origin": r["origin"]} for r in rows]
        tr_ok = True
    except Exception as e:  # translator anchors missing
        res.obligation("translator cellkinds", False, str(e))
        tr_ok = False
        tr_err = str(e)

    # 2. proofs
    proved = C.prove(res, PID)

    # 3. harness + extracted evaluator
    ok, binary, log = C.harness_build("vh-netsim")
    res.obligation("harness build vh-netsim from /repo working tree", ok, log[-400:])
    if not ok:
        res.violation("harness-build", "the netsim harness no longer builds against /repo: " + log[-300:], {"log": log[-2000:]}, no_input=True)
        return res.finish()
    extract_v = open(os.path.join(OCAML_DIR, "extract.v")).read()
    driver_ml = open(os.path.join(OCAML_DIR, "driver.ml")).read()
    mok, model_bin, mlog = C.ocaml_build("netsim", extract_v, driver_ml)
    res.obligation("extraction of gate_cycle / simulate to OCaml + driver build", mok, mlog[-400:])
    if not mok:
        model_bin = None

    if replay:
        rp = json.load(open(replay))
        d = rp["design"]
        d.setdefault("init", None)
        d.setdefault("tags", [])
        cfg, stim = rp["config"], rp["stimulus"]
        h = harness_cases(binary, [case_of(d, stim, [cfg])], timeout=600)[0]
        j = judge_case(d, stim, [cfg], h, model_bin)
        print("replay: rtl=%s synth=%s violations=%s" % (j.get("rtl"), j["synth"], [(k, w) for k, w, _ in j["viol"]]))
        for (k, w, det) in j["viol"]:
            key = finding_class(d) or (k if k != "mismatch" else "mismatch:%s" % d.get("family", "corpus"))
            res.violation(key, w, replay_dict(d, stim, cfg, det))
        return res.finish()

    # 4. cases: corpus first, then generated
    rng = random.Random(seed * 104729 + 19)
    n = 40 if tier == "quick" else 1500
    if os.environ.get("VERIF_C19_N"):          # development aid only (exploration with other sizes)
        n = int(os.environ["VERIF_C19_N"])
    cycles = 64
    corpus = load_corpus()
    designs = corpus + G.gen_designs(rng, n)
    cases, stims, cfgs = [], [], []
    for i, d in enumerate(designs):
        sseed = seed * 7919 + i
        stim = d.get("stimulus") or G.gen_stimulus(random.Random(sseed), d, cycles)
        cf = d.get("configs") or configs_for(d, tier, i)
        d["_stim_seed"] = sseed
        stims.append(stim)
        cfgs.append(cf)
        cases.append(case_of(d, stim, cf))
    hres = harness_cases(binary, cases)

    # run the model on all netlists in one parallel batch (judge_case does it per case; batch for speed)
    judged = _judge_all(designs, stims, cfgs, hres, model_bin)

    tot_known = tot_x = sims = 0
    status_hist = {}
    viols = []
    distinct = set()
    front_err = 0
    for i, (d, j) in enumerate(zip(designs, judged)):
        res.hist("family_histogram", d["family"])
        for t in d.get("tags", []):
            res.hist("shape_histogram", "%s:%s" % (d["family"], t))
        if "harness" in j:
            front_err += 1
            res.hist("frontend_rejects", j["harness"].split(" ", 2)[1] if " " in j["harness"] else j["harness"])
            if len(res.coverage.get("frontend_reject_samples", [])) < 8:
                res.coverage.setdefault("frontend_reject_samples", []).append({"family": d["family"], "params": d.get("params"), "msg": j["harness"][:300]})
        for k, v in j["synth"].items():
            status_hist[k] = status_hist.get(k, 0) + v
        if not isinstance(hres[i], tuple):
            for s_ in hres[i]["synth"]:
                if s_["status"] == "ok":
                    res.count("netlists_total")
                    res.count("cells_total", s_.get("cells", 0))
                    if s_.get("rams"):
                        res.count("netlists_with_ram_blocks")
                    if s_.get("ffs"):
                        res.count("netlists_with_flip_flops")
        if j.get("rtl") not in (None, "ok"):
            res.hist("rtl_status", j["rtl"])
        tot_known += j["known_bits"]
        tot_x += j["x_bits"]
        sims += j["sims"]
        if j["sims"] and j["known_bits"] > 0:
            distinct.add(d["src"])
        for (k, w, det) in j["viol"]:
            viols.append((i, k, w, det))
        if i < 3 + len(corpus) and len(res.coverage["samples"]) < 6:
            res.sample({"family": d["family"], "params": d.get("params"), "configs": [c["lib"] for c in cfgs[i]],
                        "synth": j["synth"], "known_bits_compared": j["known_bits"], "x_bits_skipped": j["x_bits"]})
    res.coverage["evaluations"] = sims
    res.coverage["designs"] = len(designs)
    res.coverage["distinct_nontrivial"] = len(distinct)
    res.coverage["rule"] = ("evaluation = one synthesized netlist simulated for all cycles by the extracted gate_cycle and compared with the RTL "
                            "simulation; non-trivial = distinct design source whose netlist was simulated and at least one known output bit compared")
    res.coverage["synth_status_histogram"] = status_hist
    res.coverage["known_output_bits_compared"] = tot_known
    res.coverage["x_output_bits_skipped"] = tot_x
    res.coverage["frontend_rejected_designs"] = front_err
    res.coverage["cycles_per_design"] = cycles
    n_ok = status_hist.get("ok", 0)
    n_all = sum(status_hist.values())
    res.obligation("generator health: >= 70%% of (design, config) pairs synthesize (got %d/%d), front end rejects <= 15%% of designs (%d/%d)"
                   % (n_ok, n_all, front_err, len(designs)), n_all > 0 and n_ok >= 0.7 * n_all and front_err <= 0.15 * len(designs))
    def is_known(v):
        c = finding_class(designs[v[0]])
        return bool(c) and c in res.known
    fresh = [v for v in viols if not is_known(v)]
    res.coverage["known_finding_reproducers"] = sorted({finding_class(designs[v[0]]) for v in viols if is_known(v)})
    res.obligation("netlist = RTL on every known output bit, every cycle (%d netlist simulations, %d bits compared; known findings excluded)"
                   % (sims, tot_known), not [v for v in fresh if v[1] == "mismatch"])
    res.obligation("every netlist passes the extracted check_netlist (acyclic, single driver, arities) and uses only the clock port as clock",
                   not [v for v in fresh if v[1] in ("illformed-netlist", "derived-clock")])
    res.obligation("flip-flop edge / reset polarity / sync-ness equal the declared clock and reset types (known findings excluded)",
                   not [v for v in fresh if v[1] in ("ff-edge", "ff-reset-kind")])
    res.obligation("no synthesizer / front-end panic on a generated design", not [v for v in fresh if v[1] in ("synth-panic", "frontend-panic")])

    # 5. violations: known classes first, then shrink and report the others
    reported = set()
    for (i, k, w, det) in viols:
        d = designs[i]
        cls = finding_class(d)
        if cls and (cls in res.known):
            res.violation(cls, w, {})
            continue
        key = k if k != "mismatch" else "mismatch:%s" % d["family"]
        if key in reported:
            continue
        reported.add(key)
        cfg = det.get("config") or cfgs[i][0]
        d2, s2, best = d, stims[i], None
        if k in ("mismatch", "synth-panic", "illformed-netlist", "ff-edge", "ff-reset-kind"):
            try:
                d2, s2, best = shrink(binary, model_bin, d, stims[i], cfg, k, d["_stim_seed"], budget=40 if tier == "quick" else 80)
            except Exception as e:  # shrinking is best effort
                res.notes.append("shrink failed: %r" % e)
        if best:
            k2, w2, det2 = best
            res.violation(cls or key, w2, replay_dict(d2, s2, cfg, det2))
        else:
            res.violation(cls or key, w, replay_dict(d, stims[i], cfg, det), no_input=(k in ("model-io", "ports")))

    if not tr_ok and not res.violations:
        res.violation("translator", "translators/cellkinds.py no longer finds its anchors in crates/synthesizer/src/ir.rs: " + tr_err,
                      {"no_longer_checks": "GeneratedCells.v is stale; cell_fn_matches_doc no longer speaks about the source"}, no_input=True)
    if not mok and not res.violations:
        res.violation("extraction", "the Gallina evaluator could not be extracted/built, netlists were not simulated: " + mlog[-300:],
                      {"no_longer_checks": "per-netlist validation"}, no_input=True)
    if not proved and not res.violations:
        pf = getattr(res, "proof_failure", {})
        res.violation("proof", "Props/C19.v is no longer established (%s); no netlist/RTL mismatch was found among %d simulations"
                      % (pf.get("where", "audit"), sims), {"no_longer_checks": "theorems of Props/C19.v", **pf}, no_input=True)
    return res.finish()


def _judge_all(designs, stims, cfgs, hres, model_bin):
    """judge_case for many designs with ONE parallel model batch."""
    pre = []
    lines = []
    for d, stim, cf, h in zip(designs, stims, cfgs, hres):
        if isinstance(h, tuple) or h["rtl"]["status"] != "ok":
            pre.append(None)
            continue
        idx = []
        for ci, s in enumerate(h["synth"]):
            if s["status"] == "ok" and s["net"] is not None:
                try:
                    ln, outp = model_line(d, stim, h["rtl"].get("rst", []), s["net"])
                    idx.append((ci, len(lines)))
                    lines.append(ln)
                except ValueError:
                    pass
        pre.append(idx)
    mo = run_model(model_bin, lines) if (lines and model_bin) else []
    cache = {}
    for ln, m in zip(lines, mo):
        cache[ln] = m

    def cached(lns):
        return [cache.get(x) or "ERR not simulated" for x in lns]
    return [judge_case(d, stim, cf, h, model_bin, runner=cached) for d, stim, cf, h in zip(designs, stims, cfgs, hres)]
