"""C22 — SystemVerilog translation preserves behaviour.

proof:   coq/Props/C22.v (partial): reset_text_test / reset_idiom_recognition (which `if (..) A else B`
         become `if_reset`), translate_preserves_ffs_partial (the translated always_ff blocks write the same
         non-blocking log as the SystemVerilog blocks when the Veryl-side reset polarity equals the polarity the
         text tests), polarity_mismatch_refuted, tr_expr_preserves_partial.
tie:     correspondence  real translate_str on generated reset-idiom spellings  vs  VV.Translate.is_reset_text
oracle:  (main detector) µSV modules printed from µRTL ASTs (vp/gen/svmods.py) -> real translate_str ->
         (a) no `unsupported` report, (b) the produced Veryl parses and analyses without errors (real parser +
         analyzer), (c) simulated with veryl's own simulator it equals, cycle by cycle, the extracted Coq
         reference semantics (coq/Rtl, IEEE 1800) of the ORIGINAL SystemVerilog AST.
"""
import json
import random
import re

from .. import common as C
from .. import rtl_ref as R
from ..gen import rtl as G
from ..gen import svmods as S

PID = "C22"

MANIFEST = {
    "category": "other",
    "technique": "Coq proof of the reset-idiom recognition and of semantic preservation of the always_ff core (partial) + "
                 "end-to-end differential validation: generated SystemVerilog -> real translator -> real parser/analyzer/"
                 "simulator vs extracted Coq reference semantics of the original SystemVerilog AST",
    "text": "Partial. Proved (coq/Translate over the shared µRTL semantics coq/Rtl): the textual reset test of convert.rs accepts "
            "exactly six spellings; an `if` becomes `if_reset` iff the reset is in the sensitivity list, the if has a single "
            "condition with an else branch, and the condition is one of the six spellings; the translated always_ff blocks "
            "produce the same non-blocking write log as the SystemVerilog blocks provided the Veryl-side reset polarity equals "
            "the polarity tested by the text (necessary: polarity_mismatch_refuted); expressions are copied, value-preserving "
            "for the spellings common to both languages. Validated (not proved) for the whole tool: for generated µSV modules "
            "(widths around 32/64/65 and up to 200, signed/unsigned, all IEEE operators of the core, nested if/case, several "
            "always blocks, sync/async reset of both polarities in recognised and unrecognised spellings, parameters and "
            "localparams) the real translator reports nothing unsupported, its output parses and analyses without errors, and "
            "simulates cycle by cycle like the reference semantics of the original SystemVerilog.",
    "note": "No SystemVerilog simulator exists in this sandbox: the SystemVerilog side is the IEEE 1800 reference semantics of "
            "coq/Rtl (extracted to OCaml) applied to the AST the SystemVerilog text was printed from; the printer "
            "(vp/gen/svmods.py) is trusted. sv-parser and everything outside the µSV core (generate, instances, functions, "
            "interfaces, packages, typedefs) are not covered. Known findings: see KNOWN_FINDINGS.txt (constructs copied "
            "verbatim that are not Veryl; clock/reset ports typed `logic`; polarity of the reset dropped).",
}

CONFIGS = [("2s", ["4state=0", "jit=0"], "2"), ("4s", ["4state=1", "jit=0"], "4")]


# ----------------------------------------------------------------------------- reset idiom spellings

SPELL = ["%s", "!%s", "~%s", "(%s)", "(!%s)", "(~%s)", "! %s", "~ %s", "((%s))", "(! %s)", "!(%s)", "%s == 1'b0",
         "%s == 1'b1", "%s != 1'b0", "!%s ", " !%s", "%s === 1'b0", "!%s_x", "%sx", "~(%s)"]


def idiom_cases(rng, n):
    cases = []
    for _ in range(n):
        rst = rng.choice(["rst", "rst_n", "reset", "arst_n", "r", "i_rst_n"])
        sens = rng.random() < 0.75
        edge = rng.choice(["posedge", "negedge"])
        form = rng.choice(SPELL[:6]) if rng.random() < 0.5 else rng.choice(SPELL)
        cond = form % rst
        shape = rng.choice(["else", "else", "else", "noelse", "elseif"])
        body = {"else": "if (%s) q <= 8'h00; else q <= d;",
                "noelse": "if (%s) q <= 8'h00;",
                "elseif": "if (%s) q <= 8'h00; else if (en) q <= d; else q <= q;"}[shape] % cond
        begin = rng.random() < 0.5
        if begin:
            body = "begin\n        %s\n    end" % body
        sv = ("module Top (\n    input  logic clk,\n    input  logic %s,\n    input  logic %s_x,\n    input  logic %sx,\n"
              "    input  logic en,\n    input  logic [7:0] d,\n    output logic [7:0] q\n);\n"
              "    always_ff @(posedge clk%s) %s\nendmodule\n"
              % (rst, rst, rst, (" or %s %s" % (edge, rst)) if sens else "", body))
        cases.append({"sv": sv, "translate_only": True, "rst": rst, "cond": cond.strip(), "sens": sens,
                      "simple": shape == "else"})
    return cases


def idiom_model(cases, name="c22_idiom"):
    def q(s):
        return '"' + s.replace('"', '""') + '"'
    terms = ["is_reset_text %s %s" % (q(c["cond"]), q(c["rst"])) for c in cases]
    pre = "From VV Require Import Translate.TranslateModel.\nOpen Scope string_scope.\n"
    for attempt in (0, 1):
        try:
            return C.coq_eval_sharded(name, pre, terms, lambda l: l, shard=400)
        except RuntimeError as ex:
            # another check rebuilt the shared coq/Rtl layer between our build and this evaluation
            if attempt == 0 and "inconsistent assumptions" in str(ex):
                C.coq_make(["Props/C22.vo"])
                continue
            raise


# ----------------------------------------------------------------------------- programs

PROFILES = {
    # the generator runs with every construct on; `allow` decides which of the constructs that the translator does
    # not carry (recorded findings) stay in the program: none for the core population, one per probe population
    "core": dict(tern=True, cast=True, xz_lit=False, pow=False, max_depth=3),
    "probe": dict(tern=True, cast=True, xz_lit=False, pow=False, max_depth=2),
}
PROBES = ["ternary", "rel", "replication", "size-cast", "case-block", "async-unrecognised", "keyword-ident"]
# shapes that were recorded findings and are repaired in /repo (KNOWN_FINDINGS `fixed:`): part of the core population
CORE_ALLOW = {"comb-block", "nested-case"}


def strip_construct(m, allow):
    """rewrite the AST so that only allowed non-carried constructs remain (same AST feeds the reference and the
    SystemVerilog printer, so this is not a semantic claim)"""
    def we(e):
        k = e[0]
        if k == "un":
            return ("un", e[1], we(e[2]))
        if k == "bin":
            o = e[1]
            if o == "lt" and "rel" not in allow:
                o = "le"
            if o == "gt" and "rel" not in allow:
                o = "ge"
            return ("bin", o, we(e[2]), we(e[3]))
        if k == "tern":
            return ("tern", we(e[1]), we(e[2]), we(e[3])) if "ternary" in allow else we(e[2])
        if k == "cat":
            return ("cat", [(we(a), n if "replication" in allow else 1) for a, n in e[1]])
        if k == "cast":
            return ("cast", e[1], we(e[2])) if "size-cast" in allow else we(e[2])
        if k == "sign":
            return ("sign", e[1], we(e[2]))
        return e

    def ws(s):
        k = s[0]
        if k == "assign":
            return ("assign", s[1], we(s[2]))
        if k == "asel":
            return ("asel", s[1], s[2], s[3], we(s[4]))
        if k == "if":
            return ("if", we(s[1]), [ws(x) for x in s[2]], [ws(x) for x in s[3]])
        if k == "case":
            return ("case", we(s[1]), [([we(p) for p in pats], [ws(x) for x in body]) for pats, body in s[2]],
                    [ws(x) for x in s[3]])
        raise ValueError(k)

    items = []
    for it in m["items"]:
        if it[0] == "assign":
            items.append(("assign", it[1], we(it[2])))
        elif it[0] == "comb":
            items.append(("comb", [ws(s) for s in it[1]]))
        else:
            items.append(("ff", None if it[1] is None else [ws(s) for s in it[1]], [ws(s) for s in it[2]]))
    return {"decls": m["decls"], "items": items, "order": m["order"]}


ONE = ("lit", 1, False, 1, 0)


def single(stmts):
    """a statement list as ONE statement: `if (1'h1) begin <all> end else begin <all> end`"""
    if len(stmts) == 1:
        return stmts
    return [("if", ONE, list(stmts), list(stmts))]


def normalize(m, allow):
    """keep the program inside the shapes the translator carries (see KNOWN_FINDINGS for the others):
    an always_comb body and every case arm is exactly one statement"""
    def nocase(stmts):
        """a nested case inside a (non-default) case arm is a recorded finding (the arm is emitted as `default:`):
        replace it by the statements of its default branch"""
        out = []
        for x in stmts:
            if x[0] == "case":
                out += nocase(x[3])
            elif x[0] == "if":
                out.append(("if", x[1], nocase(x[2]), nocase(x[3])))
            else:
                out.append(x)
        return out

    def ws(s):
        k = s[0]
        if k == "if":
            return ("if", s[1], [ws(x) for x in s[2]], [ws(x) for x in s[3]])
        if k == "case":
            if "nested-case" not in allow:
                s = ("case", s[1], [(pats, nocase(body)) for pats, body in s[2]], s[3])
            arms = [(pats, single([ws(x) for x in body]) if "case-block" not in allow else [ws(x) for x in body])
                    for pats, body in s[2]]
            dflt = [ws(x) for x in s[3]]
            return ("case", s[1], arms, single(dflt) if "case-block" not in allow else dflt)
        return s
    items = []
    for it in m["items"]:
        if it[0] == "comb":
            body = [ws(s) for s in it[1]]
            items.append(("comb", single(body) if "comb-block" not in allow else body))
        elif it[0] == "ff":
            items.append(("ff", None if it[1] is None else [ws(s) for s in it[1]], [ws(s) for s in it[2]]))
        else:
            items.append(it)
    return {"decls": m["decls"], "items": items, "order": m["order"]}


def make_case(rng, profile, allow, cycles, params=True):
    m, st, stim = S.gen_case(rng, cycles=cycles, profile=PROFILES[profile], params=params,
                             unrecognised_async="async-unrecognised" in allow)
    m = normalize(strip_construct(m, allow), allow)
    if "keyword-ident" in allow:
        st["rst"] = "reset"
    return m, st, stim


VERYL_KEYWORDS = {"reset", "clock", "input", "output", "var", "let", "inst", "param", "const", "type", "bit", "logic",
                  "repeat", "step", "in", "as", "for", "if", "else", "case", "switch", "default", "function", "return",
                  "module", "interface", "package", "import", "export", "enum", "struct", "union", "signed", "initial",
                  "final", "assign", "always_ff", "always_comb", "if_reset", "tri", "inout", "modport", "embed", "include",
                  "pub", "proto", "alias", "break", "inside", "outside", "unsafe", "false", "true", "converse", "same",
                  "block", "gen", "bind", "lsb", "msb", "u8", "u16", "u32", "u64", "i8", "i16", "i32", "i64", "f32", "f64",
                  "bool", "string", "clock_posedge", "clock_negedge", "reset_async_high", "reset_async_low",
                  "reset_sync_high", "reset_sync_low", "p8", "p16", "p32", "p64", "bbool", "lbool"}


def repairs_for(m, st):
    """textual repairs of the recorded finding `clock-reset-typed-logic` (the translator types every port `logic`):
    give the clock and, when it is in the sensitivity list, the reset their Veryl types"""
    if not S.has_ff(m):
        return []
    r = [["%s: input logic," % st["clk"], "%s: input clock_posedge," % st["clk"]]]
    if S.has_reset(m) and st["reset"].startswith("async"):
        r.append(["%s: input logic," % st["rst"],
                  "%s: input reset_async_%s," % (st["rst"], "low" if st["reset"].endswith("low") else "high")])
    return r


def harness_case(m, st, stim):
    D = m["decls"]
    has_ff = S.has_ff(m)
    has_rst = S.has_reset(m)
    c = {"sv": S.to_sv(m, st), "top": "Top", "clk": st["clk"] if has_ff else None,
         "rst": st["rst"] if has_rst else None, "rst_active": S.rst_active_level(st),
         "ins": [[D[i][0], D[i][1]] for i in G.inputs_of(m)],
         "outs": [[D[i][0], D[i][1]] for i in G.outputs_of(m)],
         "repairs": repairs_for(m, st),
         "veryl_direct": G.to_veryl(m),
         "cycles": [{"r": 1, "v": ["0"] * len(G.inputs_of(m))}]}
    for (r, vals) in stim:
        c["cycles"].append({"r": 1 if r else 0, "v": ["%x" % p for p, _ in vals]})
    return c


NONCORE = ["ternary", "rel-lt", "rel-gt", "replication", "size-cast", "pow", "xz-literal", "case-block",
           "keyword-ident", "async-unrecognised"]


def construct_of(tags):
    for t in NONCORE:
        if tags.get(t):
            return t
    return "core"


def compare_trace(m, trace, ref):
    got = trace[1:]
    want = [["%x/%x" % (p, mk) for (p, mk) in row] for row in ref[1]]
    for i, (g, w) in enumerate(zip(got, want)):
        if g != w:
            names = [d[0] for d in m["decls"] if d[4] == "out"]
            k = [n for n, a, b in zip(names, g, w) if a != b]
            return ("cycle %d: outputs %s are %s, the SystemVerilog reference gives %s"
                    % (i, k, [a for a, b in zip(g, w) if a != b], [b for a, b in zip(g, w) if a != b]))
    return None


def judge(case, m, st, tags, out, ref):
    """the property on one program: returns list of (key, detail).  Keys name the failing stage and the construct
    that explains it (construct_of), so that recorded findings are specific."""
    cons = construct_of(tags)
    if out.startswith("ERR translate"):
        return [("sv-parse:" + cons, "sv-parser rejected the generated SystemVerilog: " + out[:200])]
    if not out.startswith("OK "):
        return [("crash:" + cons, out[:300])]
    j = json.loads(out[3:])
    bad = []
    if j["unsupported"]:
        return [("unsupported:%s" % cons, "reported unsupported: %s" % sorted(set(j["unsupported"])))]
    def akey(errs):
        # core programs: the error names identify the defect; probe constructs: the construct does
        return "analyze:%s:core" % "+".join(errs) if cons == "core" else "analyze:" + cons
    if j["parse"]:
        return [("parse:" + cons, "the produced Veryl does not parse: " + j["parse"][:160])]
    res = j
    if j["errors"]:
        if S.has_ff(m) and set(j["errors"]) <= {"InvalidClock", "InvalidReset"}:
            bad.append(("analyze:clock-reset-typed-logic",
                        "the produced Veryl has analyzer errors %s: clock / reset ports of always_ff are typed `logic`" % j["errors"]))
            res = j.get("repaired")
            if res is None:
                return bad
            if res["parse"] or res["errors"] or res["build"]:
                bad.append((akey(res["errors"] or ["parse-after-repair"]),
                            "after typing clock/reset the produced Veryl still fails: %s %s %s"
                            % (res["parse"], res["errors"], res["build"])))
                return bad
        else:
            return [(akey(j["errors"]), "the produced Veryl has analyzer errors: %s" % j["errors"])]
    if res["build"]:
        return bad + [("build:" + cons, "simulator IR build failed: " + res["build"][:200])]
    if ref[0] != "OK" or res["trace"] is None:
        return bad
    d = compare_trace(m, res["trace"], ref)
    if d:
        # triage: the same AST printed directly as Veryl must agree with the reference on this stimulus, otherwise the
        # disagreement is between the reference and veryl's simulator (C02 / C18), not a translation defect
        dj = j.get("direct")
        if not dj or dj.get("trace") is None or compare_trace(m, dj["trace"], ref) is not None:
            bad.append(("untriaged", "reference and veryl's simulator disagree on the untranslated design: " + d))
            return bad
        rk = ("ff-" + st["reset"]) if S.has_reset(m) else ("ff" if S.has_ff(m) else "comb")
        bad.append((("behaviour:core:" + rk) if cons == "core" else ("behaviour:" + cons), d))
    return bad


def corpus_cases():
    import os
    out = []
    d = os.path.join(C.VERIF, "corpus", PID)
    if os.path.isdir(d):
        for f in sorted(os.listdir(d)):
            if f.endswith(".json"):
                for ln in open(os.path.join(d, f)):
                    if ln.strip():
                        out.append(json.loads(ln))
    fx = os.path.join(C.REPO, "crates/translator/tests/fixtures")
    if os.path.isdir(fx):
        for f in sorted(os.listdir(fx)):
            # only the fixture that lies inside the µSV core (the others use functions / generate / instances /
            # interfaces: outside this check)
            if f == "sample2.sv":
                sv = open(os.path.join(fx, f)).read()
                has_ff = "always_ff" in sv
                out.append({"name": "fixture:" + f, "sv": sv,
                            "expect_key": "analyze:clock-reset-typed-logic" if has_ff else None})
    return out


def run(tier, seed, replay):
    res = C.Result(PID, "other", tier, seed)
    res.coverage["trusted_base"] = C.std_trusted_base([
        "model coq/Translate/TranslateModel.v (reset idiom of convert.rs) over the µRTL reference semantics coq/Rtl (BV/Ops1800 = "
        "the reading of IEEE 1800)",
        "extracted OCaml reference evaluator (vp/rtl_ref.py) applied to the AST the SystemVerilog was printed from",
        "SystemVerilog printer vp/gen/svmods.py (AST -> text with IEEE 1800 meaning equal to the AST's reference meaning)",
        "vh-translate harness: real translate_str, real parser/analyzer/simulator"])
    res.coverage["explanation"] = ("partial: proof covers the reset idiom and always_ff core of the translator's model; the "
                                   "translator as a whole is validated differentially on generated µSV programs")
    res.assumptions = ["reset level is 0/1 at the clock edge; the reset net is a 1-bit unsigned input",
                       "cycle-based observation (values after each clock edge); asynchronous reset edges between clock "
                       "edges are not distinguished from levels sampled at the edge"]
    proved = C.prove(res, PID)

    ok, binary, log = C.harness_build("vh-translate")
    res.obligation("harness build vh-translate from /repo working tree", ok, log[-400:])
    if not ok:
        res.violation("harness-build", "the translate harness no longer builds against /repo: " + log[-300:],
                      {"log": log[-2000:]}, no_input=True)
        return res.finish()
    okr, refbin, logr = R.ref_build()
    res.obligation("reference evaluator (coq/Rtl extracted) builds", okr, (logr or "")[-300:])
    if not okr:
        res.violation("reference-build", "the reference evaluator does not build", {"log": (logr or "")[-1500:]}, no_input=True)
        return res.finish()

    if replay:
        rp = json.load(open(replay))
        c = rp.get("case")
        if c:
            for (nm, args, mode) in CONFIGS:
                if rp.get("config") and rp["config"] != nm:
                    continue
                out = C.run_lines(binary, [json.dumps(c)], args=args)[0]
                print("replay[%s]: %s" % (nm, out[:2000]))
                if rp.get("ast"):
                    m, st, stim = rp["ast"]["m"], rp["ast"]["st"], rp["ast"]["stim"]
                    m = untuple_module(m)
                    stim = [(r, [tuple(v) for v in vals]) for r, vals in stim]
                    ref = R.ref_eval(refbin, [(m, stim, mode)])[0]
                    for key, w in judge(c, m, st, S.tags(m, st), out, ref):
                        res.violation(key, w, {"case": c})
        return res.finish()

    rng = random.Random(seed * 7919 + 22)
    quick = tier == "quick"
    found = []

    # ---- 0. corpus: hand-written minimal inputs (recorded findings + constructs that must keep working) and the
    #         repository's own translator fixtures; judged on (a) unsupported, (b) parse / analyse
    corp = corpus_cases()
    outs = C.run_lines(binary, [json.dumps({"sv": c["sv"], "top": "Top", "clk": None, "rst": None, "ins": [], "outs": [],
                                            "cycles": []}) for c in corp], args=CONFIGS[0][1])
    for c, o in zip(corp, outs):
        stage = None
        if not o.startswith("OK "):
            stage = "crash: " + o[:200]
        else:
            j = json.loads(o[3:])
            if j["unsupported"]:
                stage = "reported unsupported %s" % j["unsupported"]
            elif j["parse"]:
                stage = "the produced Veryl does not parse: " + j["parse"][:120]
            elif j["errors"]:
                stage = "the produced Veryl has analyzer errors %s" % j["errors"]
        exp = c.get("expect_key")
        if stage and exp and not exp.startswith("behaviour:"):
            found.append((exp, "[corpus %s] %s" % (c["name"], stage), {"sv": c["sv"]}, None, None))
        elif stage and not (exp or "").startswith("behaviour:"):
            found.append(("corpus:" + c["name"], "[corpus %s] %s" % (c["name"], stage), {"sv": c["sv"]}, None, None))
    res.coverage["corpus_cases"] = len(corp)

    # ---- 1. reset idiom: model vs real translator
    idi = idiom_cases(rng, 300 if quick else 3000)
    outs = C.run_lines(binary, [json.dumps({"sv": c["sv"], "translate_only": True}) for c in idi])
    mo = idiom_model(idi)
    mism = []
    for c, o, txt_ok in zip(idi, outs, mo):
        if not o.startswith("OK "):
            mism.append((c, o[:200]))
            continue
        j = json.loads(o[3:])
        got = "if_reset" in j["veryl"]
        want = bool(txt_ok) and c["sens"] and c["simple"]
        res.hist("idiom_histogram", "sens=%d simple=%d recognised=%d" % (c["sens"], c["simple"], got))
        if got != want:
            mism.append((c, j["veryl"][:300]))
    res.obligation("correspondence reset-idiom recognition (real translate_str) = model on %d spellings" % len(idi), not mism)
    if mism:
        c, o = mism[0]
        found.append(("idiom-recognition", "`if (%s)` with reset `%s` (in sensitivity list: %s, single if/else: %s): the translator "
                      "and the model disagree on if_reset: %s" % (c["cond"], c["rst"], c["sens"], c["simple"], o),
                      {"sv": c["sv"], "translate_only": True}, None, None))

    # ---- 2. programs: the core population (must be clean) and one probe population per recorded finding
    pops = [("core", "core", set(CORE_ALLOW), 60 if quick else 1500, CONFIGS)]
    for p in PROBES:
        pops.append((p, "probe", {p} | CORE_ALLOW, 6 if quick else 60, CONFIGS[:1]))
    total = 0
    fails = 0
    untriaged = 0
    for (pname, prof, allow, n, configs) in pops:
        progs = []
        for i in range(n):
            r2 = random.Random("%d-%s-%d" % (seed, pname, i))
            progs.append(make_case(r2, prof, allow, cycles=10 if quick else 16))
        for (nm, args, mode) in configs:
            cases = [harness_case(m, st, stim) for (m, st, stim) in progs]
            outs = C.run_lines(binary, [json.dumps(c) for c in cases], args=args, timeout=900)
            refs = R.ref_eval(refbin, [(m, stim, mode) for (m, st, stim) in progs])
            for (m, st, stim), c, o, ref in zip(progs, cases, outs, refs):
                total += 1
                tg = S.tags(m, st)
                for t in tg:
                    res.hist("construct_histogram", t, tg[t])
                res.hist("population_histogram", pname)
                if S.has_reset(m):
                    res.hist("reset_style_histogram", "%s cond=%s" % (st["reset"], st["cond"]))
                bad = judge(c, m, st, tg, o, ref)
                if any(k == "untriaged" for k, _ in bad):
                    untriaged += 1
                bad = [b for b in bad if b[0] != "untriaged"]
                if [b for b in bad if b[0] not in res.known]:
                    fails += 1
                for key, w in bad:
                    found.append((key, "[%s/%s] %s" % (pname, nm, w), c, {"m": m, "st": st, "stim": stim}, nm))
                if total <= 2:
                    res.sample({"config": nm, "sv": c["sv"][:600], "result": o[:300]})
    res.coverage["untriaged_reference_vs_simulator"] = untriaged
    res.coverage["evaluations"] = total + len(idi)
    res.coverage["distinct_nontrivial"] = total
    res.coverage["rule"] = ("µSV modules printed from random µRTL ASTs (vp/gen/rtl.py Gen: boundary widths 1..200, signed/unsigned, "
                            "bit/logic, all operators, nested if/case, lhs part-selects, 1-4 always blocks) x reset style (async/sync x "
                            "low/high x recognised/unrecognised spelling) x parameters/localparams; every program counts")
    res.coverage["programs_failing"] = fails
    res.obligation("generated µSV programs: nothing unsupported, output parses/analyses, simulates like the SystemVerilog reference "
                   "(%d program x config runs)" % total,
                   not [f for f in found if f[0] not in res.known])

    reported = set()
    for key, w, c, ast, nm in found:
        if key in reported:
            continue
        reported.add(key)
        if key in res.known:
            res.violation(key, w, {})
            continue
        res.violation(key, w, {"case": c, "ast": ast, "config": nm, "key": key})
    if not proved and not res.violations:
        pf = getattr(res, "proof_failure", {})
        res.violation("proof", "Props/C22.v is no longer established: %s" % pf.get("where", "audit"),
                      {"no_longer_checks": "theorems of Props/C22.v", **pf}, no_input=True)
    return res.finish()


def untuple_module(m):
    """JSON round trip turns tuples into lists; the generators / wire printers index positionally, so lists work,
    but decls / cat items are unpacked as tuples"""
    def we(e):
        k = e[0]
        if k == "cat":
            return ("cat", [(we(a), n) for a, n in e[1]])
        if k in ("un", "cast", "sign"):
            return (k, e[1], we(e[2]))
        if k == "bin":
            return ("bin", e[1], we(e[2]), we(e[3]))
        if k == "tern":
            return ("tern", we(e[1]), we(e[2]), we(e[3]))
        return tuple(e)

    def ws(s):
        k = s[0]
        if k == "assign":
            return ("assign", s[1], we(s[2]))
        if k == "asel":
            return ("asel", s[1], s[2], s[3], we(s[4]))
        if k == "if":
            return ("if", we(s[1]), [ws(x) for x in s[2]], [ws(x) for x in s[3]])
        return ("case", we(s[1]), [([we(p) for p in pats], [ws(x) for x in body]) for pats, body in s[2]],
                [ws(x) for x in s[3]])
    items = []
    for it in m["items"]:
        if it[0] == "assign":
            items.append(("assign", it[1], we(it[2])))
        elif it[0] == "comb":
            items.append(("comb", [ws(s) for s in it[1]]))
        else:
            items.append(("ff", None if it[1] is None else [ws(s) for s in it[1]], [ws(s) for s in it[2]]))
    return {"decls": [tuple(d) for d in m["decls"]], "items": items, "order": list(m["order"])}
