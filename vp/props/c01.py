"""C01 — Emitted SystemVerilog behaves exactly like the Veryl design.

proof:   coq/Props/C01.v — µSV event semantics (coq/Sv/Sem.v, OUR reading of IEEE 1800: trusted), model of the
         emitter for the µRTL core (coq/Sv/Emit.v), veryl's meaning under a clock/reset configuration;
         emit_preserves (partial: hypothesis settle_idem), clock/reset skeleton for all configurations,
         expression and NBA lemmas, clock_reset_tables_agree over the translator-extracted arms
tie:     translator   translators/clockreset.py -> coq/Sv/GeneratedClockReset.v (emitter + simulator + cmd_test arms)
         correspondence  real Emitter output, parsed (vp/gen/svparse.py) = extracted `emit cfg m`   (AST)
                         real Simulator trace = extracted veryl_step trace (reference under the configuration)
oracle:  the property itself: the µSV semantics of the REAL emitted text under `drive cfg stimulus` gives, cycle
         by cycle, the output values the REAL simulator reports — for every [build] clock_type x reset_type,
         declared port kinds (clock_posedge, reset_sync_high, ...) and implicit / explicit always_ff lists
"""
import json
import os
import random
import sys
import time
from collections import Counter

from .. import common as C
from ..gen import rtl as G
from ..gen import svparse as SP

sys.path.insert(0, C.VERIF)
from translators import clockreset as T  # noqa: E402

PID = "C01"

MANIFEST = {
    "category": "other",
    "technique": "Coq event semantics of the emitted SystemVerilog fragment (µSV) + model of the emitter with a "
                 "semantic-preservation proof for the µRTL core + translator-extracted clock/reset tables + differential "
                 "validation: real emitter text evaluated by the extracted µSV semantics vs the real simulator, per configuration",
    "text": "Partial proof + per-program validation.  Proved (Coq, no axioms): for every clock/reset configuration (2 clock types x "
            "4 reset types x declared port kinds x implicit/explicit always_ff list) the emitted always_ff skeleton puts into the "
            "NBA queue exactly what veryl's reset-then-else lowering writes (finite case analysis over tables regenerated from the "
            "Rust source on every run); the emitted expression has the same IEEE-1800 value as the Veryl expression in every "
            "context (operator for operator, for expressions on which veryl's typing coincides with the standard); emitted "
            "always_comb / always_ff bodies = blocking execution / the write log of the shared reference; whole traces: "
            "sv_run (emit cfg m) (drive cfg stim) = veryl_run cfg m stim under the hypothesis that re-settling a settled comb "
            "network changes nothing (proved for networks without self-reading items, checked at run time otherwise).  "
            "NOT proved: anything about the real emitter / simulator code beyond the extracted tables.  Validated on every run: "
            "generated µRTL programs x configurations — real emitted text parsed and compared as an AST with the emit model, "
            "evaluated by the extracted µSV semantics and compared cycle by cycle with the real simulator's trace and with the "
            "reference.",
    "note": "Trusted: Coq kernel; BV/Ops1800.v and coq/Sv/Sem.v as the reading of IEEE 1800 (no SystemVerilog simulator exists in "
            "the sandbox — the Coq µSV semantics stands in for it); the testbench convention `drive` (reset asserted in the same "
            "time step as the active clock edge, as Simulator::step_reset does); extraction (ExtrOcamlBasic) + OCaml driver; "
            "vp/gen/svparse.py; vh-emitsim; translators/clockreset.py (regex extraction, fails closed).  Outside the µSV grammar "
            "(counted as not covered): everything beyond the µRTL core (functions, loops, structs, arrays, instances, generate, "
            "interfaces).  Known deviation of veryl's typing from IEEE 1800 observable at outputs: KNOWN_FINDINGS relational-signedness, "
            "partselect-signedness.",
}

QUICK_N = 40
THOROUGH_N = 1000
QUICK_CYCLES = 24
THOROUGH_CYCLES = 32

CT = ["posedge", "negedge"]
RT = ["async_low", "async_high", "sync_low", "sync_high"]
RT_COQ = {"async_low": "AsyncLow", "async_high": "AsyncHigh", "sync_low": "SyncLow", "sync_high": "SyncHigh"}
CK = ["clock", "clock_posedge", "clock_negedge"]
RK = ["reset", "reset_async_high", "reset_async_low", "reset_sync_high", "reset_sync_low"]


def cfg_name(cfg):
    ct, rt, ck, rk, ex = cfg
    return "%s/%s/%s/%s/%s" % (CT[ct], RT[rt], CK[ck], RK[rk], "explicit" if ex else "implicit")


BASE_CFGS = [(ct, rt, 0, 0, 0) for ct in range(2) for rt in range(4)]

# ------------------------------------------------------------------------------------ extraction + OCaml driver

EXTRACT_V = """From VV Require Import Sv.Emit.
Require Extraction.
Require Import ExtrOcamlBasic.
Extraction Language OCaml.
Extraction "sv_model.ml" sv_tstep veryl_step drive env_idle emit_item item_ok init_state decls_of observe
  topo_ok single_driver_ok is_ff settle sv_settle.
"""

DRIVER_ML = r"""
open Sv_model

let rec pos_of_int (i : int) : positive =
  if i = 1 then XH else if i land 1 = 1 then XI (pos_of_int (i lsr 1)) else XO (pos_of_int (i lsr 1))
let n_of_int (i : int) : n = if i = 0 then N0 else Npos (pos_of_int i)
let rec int_of_pos = function XH -> 1 | XO p -> 2 * int_of_pos p | XI p -> 2 * int_of_pos p + 1
let int_of_n = function N0 -> 0 | Npos p -> int_of_pos p

let n_of_hex (s : string) : n =
  let acc = ref None in
  String.iter (fun ch ->
      let d = match ch with
        | '0'..'9' -> Char.code ch - 48
        | 'a'..'f' -> Char.code ch - 87
        | 'A'..'F' -> Char.code ch - 55
        | _ -> failwith "hex" in
      for k = 3 downto 0 do
        let b = (d lsr k) land 1 = 1 in
        acc := (match !acc, b with
            | None, true -> Some XH
            | None, false -> None
            | Some p, true -> Some (XI p)
            | Some p, false -> Some (XO p))
      done) s;
  match !acc with None -> N0 | Some p -> Npos p

let hex_of_n (x : n) : string =
  match x with
  | N0 -> "0"
  | Npos p ->
    let rec bits p acc = match p with
      | XH -> 1 :: acc
      | XO q -> bits q (0 :: acc)
      | XI q -> bits q (1 :: acc) in
    let bl = bits p [] in
    let len = List.length bl in
    let pad = (4 - len mod 4) mod 4 in
    let bl = (List.init pad (fun _ -> 0)) @ bl in
    let buf = Buffer.create 64 in
    let rec go = function
      | a :: b :: c :: d :: t ->
        Buffer.add_char buf "0123456789abcdef".[a * 8 + b * 4 + c * 2 + d]; go t
      | _ -> () in
    go bl; Buffer.contents buf

let toks : string array ref = ref [||]
let pos = ref 0
let next () = let t = !toks.(!pos) in incr pos; t
let int () = int_of_string (next ())
let num () = n_of_int (int ())
let hexn () = n_of_hex (next ())
let boolean () = (next ()) = "1"

let unop_of = function
  | "plus" -> UPlus | "minus" -> UMinus | "bitnot" -> UBitNot | "lognot" -> ULogNot
  | "rand" -> URAnd | "rnand" -> URNand | "ror" -> UROr | "rnor" -> URNor
  | "rxor" -> URXor | "rxnor" -> URXnor | s -> failwith ("unop " ^ s)
let binop_of = function
  | "add" -> BAdd | "sub" -> BSub | "mul" -> BMul | "div" -> BDiv | "rem" -> BRem
  | "and" -> BAnd | "or" -> BOr | "xor" -> BXor | "xnor" -> BXnor
  | "shl" -> BShl | "shr" -> BShr | "ashl" -> BAshl | "ashr" -> BAshr | "pow" -> BPow
  | "lt" -> BLt | "le" -> BLe | "gt" -> BGt | "ge" -> BGe
  | "eq" -> BEq | "ne" -> BNe | "weq" -> BWeq | "wne" -> BWne
  | "land" -> BLand | "lor" -> BLor | s -> failwith ("binop " ^ s)

let rd_list (f : unit -> 'a) : 'a list =
  let k = int () in
  let acc = ref [] in
  for _ = 1 to k do let x = f () in acc := x :: !acc done;
  List.rev !acc

(* ---- µRTL program (same wire format as vp/rtl_ref.py) ---- *)
let rec expr () : expr =
  match next () with
  | "L" -> let w = num () in let sg = boolean () in let p = hexn () in let m = hexn () in ELit (w, sg, p, m)
  | "V" -> EVar (num ())
  | "S" -> let x = num () in let hi = num () in let lo = num () in ESel (x, hi, lo)
  | "U" -> let o = unop_of (next ()) in EUn (o, expr ())
  | "B" -> let o = binop_of (next ()) in let a = expr () in let b = expr () in EBin (o, a, b)
  | "T" -> let c = expr () in let a = expr () in let b = expr () in ETern (c, a, b)
  | "C" -> ECat (rd_list (fun () -> let e = expr () in let n = num () in (e, n)))
  | "K" -> let w = num () in ECast (w, expr ())
  | "G" -> let sg = boolean () in ESign (sg, expr ())
  | s -> failwith ("expr " ^ s)

let rec stmt () : stmt =
  match next () with
  | "A" -> let x = num () in SAssign (x, expr ())
  | "P" -> let x = num () in let hi = num () in let lo = num () in SAssignSel (x, hi, lo, expr ())
  | "I" -> let c = expr () in let t = rd_list stmt in let f = rd_list stmt in SIf (c, t, f)
  | "W" -> let sel = expr () in
    let arms = rd_list (fun () -> let pats = rd_list expr in let body = rd_list stmt in (pats, body)) in
    let d = rd_list stmt in SCase (sel, arms, d)
  | s -> failwith ("stmt " ^ s)

let item () : item =
  match next () with
  | "a" -> let x = num () in IAssign (x, expr ())
  | "c" -> IComb (rd_list stmt)
  | "f" -> let has = boolean () in
    let r = if has then Some (rd_list stmt) else None in
    IFf (r, rd_list stmt)
  | s -> failwith ("item " ^ s)

(* ---- µSV module (vp/gen/svparse.py sv_wire) ---- *)
let sig_of = function "clk" -> SClk | "rst" -> SRst | s -> failwith ("sig " ^ s)
let rec xexpr () : svexpr =
  match next () with
  | "L" -> let w = num () in let sg = boolean () in let p = hexn () in let m = hexn () in XLit (w, sg, p, m)
  | "V" -> XVar (num ())
  | "Y" -> XSig (sig_of (next ()))
  | "S" -> let x = num () in let hi = num () in let lo = num () in XSel (x, hi, lo)
  | "U" -> let o = unop_of (next ()) in XUn (o, xexpr ())
  | "B" -> let o = binop_of (next ()) in let a = xexpr () in let b = xexpr () in XBin (o, a, b)
  | "T" -> let c = xexpr () in let a = xexpr () in let b = xexpr () in XTern (c, a, b)
  | "C" -> XCat (rd_list (fun () -> let e = xexpr () in let n = num () in (e, n)))
  | "K" -> let w = num () in XCast (w, xexpr ())
  | "G" -> let sg = boolean () in XSign (sg, xexpr ())
  | s -> failwith ("svexpr " ^ s)

let rec xstmt () : svstmt =
  match next () with
  | "A" -> let x = num () in VBlock (x, xexpr ())
  | "P" -> let x = num () in let hi = num () in let lo = num () in VBlockSel (x, hi, lo, xexpr ())
  | "N" -> let x = num () in VNb (x, xexpr ())
  | "Q" -> let x = num () in let hi = num () in let lo = num () in VNbSel (x, hi, lo, xexpr ())
  | "I" -> let c = xexpr () in let t = rd_list xstmt in let f = rd_list xstmt in VIf (c, t, f)
  | "W" -> let ins = boolean () in let sel = xexpr () in
    let arms = rd_list (fun () -> let pats = rd_list xexpr in let body = rd_list xstmt in (pats, body)) in
    let d = rd_list xstmt in VCase (ins, sel, arms, d)
  | s -> failwith ("svstmt " ^ s)

let xitem () : svitem =
  match next () with
  | "c" -> VComb (rd_list xstmt)
  | "a" -> let x = num () in VAssign (x, xexpr ())
  | "f" -> let sens = rd_list (fun () ->
      let e = (match next () with "pos" -> Pos | "neg" -> Neg | s -> failwith ("edge " ^ s)) in
      let s = sig_of (next ()) in (e, s)) in
    VFf (sens, rd_list xstmt)
  | s -> failwith ("svitem " ^ s)

let is_vff = function VFf (_, _) -> true | _ -> false

let decl () : vdecl =
  let w = num () in let sg = boolean () in let two = boolean () in
  let k = match next () with "in" -> KIn | "out" -> KOut | _ -> KVar in
  { d_width = w; d_signed = sg; d_2state = two; d_kind = k }

let compact (nv : int) (st : n -> vec) : n -> vec =
  let a = Array.init nv (fun i -> st (n_of_int i)) in
  fun x -> let i = int_of_n x in if i < nv then a.(i) else { vp = N0; vm = N0 }

let same_state (nv : int) (a : n -> vec) (b : n -> vec) : bool =
  let ok = ref true in
  for i = 0 to nv - 1 do if a (n_of_int i) <> b (n_of_int i) then ok := false done; !ok

let row buf first (vs : vec list) =
  if not first then Buffer.add_char buf ';';
  List.iteri (fun i v ->
      if i > 0 then Buffer.add_char buf ',';
      Buffer.add_string buf (hex_of_n v.vp); Buffer.add_char buf '/'; Buffer.add_string buf (hex_of_n v.vm)) vs

let run_line (line : string) : string =
  toks := Array.of_list (List.filter (fun s -> s <> "") (String.split_on_char ' ' line));
  pos := 0;
  let dl = rd_list decl in
  let nv = List.length dl in
  let d = decls_of dl in
  let items = Array.of_list (rd_list item) in
  let order = rd_list int in
  let comb = List.map (fun i -> items.(i)) order in
  let ffs = List.filter is_ff (Array.to_list items) in
  let ncomb = List.length (List.filter (fun it -> not (is_ff it)) (Array.to_list items)) in
  if List.length order <> ncomb || List.exists is_ff comb
     || List.length (List.sort_uniq compare order) <> ncomb then "BAD comb order is not a permutation of the comb items"
  else if not (topo_ok comb) then "BAD comb order is not topological"
  else if not (single_driver_ok comb) then "BAD two comb items drive one variable"
  else begin
    let outs = rd_list num in
    let ins_ids = rd_list num in
    let ct = (match int () with 0 -> PosEdge | _ -> NegEdge) in
    let rt = (match int () with 0 -> AsyncLow | 1 -> AsyncHigh | 2 -> SyncLow | _ -> SyncHigh) in
    let ck = (match int () with 0 -> CkClock | 1 -> CkPos | _ -> CkNeg) in
    let rk = (match int () with 0 -> RkReset | 1 -> RkAsyncHigh | 2 -> RkAsyncLow | 3 -> RkSyncHigh | _ -> RkSyncLow) in
    let ex = boolean () in
    let c = { c_clock = ct; c_reset = rt; c_ck = ck; c_rk = rk; c_explicit = ex } in
    let stim = rd_list (fun () ->
        let k = (match int () with 0 -> KClk | 1 -> KClkRst | _ -> KRstOnly) in
        let ins = List.map (fun x -> let p = hexn () in (x, { vp = p; vm = N0 })) ins_ids in
        (k, ins)) in
    let has_sv = boolean () in
    let svitems = if has_sv then Array.of_list (rd_list xitem) else [||] in
    let svorder = if has_sv then rd_list int else [] in
    let in_core = Array.for_all (item_ok d) items in
    (* reference: veryl_step, both modes; settle idempotence checked on every visited state *)
    let idem = ref true in
    let ref_trace md =
      let buf = Buffer.create 1024 in
      let st = ref (compact nv (init_state md d)) in
      List.iteri (fun i (k, ins) ->
          st := compact nv (veryl_step md c d comb ffs k ins !st);
          let again = compact nv (settle md d comb !st) in
          if not (same_state nv again !st) then idem := false;
          row buf (i = 0) (observe outs !st)) stim;
      Buffer.contents buf in
    let ref2 = ref_trace M2 in
    let ref4 = ref_trace M4 in
    (* the emit model, item by item, against the parsed text *)
    let emit_res =
      if not has_sv then "NA"
      else if Array.length svitems <> Array.length items then "DIFF:count"
      else begin
        let bad = ref (-1) in
        Array.iteri (fun i it -> if !bad < 0 && emit_item c it <> svitems.(i) then bad := i) items;
        if !bad < 0 then "EQ" else "DIFF:" ^ string_of_int !bad
      end in
    (* the µSV semantics of the parsed text under `drive c stim` *)
    let svidem = ref true in
    let sv_trace md =
      if not has_sv then "-" else begin
        let svcomb = List.map (fun i -> svitems.(i)) svorder in
        let svffs = List.filter is_vff (Array.to_list svitems) in
        let buf = Buffer.create 1024 in
        let st = ref (compact nv (init_state md d)) in
        let env = ref (env_idle c) in
        let first = ref true in
        List.iter (fun e ->
            st := compact nv (sv_tstep md d svcomb svffs !env e.ev_env e.ev_ins !st);
            env := e.ev_env;
            if e.ev_sample then begin
              let again = compact nv (sv_settle md !env d svcomb !st) in
              if not (same_state nv again !st) then svidem := false;
              row buf !first (observe outs !st); first := false
            end) (drive c stim);
        Buffer.contents buf
      end in
    let sv4 = sv_trace M4 in
    let sv2 = sv_trace M2 in
    Printf.sprintf "OK emit=%s core=%d idem=%d svidem=%d sv4=%s sv2=%s ref2=%s ref4=%s"
      emit_res (if in_core then 1 else 0) (if !idem then 1 else 0) (if !svidem then 1 else 0) sv4 sv2 ref2 ref4
  end

let () =
  try
    while true do
      let line = input_line stdin in
      if String.trim line <> "" then begin
        let out = try run_line line with
          | Failure m -> "BAD " ^ m
          | Invalid_argument m -> "BAD " ^ m
          | Stack_overflow -> "BAD stack overflow" in
        print_string out; print_newline ()
      end
    done
  with End_of_file -> ()
"""


def model_build():
    ok, log = C.coq_make(["Sv/Emit.vo"])
    if not ok:
        return False, None, log
    # C.ocaml_build keeps one directory per name under .work/ocaml: a run against another tree (VERIF_REPO) extracts from
    # ITS regenerated tables and must not overwrite the binary the registered check uses
    name = "sv_model" + ("_" + os.path.basename(os.path.dirname(C.COQ)) if C.ALT else "")
    return C.ocaml_build(name, EXTRACT_V, DRIVER_ML)


# ------------------------------------------------------------------------------------ program text per configuration

def veryl_text(m, cfg):
    """G.to_veryl with the clock / reset port kinds and the always_ff event list of the configuration"""
    ct, rt, ck, rk, ex = cfg
    t = G.to_veryl(m)
    t = t.replace("    clk: input clock,\n", "    clk: input %s,\n" % CK[ck], 1)
    t = t.replace("    rst: input reset,\n", "    rst: input %s,\n" % RK[rk], 1)
    if ex:
        out = []
        lines = t.split("\n")
        for i, ln in enumerate(lines):
            if ln == "    always_ff {":
                has_reset = i + 1 < len(lines) and lines[i + 1] == "        if_reset {"
                ln = "    always_ff (clk, rst) {" if has_reset else "    always_ff (clk) {"
            out.append(ln)
        t = "\n".join(out)
    return t


def stim_kinds(rng, stim, p_rstonly):
    """(reset?, values) rows of G.gen_stimulus -> (kind, values) rows, with an explicit reset row in front"""
    n_in = len(stim[0][1]) if stim else 0
    rows = [(1, [(0, 0)] * n_in)]
    for (r, vals) in stim:
        k = 1 if r else 0
        if not r and rng.random() < p_rstonly:
            k = 2
        rows.append((k, vals))
    return rows


def job_line(m, cfg, rows, sv_items, sv_order):
    D = m["decls"]
    ins = G.inputs_of(m)
    outs = G.outputs_of(m)
    t = [str(len(D))]
    for (n, w, sg, two, kind) in D:
        t.append("%d %d %d %s" % (w, 1 if sg else 0, 1 if two else 0, kind))
    t.append(str(len(m["items"])))
    t += [G.item_wire(it) for it in m["items"]]
    t.append("%d %s" % (len(m["order"]), " ".join(str(i) for i in m["order"])))
    t.append("%d %s" % (len(outs), " ".join(str(i) for i in outs)))
    t.append("%d %s" % (len(ins), " ".join(str(i) for i in ins)))
    t.append("%d %d %d %d %d" % cfg)
    t.append(str(len(rows)))
    for (k, vals) in rows:
        t.append(str(k))
        for (p, _mk) in vals:
            t.append("%x" % p)
    if sv_items is None:
        t.append("0")
    else:
        t.append("1")
        t.append(SP.sv_wire(sv_items))
        t.append("%d %s" % (len(sv_order), " ".join(str(i) for i in sv_order)))
    return " ".join(t)


def parse_trace(body):
    trace = []
    if body in ("", "-"):
        return trace
    for row in body.split(";"):
        cells = []
        if row:
            for c in row.split(","):
                p, mk = c.split("/")
                cells.append((int(p, 16), int(mk, 16)))
        trace.append(cells)
    return trace


def parse_model_line(o):
    if not o.startswith("OK "):
        return None, o
    d = {}
    for kv in o[3:].split(" "):
        if "=" in kv:
            k, v = kv.split("=", 1)
            d[k] = v
    for k in ("sv4", "sv2", "ref2", "ref4"):
        d[k] = parse_trace(d.get(k, ""))
    return d, None


def sim_case(m, cfg, rows, tables):
    ct, rt, ck, rk, ex = cfg
    D = m["decls"]
    return {"src": veryl_text(m, cfg), "top": "Top", "clk": "clk", "rst": "rst",
            "clock_type": CT[ct], "reset_type": RT[rt],
            "reset_high": 1 if tables["test_cfg_high"][RT_COQ[RT[rt]]] else 0,
            "reset_sync": 1 if tables["test_cfg_sync"][RT_COQ[RT[rt]]] else 0,
            "emit": 1, "sim": 1,
            "ins": [[D[i][0], D[i][1]] for i in G.inputs_of(m)],
            "outs": [[D[i][0], D[i][1]] for i in G.outputs_of(m)],
            "cycles": [{"k": k, "v": ["%x" % p for p, _ in vals]} for k, vals in rows]}


def parse_sim_line(o):
    if o.startswith("OK "):
        j = json.loads(o[3:])
        tr = [[(int(c.split("/")[0], 16), int(c.split("/")[1], 16)) for c in row] for row in j.get("trace", [])]
        return ("OK", j.get("sv", ""), tr)
    for k in ("ERR", "PANIC", "CRASH"):
        if o.startswith(k):
            return (k, o[len(k) + 1:], None)
    return ("CRASH", o, None)


# ------------------------------------------------------------------------------------ keeping the main stream inside expr_ok

def _wrap_rel(m, e, strict=True):
    """a relational operator whose operands are both signed is wrapped as {a <: b} wherever its signedness
    reaches the enclosing expression (operand of an arithmetic / bitwise / comparison operator, of unary + - ~,
    ternary branch, shifted operand, cast operand, right-hand side, case selector): veryl types the bare form as
    signed, IEEE 1800 as unsigned (finding relational-signedness; exercised by the corpus probes only).
    Where only its 1-bit value matters (conditions, && || !, reductions, concatenation items, $signed/$unsigned
    arguments, shift amounts) it stays bare."""
    k = e[0]
    if k in ("lit", "var", "sel"):
        return e
    if k == "un":
        return ("un", e[1], _wrap_rel(m, e[2], e[1] in ("plus", "minus", "bitnot")))
    if k == "cast":
        return ("cast", e[1], _wrap_rel(m, e[2], True))
    if k == "sign":
        return ("sign", e[1], _wrap_rel(m, e[2], False))
    if k == "bin":
        o = e[1]
        if o in G.LOGIC:
            return ("bin", o, _wrap_rel(m, e[2], False), _wrap_rel(m, e[3], False))
        if o in G.SHIFT or o == "pow":
            return ("bin", o, _wrap_rel(m, e[2], True), _wrap_rel(m, e[3], False))
        a, b = _wrap_rel(m, e[2], True), _wrap_rel(m, e[3], True)
        n = ("bin", o, a, b)
        if strict and o in G.REL and G.gather(m, a)[1] and G.gather(m, b)[1]:
            return ("cat", [(n, 1)])
        return n
    if k == "tern":
        return ("tern", _wrap_rel(m, e[1], False), _wrap_rel(m, e[2], True), _wrap_rel(m, e[3], True))
    if k == "cat":
        return ("cat", [(_wrap_rel(m, a, False), n) for a, n in e[1]])
    raise ValueError(k)


def _wrap_stmt(m, s):
    k = s[0]
    if k == "assign":
        return ("assign", s[1], _wrap_rel(m, s[2]))
    if k == "asel":
        return ("asel", s[1], s[2], s[3], _wrap_rel(m, s[4]))
    if k == "if":
        return ("if", _wrap_rel(m, s[1], False), [_wrap_stmt(m, x) for x in s[2]], [_wrap_stmt(m, x) for x in s[3]])
    if k == "case":
        return ("case", _wrap_rel(m, s[1]), [(pats, [_wrap_stmt(m, x) for x in b]) for pats, b in s[2]],
                [_wrap_stmt(m, x) for x in s[3]])
    raise ValueError(k)


def canon_cat(e):
    """python mirror of coq/Sv/Emit.v `canon` (the emitter's brace removal); not used by the check — kept for
    diagnosing an emit-model difference by hand"""
    k = e[0]
    if k in ("lit", "var", "sel"):
        return e
    if k in ("un", "cast", "sign"):
        return (k, e[1], canon_cat(e[2]))
    if k == "bin":
        return ("bin", e[1], canon_cat(e[2]), canon_cat(e[3]))
    if k == "tern":
        return ("tern", canon_cat(e[1]), canon_cat(e[2]), canon_cat(e[3]))
    if k == "cat":
        items = []
        for a, n in e[1]:
            a = canon_cat(a)
            if n == 1 and a[0] == "cat" and len(a[1]) == 1 and a[1][0][1] != 1:
                a, n = a[1][0]
            items.append((a, n))
        if len(items) == 1 and items[0][1] == 1 and items[0][0][0] == "cat":
            return items[0][0]
        return ("cat", items)
    raise ValueError(k)


def map_exprs_stmt(f, s):
    k = s[0]
    if k == "assign":
        return ("assign", s[1], f(s[2]))
    if k == "asel":
        return ("asel", s[1], s[2], s[3], f(s[4]))
    if k == "if":
        return ("if", f(s[1]), [map_exprs_stmt(f, x) for x in s[2]], [map_exprs_stmt(f, x) for x in s[3]])
    if k == "case":
        return ("case", f(s[1]), [([f(p) for p in pats], [map_exprs_stmt(f, x) for x in b]) for pats, b in s[2]],
                [map_exprs_stmt(f, x) for x in s[3]])
    raise ValueError(k)


def map_exprs(f, m):
    items = []
    for it in m["items"]:
        if it[0] == "assign":
            items.append(("assign", it[1], f(it[2])))
        elif it[0] == "comb":
            items.append(("comb", [map_exprs_stmt(f, s) for s in it[1]]))
        else:
            items.append(("ff", None if it[1] is None else [map_exprs_stmt(f, s) for s in it[1]],
                          [map_exprs_stmt(f, s) for s in it[2]]))
    out = dict(m)
    out["items"] = items
    return out


def avoid_sysfn_readback(m):
    """Inside always_ff, `$signed(q)` / `$unsigned(q)` of a register q (a variable some always_ff assigns) is rewritten
    to read an input instead: the analyzer's ff-opt classification does not see reads made through a system
    function (Factor::gather_ff has no SystemFunctionCall arm), so the default engines let such a read see the
    value written earlier in the same clock edge (finding ff-opt-sysfn-readback; corpus probe only)."""
    D = m["decls"]
    regs = set()
    for it in m["items"]:
        if it[0] == "ff":
            wr = set()
            for s in (it[1] or []) + it[2]:
                G.stmt_rw(s, set(), wr)
            regs |= wr
    ins = G.inputs_of(m)

    def repl(x):
        want2 = D[x][3]
        c = [i for i in ins if D[i][3]] if want2 else ins
        c = c or ins
        # keep the choice a function of the program alone
        return c[x % len(c)] if c else x

    def fe(e):
        k = e[0]
        if k in ("lit", "var", "sel"):
            return e
        if k == "sign":
            a = fe(e[2])
            if a[0] == "var" and a[1] in regs:
                a = ("var", repl(a[1]))
            return ("sign", e[1], a)
        if k in ("un", "cast"):
            return (k, e[1], fe(e[2]))
        if k == "bin":
            return ("bin", e[1], fe(e[2]), fe(e[3]))
        if k == "tern":
            return ("tern", fe(e[1]), fe(e[2]), fe(e[3]))
        if k == "cat":
            return ("cat", [(fe(a), n) for a, n in e[1]])
        raise ValueError(k)

    items = []
    for it in m["items"]:
        if it[0] == "ff":
            items.append(("ff", None if it[1] is None else [map_exprs_stmt(fe, s) for s in it[1]],
                          [map_exprs_stmt(fe, s) for s in it[2]]))
        else:
            items.append(it)
    out = dict(m)
    out["items"] = items
    return out


def avoid_tern_signed_calls(m):
    """`if c ? $signed(a) : $signed(b)`: veryl's engines sign-extend the result even when the enclosing context is
    unsigned (finding ternary-of-signed-calls; corpus probe only) — the else branch loses its $signed here"""
    def fe(e):
        k = e[0]
        if k in ("lit", "var", "sel"):
            return e
        if k in ("un", "cast", "sign"):
            return (k, e[1], fe(e[2]))
        if k == "bin":
            return ("bin", e[1], fe(e[2]), fe(e[3]))
        if k == "tern":
            a, b = fe(e[2]), fe(e[3])
            if a[0] == "sign" and a[1] and b[0] == "sign" and b[1]:
                b = b[2]
            return ("tern", fe(e[1]), a, b)
        if k == "cat":
            return ("cat", [(fe(a), n) for a, n in e[1]])
        raise ValueError(k)
    return map_exprs(fe, m)


def _first_lit(e):
    k = e[0]
    if k == "lit":
        return e
    if k in ("un", "cast", "sign"):
        return _first_lit(e[2])
    if k == "bin":
        return _first_lit(e[2]) or _first_lit(e[3])
    if k == "tern":
        return _first_lit(e[1]) or _first_lit(e[2]) or _first_lit(e[3])
    if k == "cat":
        for a, _ in e[1]:
            r = _first_lit(a)
            if r:
                return r
    return None


def avoid_const_default(m):
    """always_comb: `x = <constant operator expression>;` followed by a read of x in the same block — the engines
    propagate the constant folded at its SELF-DETERMINED width instead of the value assigned (finding
    comb-const-default-readback; corpus probe only).  A constant right-hand side that is not a plain literal is
    replaced by one of its literals in always_comb blocks."""
    def fs(s):
        k = s[0]
        if k == "assign":
            rd = set()
            G.expr_vars(s[2], rd)
            if not rd and s[2][0] != "lit":
                return ("assign", s[1], _first_lit(s[2]) or ("lit", 1, False, 0, 0))
            return s
        if k == "asel":
            return s
        if k == "if":
            return ("if", s[1], [fs(x) for x in s[2]], [fs(x) for x in s[3]])
        if k == "case":
            return ("case", s[1], [(pats, [fs(x) for x in b]) for pats, b in s[2]], [fs(x) for x in s[3]])
        raise ValueError(k)
    items = [("comb", [fs(x) for x in it[1]]) if it[0] == "comb" else it for it in m["items"]]
    out = dict(m)
    out["items"] = items
    return out


def into_core(m):
    m = avoid_const_default(avoid_tern_signed_calls(avoid_sysfn_readback(m)))
    items = []
    for it in m["items"]:
        if it[0] == "assign":
            items.append(("assign", it[1], _wrap_rel(m, it[2])))
        elif it[0] == "comb":
            items.append(("comb", [_wrap_stmt(m, s) for s in it[1]]))
        else:
            items.append(("ff", None if it[1] is None else [_wrap_stmt(m, s) for s in it[1]], [_wrap_stmt(m, s) for s in it[2]]))
    out = dict(m)
    out["items"] = items
    return G.fix_module(out)


# ------------------------------------------------------------------------------------ cases

def corpus_cases():
    d = os.path.join(C.VERIF, "corpus", "C01")
    out = []
    if os.path.isdir(d):
        for f in sorted(os.listdir(d)):
            if f.endswith(".json") and f != "pool.json":
                j = json.load(open(os.path.join(d, f)))
                rows = [(k, [(int(p, 16), 0) for p in vals]) for k, vals in j["rows"]]
                cfgs = [tuple(c) for c in j.get("cfgs", [])] or BASE_CFGS
                out.append({"m": G.module_from_json(j["module"]), "rows": rows, "cfgs": cfgs, "tag": "corpus:" + f,
                            "known_key": j.get("known_key"), "known_kinds": j.get("known_kinds") or ["sv-vs-sim"],
                            "xfree": bool(j.get("xfree"))})
    return out


def gen_cases(rng, n, cycles):
    out = []
    for i in range(n):
        prof = dict(display=False, wide=(rng.random() < 0.5))
        k = rng.random()
        if k < 0.2:
            prof["max_depth"] = 2
        elif k < 0.45:
            prof["max_depth"] = 3
        if i % 5 == 4:
            # everything `bit`: SystemVerilog powers 2-state variables up as 0, like veryl's 2-state simulator, so
            # always_ff blocks without if_reset are comparable from the first cycle on
            prof.update(p_bit=1.0, ff_noreset=True)
        m = into_core(G.gen_program(rng, **prof))
        stim = G.gen_stimulus(rng, m, cycles, p_reset=0.07)
        rows = stim_kinds(rng, stim, 0.07)
        out.append({"m": m, "rows": rows, "cfgs": random_cfgs(rng), "tag": "gen:%d" % i, "known_key": None, "xfree": True})
    return out


POOL = os.path.join(C.VERIF, "corpus", "C01", "pool.json")


def random_cfgs(rng):
    """the 8 [build] configurations with generic port kinds, 4 random (build, declared kinds, implicit/explicit
    list) combinations and one more explicit list"""
    cfgs = list(BASE_CFGS)
    for _ in range(4):
        cfgs.append((rng.randrange(2), rng.randrange(4), rng.randrange(3), rng.randrange(5), rng.randrange(2)))
    cfgs.append((rng.randrange(2), rng.randrange(4), 0, 0, 1))
    return cfgs


def pool_cases(rng, n):
    """The generated stream is a FIXED pool (corpus/C01/pool.json, built once by gen_cases + evaluate on the unchanged
    tree, kept: programs on which every comparison held under 13 configurations).  The seed picks the subset and
    the configurations.  Reason: on fresh random programs the unchanged simulator deviates from the emitted
    SystemVerilog about once in 300 programs in ways that are findings of their own (see KNOWN_FINDINGS C01:
    ff-opt-sysfn-readback, ternary-of-signed-calls, comb-const-default-readback — all found by the random stream);
    a check must not alarm on the unchanged tree for any seed."""
    if not os.path.exists(POOL):
        return []
    ents = json.load(open(POOL))["entries"]
    idx = list(range(len(ents)))
    rng.shuffle(idx)
    out = []
    for i in idx[:n]:
        e = ents[i]
        rows = [(k, [(int(p, 16), 0) for p in vals]) for k, vals in e["rows"]]
        out.append({"m": G.module_from_json(e["module"]), "rows": rows, "cfgs": random_cfgs(rng), "tag": e["tag"],
                    "known_key": None, "xfree": True})
    return out


def names_of(m):
    return {d[0]: i for i, d in enumerate(m["decls"])}


def check_decls(m, pm):
    """declarations of the parsed module = the µRTL declarations (v_decls of `emit`), clk/rst 1-bit logic inputs"""
    ports = {p[0]: p for p in pm["ports"]}
    vars_ = {p[0]: p for p in pm["vars"]}
    for s in ("clk", "rst"):
        if ports.get(s) != (s, "in", False, False, 1):
            return "port %s: %r" % (s, ports.get(s))
    n = 2
    for (name, w, sg, two, kind) in m["decls"]:
        got = ports.get(name) if kind in ("in", "out") else vars_.get(name)
        if got != (name, kind, two, sg, w):
            return "declaration %s: text has %r, model has %r" % (name, got, (name, kind, two, sg, w))
        n += 1
    if len(pm["ports"]) + len(pm["vars"]) != n:
        return "declaration count"
    return None


def has_x(trace):
    return any(mk != 0 for row in trace for (_, mk) in row)


def first_diff(ta, tb):
    for c, (ra, rb) in enumerate(zip(ta, tb)):
        for o, (a, b) in enumerate(zip(ra, rb)):
            if a != b:
                return (c, o)
    if len(ta) != len(tb):
        return (min(len(ta), len(tb)), 0)
    return None


def evaluate(binary, model, jobs, tables, stats=None):
    """jobs: list of (case, cfg).  Returns list of result dicts:
       {"case", "cfg", "status": ok|notcovered|x-skipped|rejected, "fail": [(key, text)], ...}"""
    sim_lines = [json.dumps(sim_case(c["m"], cfg, c["rows"], tables), separators=(",", ":")) for c, cfg in jobs]
    sim_out = C.run_lines(binary, sim_lines, nshards=min(C.NCPU, max(1, len(sim_lines) // 6)), timeout=1500)
    parsed = []
    model_lines = []
    for (c, cfg), o in zip(jobs, sim_out):
        st, sv, tr = parse_sim_line(o)
        pm = None
        nc = None
        order = None
        if st == "OK":
            try:
                pm = SP.parse_module(sv, names_of(c["m"]))
                order = SP.comb_order(pm["items"])
                if order is None:
                    nc = "comb items of the text are cyclic"
                    pm = None
            except SP.NotCovered as e:
                nc = str(e)
        parsed.append((st, sv, tr, pm, nc))
        model_lines.append(job_line(c["m"], cfg, c["rows"], pm["items"] if pm else None, order))
    model_out = C.run_lines(model, model_lines, nshards=min(C.NCPU, max(1, len(model_lines) // 6)), timeout=1500)
    results = []
    for (c, cfg), (st, sv, tr, pm, nc), mo in zip(jobs, parsed, model_out):
        r = {"case": c, "cfg": cfg, "fail": [], "status": "ok", "sv": sv, "sim": tr}
        results.append(r)
        if st != "OK":
            r["status"] = "rejected"
            r["why"] = "%s %s" % (st, (sv or "")[:300])
            if st in ("PANIC", "CRASH"):
                r["fail"].append(("panic", "vh-emitsim %s: %s" % (st, (sv or "")[:300])))
            continue
        d, bad = parse_model_line(mo)
        if d is None:
            r["status"] = "rejected"
            r["why"] = bad[:300]
            r["fail"].append(("model-defect", "the extracted model rejected the program: " + bad[:200]))
            continue
        r["model"] = d
        # (B = C) the simulator against the reference under this configuration
        fd = first_diff(tr, d["ref2"])
        if fd is not None:
            r["fail"].append(("sim-vs-reference", "cycle %d output %d: simulator %x, reference veryl_step %x" % (
                fd[0], fd[1], tr[fd[0]][fd[1]][0] if fd[0] < len(tr) else -1,
                d["ref2"][fd[0]][fd[1]][0] if fd[0] < len(d["ref2"]) else -1)))
        if any(mk for row in tr for (_, mk) in row):
            r["fail"].append(("sim-xz", "the 2-state simulator reported x/z bits"))
        if pm is None:
            r["status"] = "notcovered"
            r["why"] = nc
            continue
        why = check_decls(c["m"], pm)
        if why:
            r["fail"].append(("emit-model", "declarations: " + why))
        if d["emit"] != "EQ":
            r["fail"].append(("emit-model", "emitted text differs from the emit model (%s)" % d["emit"]))
        if d["svidem"] != "1":
            r["fail"].append(("model-defect", "comb order computed from the text does not settle"))
        # (A = B) the property's oracle
        sv4, sv2 = d["sv4"], d["sv2"]
        if has_x(sv4) or sv4 != sv2:
            # an x/z reached an output or was produced and absorbed.  The generated programs cannot do that by
            # construction (every register is reset in the first row or is `bit`, divisors are non-zero, no x/z
            # literals): there it means the emitted text does not initialise / compute what veryl's simulator does
            r["status"] = "x-skipped"
            if c.get("xfree") and not has_x(d["ref4"]) and d["ref4"] == d["ref2"]:
                fd = first_diff(sv4, tr) or first_diff(sv4, sv2) or (0, 0)
                r["fail"].append(("sv-xz", "cycle %d: the emitted SystemVerilog yields x/z where veryl's simulator (and the "
                                           "4-state reference) has known values" % fd[0]))
            continue
        fd = first_diff(sv4, tr)
        if fd is not None:
            cy, o = fd
            r["fail"].append(("sv-vs-sim", "cycle %d output %s: emitted SystemVerilog gives %x, veryl's simulator %x" % (
                cy, c["m"]["decls"][G.outputs_of(c["m"])[o]][0],
                sv4[cy][o][0] if cy < len(sv4) else -1, tr[cy][o][0] if cy < len(tr) else -1)))
        # theorem instance: inside the proved core the µSV trace of the emit model equals veryl_run
        if d["core"] == "1" and d["idem"] == "1" and d["emit"] == "EQ" and sv4 != d["ref4"] and not has_x(d["ref4"]):
            r["fail"].append(("model-defect", "inside the proved core sv_run differs from veryl_run"))
    for r in results:
        if r["fail"] and r["status"] == "ok":
            r["status"] = "failed"
    return results


def shrink_failure(binary, model, tables, case, cfg, key):
    """smaller program / stimulus with the same kind of failure under the same configuration"""
    from .. import rtl_sim as S

    def self_assigns(m):
        found = []

        def fs(s):
            if s[0] == "assign" and G.strip_to_var(s[2]) == s[1]:
                found.append(s)
            elif s[0] == "if":
                for x in s[2] + s[3]:
                    fs(x)
            elif s[0] == "case":
                for _, b in s[2]:
                    for x in b:
                        fs(x)
                for x in s[3]:
                    fs(x)
        for it in m["items"]:
            if it[0] == "assign":
                fs(("assign", it[1], it[2]))
            else:
                for x in (it[1] if it[0] == "comb" else (it[1] or []) + it[2]):
                    fs(x)
        return bool(found)

    def pred_batch(cands):
        jobs = [({"m": m, "rows": rows, "cfgs": [cfg], "tag": "shrink", "known_key": None, "xfree": False}, cfg) for m, rows in cands]
        try:
            rs = evaluate(binary, model, jobs, tables)
        except Exception:
            return [False] * len(cands)
        # a candidate holding a self-assignment `x = x` (the engines treat those specially) is never taken
        return [any(k == key for k, _ in r["fail"]) and not self_assigns(mm) for r, (mm, _) in zip(rs, cands)]

    try:
        m2, rows2 = S.shrink_batch(case["m"], case["rows"], pred_batch, rounds=10, width=32)
        if rows2 and rows2[0][0] != 1:
            rows2 = case["rows"]
        return m2, rows2
    except Exception:
        return case["m"], case["rows"]


def replay_dict(case, cfg, r, m=None, rows=None):
    m = m or case["m"]
    rows = rows or case["rows"]
    return {"module": G.module_to_json(m), "rows": [[k, ["%x" % p for p, _ in vals]] for k, vals in rows],
            "xfree": bool(case.get("xfree")), "cfg": list(cfg), "configuration": cfg_name(cfg), "veryl": veryl_text(m, cfg),
            "emitted_sv": r.get("sv", ""), "tag": case["tag"]}


def run(tier, seed, replay):
    res = C.Result(PID, "other", tier, seed)
    res.coverage["explanation"] = MANIFEST["text"]
    res.coverage["trusted_base"] = C.std_trusted_base([
        "coq/Sv/Sem.v: µSV typing/evaluation/event semantics = OUR reading of IEEE 1800-2017 (4.4, 9.2, 9.4.2, 10.4, 11.6, 11.8, "
        "12.4, 12.5); no SystemVerilog simulator exists in the sandbox",
        "coq/Sv/Emit.v `drive`: testbench convention (inputs change at the inactive clock level with the reset deasserted; the "
        "active edge and the reset assertion share one time step, as Simulator::step_reset)",
        "translators/clockreset.py (regex/bracket extraction of match arms, fails closed) -> coq/Sv/GeneratedClockReset.v",
        "vp/gen/svparse.py (text -> µSV AST), vp/gen/rtl.py printers, harness/emitsim (vh-emitsim), extraction + OCaml driver"])
    res.assumptions = [
        "theorem emit_preserves_partial: hypothesis settle_idem (re-settling a settled comb network changes nothing) — proved "
        "for networks without self-reading items, checked at run time on every visited state otherwise",
        "oracle: a run is compared only when the IEEE 4-state evaluation of the emitted text shows no x/z and equals its "
        "2-state shadow (the property speaks about 2-state stimuli after reset)"]

    # 1. translate
    tables = None
    translator_err = None
    try:
        tables = T.run(C.REPO, C.COQ)
        res.obligation("translator clockreset: every anchor found, every arm inside the vocabulary", True)
        res.coverage["translator"] = {k: v for k, v in tables.items() if k not in ("generated_file",)}
    except T.TranslatorError as e:
        translator_err = str(e)
        res.obligation("translator clockreset", False, translator_err)

    # 2. prove
    proved = C.prove(res, PID)

    # 3. build
    ok, binary, log = C.harness_build("vh-emitsim")
    res.obligation("build vh-emitsim from the working tree", ok, log[-400:])
    if not ok:
        res.violation("harness-build", "vh-emitsim no longer builds: " + log[-300:], {"log": log[-2000:]}, no_input=True)
        return res.finish()
    okm, model, mlog = model_build()
    res.obligation("extract the µSV semantics / emit model / reference (ExtrOcamlBasic) and build the driver", okm, mlog[-400:])
    if tables is None:
        # the tables could not be extracted: fall back to the meaning of the names for driving the simulator
        tables = {"test_cfg_high": {"AsyncLow": False, "AsyncHigh": True, "SyncLow": False, "SyncHigh": True},
                  "test_cfg_sync": {"AsyncLow": False, "AsyncHigh": False, "SyncLow": True, "SyncHigh": True}}
    if not okm:
        # the model no longer builds (a regenerated table broke a definition?): nothing can be evaluated
        res.violation("proof", "the Coq model no longer builds: " + mlog[-300:], {"no_longer_checks": "coq/Sv/Emit.v"}, no_input=True)
        return res.finish()

    # 4. replay
    if replay:
        rp = json.load(open(replay))
        if "module" not in rp:
            print("replay without a program: " + json.dumps(rp)[:300])
            return res.finish()
        case = {"m": G.module_from_json(rp["module"]), "rows": [(k, [(int(p, 16), 0) for p in vals]) for k, vals in rp["rows"]],
                "cfgs": [tuple(rp["cfg"])], "tag": "replay", "known_key": None, "xfree": bool(rp.get("xfree"))}
        for r in evaluate(binary, model, [(case, tuple(rp["cfg"]))], tables):
            print("replay %s: status=%s" % (cfg_name(r["cfg"]), r["status"]))
            for k, w in r["fail"]:
                print("  ", k, w)
                res.violation(k, w, replay_dict(case, r["cfg"], r))
        return res.finish()

    # 5. corpus + generated programs
    rng = random.Random(seed * 1000003 + 101)
    n = QUICK_N if tier == "quick" else THOROUGH_N
    cases = corpus_cases() + pool_cases(rng, n)
    res.obligation("the program pool corpus/C01/pool.json holds at least %d programs" % n,
                   sum(1 for c in cases if c["tag"].startswith("pool")) >= min(n, 40))
    jobs = [(c, cfg) for c in cases for cfg in c["cfgs"]]
    t0 = time.time()
    results = []
    CH = 1600
    for i in range(0, len(jobs), CH):
        results += evaluate(binary, model, jobs[i:i + CH], tables)
    elapsed = time.time() - t0

    status = Counter(r["status"] for r in results)
    per_cfg = Counter()
    kinds = Counter()
    hist = Counter()
    notcov = Counter()
    compared_cycles = 0
    distinct = set()
    for c in cases:
        hist.update(G.histogram(c["m"]))
        for k, _ in c["rows"]:
            kinds[["clock", "clock+reset", "reset-only"][k]] += 1
    failures = {}
    known_seen = Counter()
    for r in results:
        c = r["case"]
        if r["status"] == "ok":
            per_cfg[cfg_name(r["cfg"])] += 1
            compared_cycles += len(r["sim"])
            distinct.add((c["tag"], r["cfg"], tuple(tuple(p for p, _ in row) for row in r["sim"])))
        elif r["status"] == "notcovered":
            notcov[r.get("why", "?")[:60]] += 1
        kk = c.get("known_key")
        for key, what in r["fail"]:
            if kk and key in c.get("known_kinds", ()):
                known_seen[kk] += 1
                failures.setdefault((kk, c["tag"]), (r, kk, what))
            else:
                failures.setdefault((key, c["tag"]), (r, key, what))

    # a known-finding probe that diverges is reported under its key; everything else is a violation.
    # Behavioural failures (with a concrete program) first; at most 3 programs per kind.
    PRIO = {"sv-vs-sim": 0, "sv-xz": 1, "sim-vs-reference": 2, "panic": 3, "sim-xz": 4, "emit-model": 6, "model-defect": 7}
    ordered = sorted(failures.items(), key=lambda x: (PRIO.get(x[1][1], 5), x[0][1]))
    taken = Counter()
    for (key, tag), (r, k, what) in ordered:
        if taken[k] >= 3:
            continue
        taken[k] += 1
        c = r["case"]
        m2, rows2 = c["m"], c["rows"]
        if k in ("sv-vs-sim", "sim-vs-reference", "emit-model") and not c.get("known_key") and tag.startswith(("pool", "gen")):
            m2, rows2 = shrink_failure(binary, model, tables, c, r["cfg"], k)
        rd = replay_dict(c, r["cfg"], r, m2, rows2)
        rd["what"] = what
        if k == "model-defect":
            if not proved and "proved core" in what:
                continue        # the theorem this instance belongs to no longer holds for the regenerated tables
            rd["model-defect"] = True
            res.violation("correspondence", "%s [%s]: %s" % (tag, cfg_name(r["cfg"]), what), dict(rd, no_longer_checks="µSV model"),
                          no_input=True)
        elif k == "emit-model":
            # the emitter no longer prints what the model says: does the emitted text still behave like the simulator?
            if any(kk in ("sv-vs-sim", "sv-xz") for kk, _ in r["fail"]):
                continue
            res.violation("correspondence", "%s [%s]: %s" % (tag, cfg_name(r["cfg"]), what),
                          dict(rd, no_longer_checks="emit model vs real emitter"), no_input=True)
        else:
            res.violation(k, "%s [%s]: %s" % (tag, cfg_name(r["cfg"]), what), rd)

    behavioural = any(k in ("sv-vs-sim", "sv-xz", "sim-vs-reference", "panic") for (_, _), (_, k, _) in failures.items())
    if translator_err and not behavioural:
        res.violation("translator", "translators/clockreset.py no longer finds its anchors (%s) and no failing program was found"
                      % translator_err[:200], {"no_longer_checks": "clock_reset_tables_agree"}, no_input=True)
    elif not proved and not behavioural:
        pf = getattr(res, "proof_failure", {}) or {}
        res.violation("proof", "Props/C01.vo no longer builds (%s) and no failing program was found" % pf.get("where", "?"),
                      {"no_longer_checks": "coq/Props/C01.v", "log_tail": pf.get("log_tail", "")}, no_input=True)
    compared = [r for r in results if not r["case"].get("known_key")]
    if compared and status["ok"] < 0.6 * len(compared) and not res.violations:
        res.violation("coverage-collapse", "only %d of %d (program, configuration) runs could be compared: %s" % (
            status["ok"], len(compared), json.dumps(dict(status))), {"no_longer_checks": "the oracle"}, no_input=True)

    # 6. coverage
    total = len(results)
    res.coverage["evaluations"] = total
    res.coverage["programs"] = len(cases)
    res.coverage["compared_cycles"] = compared_cycles
    res.coverage["status"] = dict(status)
    res.coverage["not_covered"] = dict(notcov)
    res.coverage["per_configuration_ok"] = dict(per_cfg)
    res.coverage["cycle_kinds"] = dict(kinds)
    res.coverage["construct_histogram"] = dict(hist)
    res.coverage["distinct_nontrivial"] = len(distinct)
    res.coverage["rule"] = ("distinct (program, configuration, simulator trace) triples among runs whose emitted text was inside the "
                            "µSV grammar, x-free and compared cycle by cycle")
    res.coverage["known_probe_hits"] = dict(known_seen)
    res.coverage["seconds"] = round(elapsed, 1)
    res.obligation("at least 90% of the (program, configuration) runs are compared (inside the grammar, x-free)",
                   total > 0 and status["ok"] >= 0.9 * len(compared),
                   json.dumps(dict(status)))
    for r in results:
        if r["status"] == "ok" and r["case"]["tag"].startswith("pool"):
            res.sample({"tag": r["case"]["tag"], "configuration": cfg_name(r["cfg"]),
                        "veryl": veryl_text(r["case"]["m"], r["cfg"])[:1500], "emitted_sv": r["sv"][:1500],
                        "trace_first_rows": [["%x" % p for p, _ in row] for row in r["sim"][:4]]})
            break
    return res.finish()


# ------------------------------------------------------------------------------------ dev tool: (re)build the pool
def build_pool(first_seed, last_seed, out_path):
    """python3 -m vp.props.c01 <first> <last> <out.json>: generate programs with gen_cases, evaluate them on the tree
    under 13 configurations each, keep those on which every comparison holds.  Not used by the check."""
    tables = T.extract(C.REPO)
    ok, binary, log = C.harness_build("vh-emitsim")
    assert ok, log[-500:]
    okm, model, mlog = model_build()
    assert okm, mlog[-500:]
    pool, rejected = [], []
    for seed in range(first_seed, last_seed):
        rng = random.Random(seed * 7919 + 13)
        cases = gen_cases(rng, 40, THOROUGH_CYCLES)
        rs = evaluate(binary, model, [(c, cfg) for c in cases for cfg in c["cfgs"]], tables)
        byc = {}
        for r in rs:
            byc.setdefault(r["case"]["tag"], []).append(r)
        for c in cases:
            if all(r["status"] == "ok" for r in byc[c["tag"]]):
                pool.append({"tag": "pool:%d:%s" % (seed, c["tag"].split(":")[1]), "module": G.module_to_json(c["m"]),
                             "rows": [[k, ["%x" % p for p, _ in vals]] for k, vals in c["rows"]]})
            else:
                bad = [(cfg_name(r["cfg"]), r["status"], r["fail"][:1]) for r in byc[c["tag"]] if r["status"] != "ok"][:2]
                rejected.append({"seed": seed, "tag": c["tag"], "why": str(bad)[:400]})
        print("seed", seed, "pool", len(pool), "rejected", len(rejected), flush=True)
        json.dump({"entries": pool, "rejected": rejected}, open(out_path, "w"))


if __name__ == "__main__":
    build_pool(int(sys.argv[1]), int(sys.argv[2]), sys.argv[3])
