"""C07 — Language-server diagnostics depend only on the current buffers.

proof:   coq/Props/C07.v  (refinement of the buffer-only specification by induction on the history, for every
         classification of tables satisfying the discipline; instantiated with the lists regenerated from the
         Rust source; converse witness schema)
tie:     translator translators/dropped_tables.py -> coq/Ls/GeneratedTables.v (dropped / written / drained
         tables, shape of on_change / background_analyze), inclusion decided by vm_compute
oracle:  the property itself on the real `veryl-ls` over LSP/stdio: a generated history is applied to server A;
         after quiescence every open buffer is re-sent and the published diagnostics, workspace symbols and
         references are compared with those of a freshly started server on the same final buffers/disk
         (with the language-server fragment cache warm and cold).
"""
import json
import os
import random
import re
import shutil
import sys
import time
from concurrent.futures import ThreadPoolExecutor

from .. import common as C
from ..gen import lshist as G
from ..gen import lsrun as R

sys.path.insert(0, C.VERIF)
from translators import dropped_tables as T  # noqa: E402

PID = "C07"

MANIFEST = {
    "category": "other",
    "technique": "Coq refinement proof over a table-level model of the analyzer state + translator-regenerated table "
                 "lists + end-to-end differential oracle on the real veryl-ls (history vs fresh server)",
    "text": "Theorem ls_refines_spec_all_histories (EVERY history of open/change/save/close/rename/delete, induction, no side "
            "condition for a server that handles didClose and forgets removed buffers - both flags extracted from the source): "
            "if every table that re-analysis writes and a diagnostic can read is cleared by Analyzer::drop_file or drained by "
            "analyze_post_pass1, the diagnostics published for a buffer are a function of the current texts alone; "
            "the dropped/written/drained lists are regenerated from analyzer.rs, handlers/*.rs, fragment_cache.rs and "
            "server.rs on every run and the inclusion is decided by vm_compute; stale_table_witness gives the 2-edit "
            "counter-history for a table outside the inclusion. The real server is driven over LSP with generated "
            "histories (syntax break/repair, rename/removal of cross-file declarations, duplicate definitions, type "
            "cycles, doc comments, imports, clock domains, close/reopen with and without saving, rename chains/delete on disk, "
            "a second didOpen in the middle of a background task, fragment cache on/off) and "
            "compared after quiescence with a fresh server on the same buffers: diagnostics, workspace symbols, "
            "references.",
    "note": "partial: the model abstracts tables to per-file fact lists and everything downstream of the tables to one "
            "function; which table can reach a diagnostic is a reviewed list (coq/Ls/TablesReview.v). Not modelled / "
            "not explored: arbitrary interleavings of notifications with a running background task (only didOpen "
            "during the task, shape bgopen; otherwise the driver waits for quiescence), tower-lsp dispatch, dependencies/std "
            "library projects. Six defects were repaired (fix: commits), the remaining known classes are keyed in "
            "KNOWN_FINDINGS.txt (stale scope tree names, duplicate-definition order, generic instances outliving their "
            "template, file-graph WouldCycle panic). Trusted: Coq kernel, the translator's "
            "regexes, the python LSP driver and canonicalisation. No axioms.",
}

QUICK_N = 28
THOROUGH_N = 360
WORKERS = 12
TIMEOUT = 240.0


# --------------------------------------------------------------------------------------- judging

def norm_panic(txt):
    """stable identity of a panic: source file + kind of failure (no line numbers, no ids)"""
    txt = txt or ""
    m = re.search(r"panicked at ([^\s:]+):\d+", txt)
    site = os.path.basename(m.group(1)) if m else "?"
    if "stack overflow" in txt:
        return "stack-overflow"
    if "WouldCycle" in txt:
        kind = "WouldCycle"
    elif "on a `None` value" in txt:
        kind = "unwrap-none"
    elif "on an `Err` value" in txt:
        kind = "unwrap-err"
    elif "assertion" in txt:
        kind = "assert"
    elif "overflow" in txt:
        kind = "overflow"
    elif not m:
        kind = re.sub(r"\W+", "-", txt[:40])
    else:
        kind = "panic"
    return "%s:%s" % (site, kind)


def _names_only_variant(x, y):
    """do two diagnostic lists differ only in the NAME an undefined_identifier / unknown_member at the same range
    reports (and in how often it is repeated)?"""
    NAMED = ("undefined_identifier", "unknown_member")     # the reported name / member is what varies

    def split(ds):
        other = sorted(repr(d) for d in ds if d[5] not in NAMED)
        und = sorted(set(tuple(d[:6]) for d in ds if d[5] in NAMED))
        return other, und
    return split(x or []) == split(y or [])


def stale_scope_variant(a, b):
    """known class `stale-scope:undefined-identifier-names`: every difference is of that kind"""
    ok = False
    for rnd in ("diags1", "diags2"):
        for rel in set(a[rnd]) | set(b[rnd]):
            x, y = a[rnd].get(rel), b[rnd].get(rel)
            if x != y:
                if not _names_only_variant(x, y):
                    return False
                ok = True
    return ok and a.get("symbols") == b.get("symbols")


def only_generic_instances(d):
    """the only difference is a generic-instance symbol (mangled name `__Base__args`) left behind / missing"""
    if len(d) != 1 or d[0][0] != "symbols":
        return False
    names = [re.match(r"\('([^']*)'", x) for x in d[0][2].get("only_history", []) + d[0][2].get("only_fresh", [])]
    return bool(names) and all(m and m.group(1).startswith("__") for m in names)


def judge(res, hist=None):
    """-> list of (key, what, detail) ; [] when the property holds on this case; None when inconclusive"""
    old, fresh = res["old"], res["fresh"]
    cold = res.get("cold")
    out = []
    if not res.get("final_open") and old[0] == "ok":
        return []          # nothing open at the end: nothing is published, a fresh server would not analyse anything
    if "timeout" in (old[0], fresh[0]) or (cold and cold[0] == "timeout"):
        return None
    dup = bool(hist) and G.ever_duplicate(hist)
    # the fragment cache must not matter for a fresh server
    if cold is not None:
        if fresh[0] != cold[0] or (fresh[0] == "ok" and R.diff_obs(fresh[1], cold[1])) or \
                (fresh[0] == "panic" and norm_panic(fresh[1]) != norm_panic(cold[1])):
            d = R.diff_obs(fresh[1], cold[1]) if fresh[0] == cold[0] == "ok" else [(fresh[0], cold[0], {})]
            out.append(("ls-cache:" + classify(d), "a fresh server with a warm cache-ls store and one with a cold "
                        "store disagree on the same buffers", {"diff": d[:4], "warm": fresh[0], "cold": cold[0],
                                                               "warm_panic": fresh[1] if fresh[0] == "panic" else "",
                                                               "cold_panic": cold[1] if cold[0] == "panic" else ""}))
    ref = cold if cold is not None else fresh      # the cold fresh server is the reference when there is one
    if old[0] == "panic" and ref[0] == "panic":
        if norm_panic(old[1]) != norm_panic(ref[1]):
            out.append(("panic-differs:%s/%s" % (norm_panic(old[1]), norm_panic(ref[1])),
                        "both servers panic but at different places", {"history": old[1], "fresh": ref[1]}))
        return out
    if old[0] == "panic":
        out.append(("panic-after-history:" + norm_panic(old[1]), "the server that went through the history panics, a fresh "
                    "server on the same buffers does not: " + old[1][:200], {"history": old[1]}))
        return out
    if ref[0] == "panic":
        out.append(("panic-fresh-only:" + norm_panic(ref[1]), "a fresh server panics on buffers the history server handles: "
                    + ref[1][:200], {"fresh": ref[1]}))
        return out
    d = R.diff_obs(old[1], ref[1])
    if d:
        if dup:
            key = "duplicate-definition-order"
        elif stale_scope_variant(old[1], ref[1]):
            key = "stale-scope:undefined-identifier-names"
        elif only_generic_instances(d):
            key = "stale-generic-instance:symbols"
        else:
            key = classify(d)
        what = "after the history the server differs from a fresh server on the same buffers (%s %s): %s" % (
            d[0][0], d[0][1], json.dumps(d[0][2])[:400])
        out.append((key, what, {"diff": d[:6]}))
    return out


def classify(d):
    """stable key for a difference: aspect + diagnostic codes involved + side"""
    if not d:
        return "none"
    asp, rel, det = d[0]
    if asp.startswith("diags"):
        codes = set()
        side = []
        for k in ("only_history", "only_fresh"):
            for s in det.get(k, []):
                m = re.search(r", '([A-Za-z_:]+)', '(?:Semantic|Syntax)", s)
                codes.add(m.group(1) if m else "?")
            if det.get(k):
                side.append(k.replace("only_", ""))
        return "diag:%s:%s" % ("+".join(sorted(codes)) or "?", "+".join(side))
    return asp


# --------------------------------------------------------------------------------------- running

CLOSE_HANDLED = [False]      # set from the translator (does backend.rs implement did_close?)


def run_one(binary, hist, tag, probe_refs=True):
    wd = os.path.join(C.WORK, "scratch", "c07_%s_%d" % (tag, os.getpid()))
    try:
        res = R.run_case(binary, hist, wd, timeout=TIMEOUT, probe_refs=probe_refs, close_handled=CLOSE_HANDLED[0])
        v = judge(res, hist)
        if v is None:
            # a timeout on a loaded machine: once more, alone
            res = R.run_case(binary, hist, wd, timeout=TIMEOUT * 2, probe_refs=probe_refs, close_handled=CLOSE_HANDLED[0])
            v = judge(res, hist)
            if v is None and res["old"][0] == "timeout" and res["fresh"][0] == "ok":
                # the history server stops answering twice while a fresh one is fine: a liveness difference
                v = [("hang-after-history", "the server that went through the history stops answering (%s); a fresh server "
                      "on the same buffers answers" % res["old"][1], {"history": res["old"][1]})]
        return res, v
    finally:
        shutil.rmtree(wd, ignore_errors=True)


def fails_with(binary, hist, key, tag):
    res, v = run_one(binary, hist, tag)
    return bool(v) and any(k == key for k, _, _ in v)


def ddmin_steps(binary, hist, key, tag, budget=40):
    """delta-debug the list of steps (keeping the failure with the same key), then drop unused initial files"""
    steps = list(hist["steps"])
    n = 2
    runs = 0
    while len(steps) >= 2 and runs < budget:
        chunk = max(1, len(steps) // n)
        reduced = False
        for i in range(0, len(steps), chunk):
            cand = steps[:i] + steps[i + chunk:]
            if not cand:
                continue
            h2 = dict(hist, steps=cand)
            runs += 1
            if fails_with(binary, h2, key, tag + "_dd"):
                steps = cand
                n = max(n - 1, 2)
                reduced = True
                break
            if runs >= budget:
                break
        if not reduced:
            if chunk == 1:
                break
            n = min(len(steps), n * 2)
    hist = dict(hist, steps=steps)
    # try without the fragment cache
    if hist.get("incremental") and runs < budget + 4:
        h2 = dict(hist, incremental=False)
        if fails_with(binary, h2, key, tag + "_dd"):
            hist = h2
    # drop files that no step mentions
    for f in sorted(hist["files"]):
        if len(hist["files"]) <= 1:
            break
        if any(f in st[1:3] for st in hist["steps"]):
            continue
        h2 = dict(hist, files={k: v for k, v in hist["files"].items() if k != f})
        if fails_with(binary, h2, key, tag + "_dd"):
            hist = h2
    return hist


def corpus_histories():
    d = os.path.join(C.VERIF, "corpus", PID)
    out = []
    if os.path.isdir(d):
        for f in sorted(os.listdir(d)):
            if f.endswith(".json"):
                h = json.load(open(os.path.join(d, f)))
                h["name"] = f
                out.append(h)
    return out


def run(tier, seed, replay):
    res = C.Result(PID, "other", tier, seed)
    res.coverage["trusted_base"] = C.std_trusted_base([
        "model: coq/Ls/LsModel.v (tables as table -> file -> facts; on_change/background/on_remove transcribe server.rs)",
        "translators/dropped_tables.py (regex extraction, fails closed) -> coq/Ls/GeneratedTables.v; reviewed observability "
        "list coq/Ls/TablesReview.v",
        "python LSP client vp/gen/lsclient.py + driver vp/gen/lsrun.py against the veryl-ls binary built from the tree"])
    res.assumptions = [
        "theorem: diagnostics read observable tables only (reads_observable_only); histories close a buffer only when saved "
        "and never rename onto a path the server still holds in document_map (both classes are replayed on the real server)",
        "end-to-end: notifications are sent one at a time, each acknowledged by its publishDiagnostics; background analysis "
        "is awaited ($/progress end + request round trip) before every rename and before comparing"]

    # 1. translate
    try:
        info = T.run(C.REPO, C.COQ)
        res.obligation("translator dropped_tables: anchors found, every table API reviewed", True)
        res.coverage["translator"] = {k: info[k] for k in ("drop_calls", "dropped", "written_pass1", "written_post", "drained",
                                                          "post_calls", "on_change_seq", "background_seq")}
        res.obligation("server.rs on_change/background_analyze have the modelled shape",
                       info["on_change_ok"] and info["background_ok"] and info["serve_post_after_task"] and info["on_remove_drops"],
                       json.dumps({k: info[k] for k in ("on_change_seq", "background_seq")}))
        translator_err = None
        CLOSE_HANDLED[0] = bool(info["did_close_handled"])
    except T.TranslatorError as e:
        translator_err = str(e)
        res.obligation("translator dropped_tables", False, translator_err)

    # 2. prove
    proved = C.prove(res, PID)

    # 3. build
    ok, bins, log = C.cli_build(bins=("veryl", "veryl-ls"))
    res.obligation("build veryl-ls from the working tree", ok, log[-400:])
    if not ok:
        res.violation("ls-build", "veryl-ls no longer builds: " + log[-300:], {"log": log[-2000:]}, no_input=True)
        return res.finish()
    binary = bins["veryl-ls"]

    # 4. replay
    if replay:
        rp = json.load(open(replay))
        hist = rp["history"]
        r, v = run_one(binary, hist, "replay")
        print("replay: old=%s fresh=%s cold=%s" % (r["old"][0], r["fresh"][0], (r.get("cold") or ["-"])[0]))
        for k, w, det in (v or []):
            print("  ", k, w[:300])
            res.violation(k, w, {"history": hist, "detail": det})
        if v is None:
            res.violation("timeout", "replay timed out", {"history": hist}, no_input=True)
        return res.finish()

    # 5. corpus + generated histories
    rng = random.Random(seed * 1000003 + 7)
    n = QUICK_N if tier == "quick" else THOROUGH_N
    cases = [(h.get("name", "corpus"), h) for h in corpus_histories()]
    shapes = ["edit", "rename", "close", "cycle", "dup", "doc", "corpus", "break", "import", "bgopen", "edit", "rename"]
    for i in range(n):
        h = G.gen_history(rng, repo=C.REPO, shape=shapes[i % len(shapes)])
        cases.append(("gen%d" % i, h))

    t0 = time.time()
    results = [None] * len(cases)

    def work(i):
        name, h = cases[i]
        return i, run_one(binary, h, "s%d_%d" % (seed, i))

    with ThreadPoolExecutor(max_workers=WORKERS) as ex:
        for i, rv in ex.map(work, range(len(cases))):
            results[i] = rv
    res.coverage["driver_wall_s"] = round(time.time() - t0, 1)

    inconclusive = 0
    distinct = set()
    found = {}
    for (name, h), (r, v) in zip(cases, results):
        for tg in G.shape_tags(h):
            res.hist("step_kinds", tg)
        res.hist("shape", h.get("shape", "corpus"))
        res.hist("outcome", "%s/%s" % (r["old"][0], r["fresh"][0]))
        res.hist("files", str(len(h["files"])))
        if v is None:
            inconclusive += 1
            continue
        applied = r.get("applied") or 0
        ndiag = 0
        if r["old"][0] == "ok":
            ndiag = sum(len(x) for x in r["old"][1]["diags2"].values())
            res.hist("diagnostics_in_final_state", "0" if ndiag == 0 else ("1-3" if ndiag <= 3 else "4+"))
        if applied >= 3 and len(r.get("open") or []) >= 1:
            distinct.add(json.dumps(h["steps"], sort_keys=True))
        if len(res.coverage["samples"]) < 3:
            res.sample({"name": name, "shape": h.get("shape"), "steps": [s[:2] for s in h["steps"]], "open_at_end": r.get("open"),
                        "diagnostics_at_end": ndiag, "outcome": [r["old"][0], r["fresh"][0]]})
        for k, w, det in v:
            found.setdefault(k, []).append((name, h, w, det))
    res.coverage["evaluations"] = len(cases)
    res.coverage["distinct_nontrivial"] = len(distinct)
    res.coverage["explanation"] = (
        "category other: the theorem is about a table-level model (per-file fact lists, one downstream function); the tie is a "
        "translator for the table lists / server shape plus the property's own differential oracle on the real veryl-ls. "
        "Each evaluation = one history applied to a server over LSP/stdio, compared after quiescence with a fresh server "
        "(and with a cold-cache fresh server when [build] incremental) on re-published diagnostics, workspace symbols, "
        "definitions and references.")
    res.coverage["rule"] = ("generated LSP histories on 2-5 file projects; non-trivial = >=3 applied notifications and >=1 buffer open "
                            "at the end; distinct by serialised step list; each evaluated on a history server, a fresh server "
                            "(warm cache-ls) and, with [build] incremental, a fresh server with a cold store")
    res.coverage["inconclusive_timeouts"] = inconclusive
    res.obligation("at most 15%% of the histories inconclusive (timeouts): %d/%d" % (inconclusive, len(cases)),
                   inconclusive * 100 <= 15 * len(cases))
    res.obligation("history server = fresh server on %d histories (diagnostics, symbols, references)" % (len(cases) - inconclusive),
                   not [k for k in found if k not in res.known])

    for k in sorted(found):
        name, h, w, det = found[k][0]
        if k in res.known:
            res.violation(k, w, {})
            continue
        hmin = h
        try:
            hmin = ddmin_steps(binary, h, k, "s%d_%s" % (seed, re.sub(r"\W+", "_", k)[:30]),
                               budget=12 if tier == "quick" else 60)
        except Exception as e:  # shrinking must never hide the finding
            res.notes.append("ddmin failed: %r" % (e,))
        res.violation(k, w, {"history": hmin, "detail": det, "first_seen_in": name, "occurrences": len(found[k]),
                             "final_open": sorted(k2 for k2 in (hmin.get("files") or {}))})
    if inconclusive * 100 > 15 * len(cases) and not res.violations:
        res.violation("timeouts", "too many histories timed out (%d/%d): nothing is shown" % (inconclusive, len(cases)),
                      {"no_longer_checks": "end-to-end oracle"}, no_input=True)
    if translator_err and not res.violations:
        res.violation("translator", "translator dropped_tables no longer matches the source: " + translator_err,
                      {"no_longer_checks": "translator:dropped_tables", "error": translator_err}, no_input=True)
    if not proved and not res.violations:
        pf = getattr(res, "proof_failure", {})
        res.violation("proof", "Props/C07.v is no longer established (%s): the regenerated table lists no longer satisfy the "
                      "inclusion, and no failing history was found by the end-to-end driver" % pf.get("where", "audit"),
                      {"no_longer_checks": "theorems of Props/C07.v", **pf}, no_input=True)
    return res.finish()
