"""C14 — Combinational loop detection is exact.

proof:   coq/Props/C14.v  (the reference `has_cycle` decides "some bit reaches itself by a non-empty
         dependency path", both directions, all finite graphs; the transcribed `atomic_ranges`
         partitions the accessed bits for all span lists; a partition the bit edges relate
         uniformly gives the same verdict as the bits, and no partition hides a cycle; statement
         order of an always_comb block)
tie:     (a) direct correspondence `atomic_ranges` / PackedSpan algebra (hooks verif_atomic_ranges,
         verif_packed_span_ops) vs coq/CombLoop/CombLoopModel.v on generated span lists, plus the
         partition properties evaluated on the implementation's own output;
         (b) end to end: generated designs (vp/gen/combdesigns.py: one python structure printed as
         Veryl and as the abstract design of coq/CombLoop/BitGraph.v) -> real analyzer (vh-combloop)
         -> CombinationalLoop present  vs  Gallina `design_has_cycle` (vm_compute), both directions;
         (c) the detector's own bit partition (hook verif_module_graphs) must be split at the ends of
         every constant access of the design.
oracle:  the Gallina reference on the same abstract design.  A verdict that differs from it is
         accepted only when it is reproduced by the reference run with the detector's DOCUMENTED /
         recorded approximations (each a key of KNOWN_FINDINGS.txt); anything else is a violation.
"""
import base64
import json
import os
import pickle
import random

from .. import common as C
from ..gen import combdesigns as G

PID = "C14"

MANIFEST = {
    "category": "other",
    "technique": "Coq proof of the bit-graph reference and of the partition primitive + end-to-end correspondence on generated designs",
    "text": "Proved for all finite graphs: the reference has_cycle answers true exactly when some bit depends on itself through "
            "a non-empty chain of dependencies. Proved for all span lists and endpoint sets (and every order sort_unstable may "
            "leave equal keys in): the transcribed atomic_ranges yields non-empty, ascending, pairwise disjoint atoms, each "
            "inside an input span, covering every bit of every input span by an atom inside that span, and split at every span "
            "boundary and requested endpoint. Proved: no partition hides a cycle, and a partition whose classes the bit edges "
            "relate uniformly gives exactly the bit-level verdict; a read in an always_comb block sees the latest preceding "
            "write, else the block-entry value, and the merge after an if/case is the union over the arms (retained state "
            "contributes nothing); PackedSpan overlaps/intersection/translated are interval arithmetic. The detector (4.5k lines) is not transcribed: its verdict is compared, both "
            "directions, with the Gallina reference evaluated on the same abstract design for generated designs (bit/part "
            "selects with shifted self copies, rotations, arrays, struct members, always_comb with branches and sequential "
            "reassignment, several always_comb blocks, functions, 2-level hierarchy, widths across 64/128, loops through "
            "if/case/ternary conditions, dynamic selects), atomic_ranges and the PackedSpan algebra are compared directly, "
            "and the detector's own partition is checked against the accesses of each design.",
    "note": "Partial (category other): the detector is validated, not proved. It is NOT exact on the pinned tree; seven classes of "
            "wrong verdicts are recorded as findings and reproduced by reference modes so that any OTHER disagreement fails: "
            "false loops on shift chains longer than the endpoint propagation closes (partition-not-closed), through "
            "instances (port-level feed-through summary, inst-port-level) and through bits a constant shift drops below an "
            "all-to-all operator (shift-under-all-to-all); missed loops through unary minus (neg-positional), through a dynamic "
            "bit write that keeps the other bits (dyn-write-kills) and through the carry into a wider assignment target "
            "(carry-beyond-operand-width); both through a self-overlapping blocking part-select assignment bound atom by "
            "atom (blocking-assign-atom-by-atom). Reference conventions: + - * comparison reduction dynamic read are "
            "all-to-all, bitwise operators / concatenation / constant shifts / ternary branches positional, unary minus "
            "triangular, retained state (latch) is no dependency. Opaque constructs (SystemVerilog black box, inout): only "
            "'no false positive'. Trusted: Coq kernel, hand-written models, python generator (one structure printed as Veryl "
            "and as Coq term, cross-checked by a python mirror of the lowering), vh-combloop harness, hooks. No axioms.",
}

BENIGN = {"unassign_variable", "unused_variable", "uncovered_branch", "multiple_assignment", "unassignable_output",
          "mismatch_assignment", "unused_return"}
COQ_PRE = ("From Coq Require Import NArith List Bool.\nImport ListNotations.\n"
           "From VV Require Import CombLoop.BitGraph CombLoop.CombLoopModel.\nOpen Scope N_scope.\n"
           "Definition run (d : list (list func * list item)) : bool :=\n"
           "  existsb (fun m => design_has_cycle (fst m) (snd m)) d.\n"
           "Definition runq (d : list (list (N * N * N) * (list func * list item))) : bool :=\n"
           "  existsb (fun m => design_has_cycle_q (fst m) (fst (snd m)) (snd (snd m))) d.\n"
           "Definition spans (l : list (N * N)) := map (fun p => mkSpan (fst p) (snd p)) l.\n"
           "Definition atoms (c : list (N * N) * list N) :=\n"
           "  map (fun a => (s_start a, s_len a)) (atomic_ranges (spans (fst c)) (snd c)).\n"
           "Definition osp (o : option span) := match o with Some a => [(s_start a, s_len a)] | None => [] end.\n"
           "Definition pops (c : (N * N) * (N * N) * (N * N)) :=\n"
           "  match c with (a, b, ft) =>\n"
           "    let sa := mkSpan (fst a) (snd a) in let sb := mkSpan (fst b) (snd b) in\n"
           "    (osp (span_intersection sa sb), span_overlaps sa sb, osp (span_translated sa (fst ft) (snd ft))) end.\n")


# --------------------------------------------------------------------------------------------
# implementation side

def hexs(s):
    return s.encode().hex()


def parse_G(line):
    """-> dict(ok, loops, locs, others, mods={name: (rows, edges)}) or dict(ok=False, raw)"""
    t = line.split()
    if not t or t[0] != "OK":
        return {"ok": False, "raw": line}
    res = {"ok": True, "loops": int(t[1]), "locs": t[2], "others": [] if t[3] == "-" else t[3].split(","), "mods": {}}
    p = 4
    while p + 3 < len(t) and t[p] == "M":
        name, rows, edges = t[p + 1], t[p + 2], t[p + 3]
        part = []
        if rows != "-":
            for r in rows.split(","):
                var, a0, al, atoms = r.split(":")
                part.append((var, int(a0), int(al), [tuple(int(x) for x in a.split("+")) for a in atoms.split("/")]))
        es = []
        if edges != "-":
            for e in edges.split(","):
                a, b = e.split(">")
                es.append((tuple(a.split(":")), tuple(b.split(":"))))
        res["mods"][name] = (part, es)
        p += 4
    return res


def impl_eval(binary, texts, cmd="G"):
    outs = C.run_lines(binary, ["%s %s" % (cmd, hexs(t)) for t in texts])
    return [parse_G(o) for o in outs]


# --------------------------------------------------------------------------------------------
# the detector's partition as a class table over the design's node space

def class_table(design, impl):
    """per root (module) a list of (first node, length, class id) from the dumped partition"""
    tabs = []
    for m in design.modules:
        tab = []
        _module_table(m, impl, 0, tab)
        for it in m.items:
            if it[0] == "inst":
                _module_table(it[2], impl, it[5][0], tab)
        tabs.append(tab)
    return tabs


def _module_table(m, impl, off, tab):
    part = impl["mods"].get(m.name, ([], []))[0]
    names = {}
    for v in m.vars:
        names[v.name] = v
    for f in m.funcs:
        for v in f.formals + f.locals:
            names["%s.%s" % (f.name, v.name)] = v
            names.setdefault(v.name, v)
    for (var, a0, al, atoms) in part:
        v = names.get(var)
        if v is None:
            continue
        ew = v.width if v.kind == "arr" else v.total
        for (s, l) in atoms:
            cid = off + v.base + a0 * ew + s
            for e in range(a0, a0 + al):
                if v.kind != "arr" and e > 0:
                    break
                tab.append((off + v.base + e * ew + s, l, cid))


def partition_split_ok(design, impl):
    """every constant access of the design ends at atom boundaries of the dumped partition.
    Returns list of offending (module, var, elem, lo, len)"""
    bad = []
    for (mn, var, elem, lo, ln) in G.access_spans(design):
        part = impl["mods"].get(mn, ([], []))[0]
        rows = [r for r in part if r[0] == var and r[1] <= elem < r[1] + r[2]]
        if not rows:
            continue            # never touched by the detector's walk (unused variable)
        atoms = rows[0][3]
        # atoms must be ascending, disjoint, and none may straddle lo or lo+len
        prev = -1
        for (s, l) in atoms:
            if l == 0 or s < prev:
                bad.append((mn, var, elem, lo, ln, "atoms not ascending/disjoint: %r" % (atoms,)))
                break
            prev = s + l
            if s < lo < s + l or s < lo + ln < s + l:
                bad.append((mn, var, elem, lo, ln, "atom %d+%d straddles an end of [%d,%d)" % (s, l, lo, lo + ln)))
                break
        covered = set()
        for (s, l) in atoms:
            if s + l <= lo or s >= lo + ln:
                continue
            covered.update(range(max(s, lo), min(s + l, lo + ln)))
        if len(covered) != ln:
            bad.append((mn, var, elem, lo, ln, "access not covered by atoms %r" % (atoms,)))
    return bad


def partition_closed_once(design, impl):
    """propagate_packed_endpoints lets every seed endpoint (an end of an access or of a transfer span) cross every
    transfer whose span contains it at least once; the image must therefore be an atom boundary wherever the
    destination variable has atoms.  Returns offending (module, src var, point, dst var, image, atoms)."""
    bad = []
    tr = G.transfers(design)
    seeds = {}
    for (mn, var, elem, lo, ln) in G.access_spans(design):
        seeds.setdefault((mn, var), set()).update([lo, lo + ln])
    for mn, ts in tr.items():
        for (sv, s0, dv, d0, ln) in ts:
            seeds.setdefault((mn, sv.name), set()).update([s0, s0 + ln])
            seeds.setdefault((mn, dv.name), set()).update([d0, d0 + ln])
    for mn, ts in tr.items():
        part = impl["mods"].get(mn, ([], []))[0]
        for (sv, s0, dv, d0, ln) in ts:
            for (a, a0, b, b0) in ((sv, s0, dv, d0), (dv, d0, sv, s0)):
                for p in seeds.get((mn, a.name), ()):
                    if a0 <= p <= a0 + ln:
                        q = p - a0 + b0
                        for row in part:
                            if row[0] != b.name:
                                continue
                            for (s, l) in row[3]:
                                if s < q < s + l:
                                    bad.append((mn, a.name, p, b.name, q, row[3]))
    return bad


# --------------------------------------------------------------------------------------------
# reference side (Gallina, vm_compute)

def coq_exact(designs, name):
    terms = ["[" + "; ".join(G.coq_root(r) for r in d.roots(frozenset())) + "]" for d in designs]
    return C.coq_eval_sharded(name, COQ_PRE, terms, lambda l: "map run %s" % l, shard=80, timeout=1500)


def atoms_fn(impl):
    def f(mn, var, elem):
        for (v, a0, al, atoms) in impl["mods"].get(mn, ([], []))[0]:
            if v == var and a0 <= elem < a0 + al:
                return atoms
        return None
    return f


def coq_mode(cases, name):
    """cases: list of (design, Mode, tabs or None) -> list of bool"""
    if not cases:
        return []
    ex, qs = [], []
    for (d, mode, tabs) in cases:
        roots = d.roots(mode)
        if tabs is None:
            ex.append("[" + "; ".join(G.coq_root(r) for r in roots) + "]")
        else:
            qs.append("[" + "; ".join(
                "([%s], %s)" % ("; ".join("(%d, %d, %d)" % t for t in tab), G.coq_root(r))
                for r, tab in zip(roots, tabs)) + "]")
    from concurrent.futures import ThreadPoolExecutor
    with ThreadPoolExecutor(max_workers=2) as tp:
        f1 = tp.submit(lambda: C.coq_eval_sharded(name + "_m", COQ_PRE, ex, lambda l: "map run %s" % l, shard=80, timeout=1500) if ex else [])
        f2 = tp.submit(lambda: C.coq_eval_sharded(name + "_q", COQ_PRE, qs, lambda l: "map runq %s" % l, shard=80, timeout=1500) if qs else [])
        v1, v2 = f1.result(), f2.result()
    out, i1, i2 = [], 0, 0
    for (d, mode, tabs) in cases:
        if tabs is None:
            out.append(v1[i1]); i1 += 1
        else:
            out.append(v2[i2]); i2 += 1
    return out


def py_mode(design, mode, tabs):
    if tabs is None:
        return G.py_verdict(design, mode)
    roots = design.roots(mode)
    for root, tab in zip(roots, tabs):
        d = {}
        for (s, l, c) in reversed(tab):
            for n in range(s, s + l):
                d[n] = c
        byc = {}
        for n, c in d.items():
            byc.setdefault(c, []).append(n)
        members = {n: byc[c] for n, c in d.items()}
        cls = lambda n, d=d: d.get(n, n)
        if G.py_has_cycle(G.py_quotient(G.py_graph(root, cls, members), cls)):
            return True
    return False


IMPL_FLAGS = ("blocking-assign-atom-by-atom", "partition-not-closed")      # need the detector's partition
ABS_FLAGS = [f for f in G.FLAGS if f not in IMPL_FLAGS]


def explain(design, impl, verdict):
    """smallest set of recorded approximations under which the reference reproduces `verdict`
    (python mirror; the caller confirms with the Gallina reference). None if there is none."""
    import itertools
    have = bool(impl.get("mods"))
    tabs = class_table(design, impl) if have else None
    flags = list(G.FLAGS) if have else list(ABS_FLAGS)
    for k in range(1, len(flags) + 1):
        for sub in itertools.combinations(flags, k):
            mode = G.Mode([f for f in sub if f != "partition-not-closed"], atoms_fn(impl) if have else None)
            t = tabs if "partition-not-closed" in sub else None
            try:
                if py_mode(design, mode, t) == verdict:
                    return sub, mode, t
            except Exception:
                continue
    return None


# --------------------------------------------------------------------------------------------
# shrinking (python mirror + harness; the result is confirmed by the Gallina reference)

def shrink_candidates(design):
    """designs with one item / one statement removed (pickled copies)"""
    blob = pickle.dumps(design)
    nmods = len(design.modules)
    for mi in range(nmods):
        for ii in range(len(design.modules[mi].items)):
            d = pickle.loads(blob)
            it = d.modules[mi].items[ii]
            if it[0] == "comb" and len(it[1]) > 1:
                for si in range(len(it[1])):
                    d2 = pickle.loads(blob)
                    del d2.modules[mi].items[ii][1][si]
                    yield d2
            del d.modules[mi].items[ii]
            yield d


def size_of(design):
    return len(design.text())


def shrink(binary, design, pred, budget=60):
    cur = design
    improved = True
    while improved and budget > 0:
        improved = False
        for cand in shrink_candidates(cur):
            budget -= 1
            if budget <= 0:
                break
            try:
                if size_of(cand) < size_of(cur) and pred(cand):
                    cur = cand
                    improved = True
                    break
            except Exception:
                continue
    return cur


# --------------------------------------------------------------------------------------------
# stream (a): atomic_ranges / PackedSpan correspondence

def gen_span_cases(rng, n):
    cases = []
    for _ in range(n):
        style = rng.choice(["small", "small", "nested", "touching", "far", "dups"])
        k = rng.choice([0, 1, 2, 3, 4, 6, 9])
        spans = []
        if style == "far":
            base = rng.choice([0, 63, 64, 1 << 20, (1 << 40) - 100])
        else:
            base = 0
        for _ in range(k):
            if style == "touching" and spans:
                s = spans[-1][0] + spans[-1][1]
            else:
                s = base + rng.choice([0, 1, rng.randint(0, 12), rng.randint(0, 140), 63, 64])
            l = rng.choice([1, 1, 2, rng.randint(1, 9), 64, 65, rng.randint(1, 130)])
            if style == "nested" and spans:
                s0, l0 = rng.choice(spans)
                s = s0 + rng.randint(0, l0 - 1)
                l = rng.randint(1, max(1, s0 + l0 - s))
            spans.append((s, l))
            if style == "dups" and rng.random() < 0.5:
                spans.append((s, l))
        if rng.random() < 0.08:
            spans.append((rng.randint(0, 20), 0))            # PackedSpan::new rejects it
        ep_kind = rng.choice(["N", "-", "some", "some"])
        eps = None
        if ep_kind == "-":
            eps = []
        elif ep_kind == "some":
            pts = [s for s, l in spans] + [s + l for s, l in spans] + [0]
            eps = sorted(set(rng.choice(pts) + rng.choice([-1, 0, 0, 1, 2]) for _ in range(rng.randint(1, 5))))
            eps = [e for e in eps if e >= 0]
        cases.append((spans, eps))
    return cases


def atoms_oracle(spans, eps, atoms):
    """the partition properties evaluated on the implementation's own output"""
    spans = [(s, l) for (s, l) in spans if l > 0]
    bad = []
    prev = -1
    for (s, l) in atoms:
        if l == 0:
            bad.append("empty atom")
        if s < prev:
            bad.append("atoms overlap / not ascending")
        prev = s + l
        if not any(s0 <= s and s + l <= s0 + l0 for (s0, l0) in spans):
            bad.append("atom %d+%d inside no span" % (s, l))
        for b in [x for sp in spans for x in (sp[0], sp[0] + sp[1])] + list(eps or []):
            if s < b < s + l:
                bad.append("atom %d+%d not split at %d" % (s, l, b))
    for (s0, l0) in spans:
        cov = sum(l for (s, l) in atoms if s0 <= s and s + l <= s0 + l0)
        if cov != l0:
            bad.append("span %d+%d is not the union of the atoms inside it" % (s0, l0))
    return bad


def stream_atoms(res, binary, rng, n):
    cases = gen_span_cases(rng, n)
    lines = []
    for (spans, eps) in cases:
        sp = ",".join("%d+%d" % x for x in spans) or "-"
        ep = "N" if eps is None else (",".join(str(e) for e in eps) or "-")
        lines.append("R %s %s" % (sp, ep))
    outs = C.run_lines(binary, lines)
    terms = ["([%s], [%s])" % ("; ".join("(%d, %d)" % x for x in spans if x[1] > 0),
                               "; ".join(str(e) for e in (eps or []))) for (spans, eps) in cases]
    # PackedSpan algebra cases (generated here so that both models are evaluated concurrently)
    pc = []
    for _ in range(n):
        a = (rng.randint(0, 70), rng.choice([1, 2, rng.randint(1, 70)]))
        b = (rng.choice([a[0], a[0] + a[1], rng.randint(0, 140)]), rng.choice([1, 2, rng.randint(1, 70)]))
        ft = (rng.choice([0, a[0], a[0] + 1, rng.randint(0, 80)]), rng.randint(0, 80))
        pc.append((a, b, ft))
    from concurrent.futures import ThreadPoolExecutor
    with ThreadPoolExecutor(max_workers=2) as tp:
        fa = tp.submit(lambda: C.coq_eval_sharded("c14_atoms_%d" % os.getpid(), COQ_PRE, terms, lambda l: "map atoms %s" % l, shard=1000))
        fp = tp.submit(lambda: C.coq_eval_sharded("c14_pops_%d" % os.getpid(), COQ_PRE,
                                                  ["((%d, %d), (%d, %d), (%d, %d))" % (a + b + ft) for (a, b, ft) in pc],
                                                  lambda l: "map pops %s" % l, shard=1000))
        model, pmodel = fa.result(), fp.result()
    mism, orc = [], []
    for i, ((spans, eps), o, mo) in enumerate(zip(cases, outs, model)):
        t = o.split()
        if not t or t[0] != "OK":
            mism.append((i, o))
            orc.append((i, ["harness: " + o]))
            continue
        atoms = [] if t[1] == "-" else [tuple(int(x) for x in a.split("+")) for a in t[1].split(",")]
        if atoms != [tuple(x) for x in mo]:
            mism.append((i, "impl %r model %r" % (atoms, mo)))
        b = atoms_oracle(spans, eps, atoms)
        if b:
            orc.append((i, b))
        res.hist("atomic_ranges_shapes", "spans=%d endpoints=%s" % (len(spans), "none" if eps is None else min(len(eps), 3)))
    res.obligation("correspondence atomic_ranges = model on %d span lists" % len(cases), not mism)
    res.obligation("partition properties hold on atomic_ranges' own output (%d span lists)" % len(cases), not orc)
    for (i, b) in orc[:1]:
        spans, eps = cases[i]
        res.violation("atomic-ranges", "atomic_ranges(%r, %r): %s" % (spans, eps, "; ".join(b[:3])),
                      {"kind": "atoms", "spans": [list(x) for x in spans], "endpoints": eps, "impl": outs[i]})
    if mism and not orc:
        i, w = mism[0]
        res.violation("correspondence", "atomic_ranges differs from its transcription: " + w,
                      {"no_longer_checks": "correspondence comb_loop_detect::atomic_ranges = VV.CombLoop.CombLoopModel.atomic_ranges",
                       "spans": [list(x) for x in cases[i][0]], "endpoints": cases[i][1]}, no_input=True)
    # PackedSpan algebra
    outs = C.run_lines(binary, ["P %d+%d %d+%d %d %d" % (a[0], a[1], b[0], b[1], ft[0], ft[1]) for (a, b, ft) in pc])
    pm = []
    for i, (c, o, mo) in enumerate(zip(pc, outs, pmodel)):
        t = o.split()
        if len(t) != 4 or t[0] != "OK":
            pm.append((i, o)); continue
        sp = lambda x: [] if x == "none" else [tuple(int(y) for y in x.split("+"))]
        got = (sp(t[1]), t[2] == "1", sp(t[3]))
        want = ([tuple(x) for x in mo[0]], mo[1], [tuple(x) for x in mo[2]])
        if got != want:
            pm.append((i, "impl %r model %r" % (got, want)))
        a, b, ft = c
        lo, hi = max(a[0], b[0]), min(a[0] + a[1], b[0] + b[1])
        orc_i = (([(lo, hi - lo)] if hi > lo else []), hi > lo,
                 ([(a[0] - ft[0] + ft[1], a[1])] if a[0] >= ft[0] else []))
        if got != orc_i:
            res.violation("packed-span", "PackedSpan ops on %r: %r, interval arithmetic gives %r" % (c, got, orc_i),
                          {"kind": "pops", "case": [list(a), list(b), list(ft)], "impl": o})
    res.obligation("correspondence PackedSpan intersection/overlaps/translated = model on %d cases" % len(pc), not pm)
    if pm and not res.violations:
        res.violation("correspondence", "PackedSpan algebra differs from its transcription: %s" % (pm[0][1],),
                      {"no_longer_checks": "correspondence PackedSpan ops = VV.CombLoop.CombLoopModel"}, no_input=True)
    return len(cases) + len(pc)


# --------------------------------------------------------------------------------------------
# corpus

def corpus_dir():
    return os.path.join(C.VERIF, "corpus", PID)


def load_corpus():
    out = []
    d = corpus_dir()
    if not os.path.isdir(d):
        return out
    for f in sorted(os.listdir(d)):
        if f.endswith(".json"):
            j = json.load(open(os.path.join(d, f)))
            j["file"] = f
            out.append(j)
    return out


def design_of(j):
    return pickle.loads(base64.b64decode(j["design_b64"])) if j.get("design_b64") else None


def dump_design(d):
    return base64.b64encode(pickle.dumps(d)).decode()


# --------------------------------------------------------------------------------------------

def judge_designs(res, binary, designs, labels, tier, tagname):
    """run detector + reference on the designs; record violations. Returns number judged."""
    texts = [d.text() for d in designs]
    impl = impl_eval(binary, texts)
    name = "c14_%s_%d" % (tagname, os.getpid())
    exact = coq_exact(designs, name)
    pending = []      # (index, verdict) to explain
    part_bad = {}     # index -> why the dumped partition breaks a guarantee of build_bit_partition
    unusable = 0
    mirror_bad = []
    for i, (d, im, ex) in enumerate(zip(designs, impl, exact)):
        fam = d.family
        if not im["ok"]:
            res.violation("analyzer-crash", "the analyzer did not survive a generated design: %s" % im["raw"][:200],
                          {"kind": "design", "text": texts[i], "design_b64": dump_design(d), "label": labels[i]})
            continue
        odd = [c for c in im["others"] if c not in BENIGN]
        if odd:
            unusable += 1
            res.hist("unusable_designs", ",".join(odd))
            continue
        det = im["loops"] > 0
        try:
            pm = G.py_verdict(d, frozenset())
        except Exception as e:       # the mirror is only a cross-check
            pm = None
        if pm is not None and pm != ex:
            mirror_bad.append((i, pm, ex))
        res.hist("family_histogram", "%s %s" % (fam, "cyclic" if ex else "acyclic"))
        res.hist("verdict_histogram", "reference=%s detector=%s" % ("loop" if ex else "none", "loop" if det else "none"))
        if fam == "opaque":
            # only "no false positive": the abstract design holds the visible part
            if det and not ex:
                pending.append((i, det))
            continue
        bad = partition_split_ok(d, im)
        if bad:
            part_bad[i] = "not split at an access of the design: %s %s[%d] [%d+%d]: %s" % bad[0]
        else:
            bad = partition_closed_once(d, im)
            if bad:
                part_bad[i] = ("not closed under one application of a positional transfer of the design: %s.%s point %d "
                               "maps to %s point %d inside an atom of %r" % bad[0])
        if det != ex:
            pending.append((i, det))
    res.obligation("python mirror of the lowering agrees with the Gallina reference (%s)" % tagname, not mirror_bad,
                   str(mirror_bad[:3]))
    if mirror_bad:
        i, pm, ex = mirror_bad[0]
        res.violation("machinery", "model-defect: python mirror %r vs Gallina %r on design %s" % (pm, ex, labels[i]),
                      {"kind": "design", "text": texts[i], "design_b64": dump_design(designs[i]), "label": labels[i]}, no_input=True)
    res.count("unusable_designs_total", unusable)
    # explain the disagreements
    todo = []
    for (i, det) in pending:
        e = explain(designs[i], impl[i], det)
        todo.append((i, det, e))
    conf = coq_mode([(designs[i], e[1], e[2]) for (i, det, e) in todo if e], name + "_x")
    ci = 0
    unexplained = []
    for (i, det, e) in todo:
        ok = False
        if e:
            ok = conf[ci] == det
            ci += 1
        if e and ok and "partition-not-closed" in e[0] and i in part_bad:
            # the recorded class presumes a partition split at every access and closed under one transfer step
            ok = False
        if e and ok:
            for f in e[0]:
                res.hist("known_finding_hits", "%s (%s)" % (f, "false loop" if det else "missed loop"))
                res.violation(f, "known class %s: %s" % (f, labels[i]), {})
        else:
            unexplained.append((i, det))
    res.obligation("the detector's partition is split at every access and closed under one transfer step (%s)" % tagname,
                   not part_bad, str(list(part_bad.items())[:2]))
    if part_bad and not any(i in part_bad for (i, _) in unexplained):
        i = sorted(part_bad)[0]
        res.violation("correspondence", "the detector's bit partition is %s; no design with a wrong verdict was found among the "
                      "generated ones" % part_bad[i],
                      {"no_longer_checks": "build_bit_partition: atoms split at every access / closed under one step of every transfer",
                       "kind": "design", "text": texts[i], "design_b64": dump_design(designs[i]), "label": labels[i],
                       "partition": impl[i]["mods"]}, no_input=True)
    res.count("disagreements_explained_by_findings", len(todo) - len(unexplained))
    reported = 0
    for (i, det) in unexplained:
        if reported >= 3:
            break
        reported += 1
        d = designs[i]

        def pred(c):
            im = impl_eval(binary, [c.text()])[0]
            if not im["ok"] or [x for x in im["others"] if x not in BENIGN]:
                return False
            dv = im["loops"] > 0
            if dv != det or G.py_verdict(c, frozenset()) == dv:
                return False
            e2 = explain(c, im, dv)
            if e2 is None:
                return True
            return i in part_bad and "partition-not-closed" in e2[0] and bool(partition_split_ok(c, im) or partition_closed_once(c, im))
        small = d
        try:
            small = shrink(binary, d, pred, budget=40 if tier == "quick" else 120)
        except Exception:
            pass
        im = impl_eval(binary, [small.text()])[0]
        exs = coq_exact([small], name + "_s")[0]
        what = ("detector reports %s, the design %s a combinational cycle between bits (Gallina reference), and no recorded "
                "approximation reproduces the verdict" % ("a loop" if det else "no loop", "has" if exs else "has not"))
        res.violation("false-loop" if det else "missed-loop", what,
                      {"kind": "design", "label": labels[i], "family": d.family, "tags": sorted(d.tags), "text": small.text(),
                       "reference_has_cycle": exs, "detector_loops": im.get("loops"), "detector_locs": im.get("locs"),
                       "abstract_design": "[" + "; ".join(G.coq_root(r) for r in small.roots(frozenset())) + "]",
                       "design_b64": dump_design(small)})
    return len(designs) - unusable, impl, exact


def run(tier, seed, replay):
    res = C.Result(PID, "other", tier, seed)
    res.coverage["trusted_base"] = C.std_trusted_base([
        "models: coq/CombLoop/BitGraph.v (reference semantics of the abstract design language, has_cycle), "
        "coq/CombLoop/CombLoopModel.v (transcription of PackedSpan / atomic_ranges; usize as unbounded N)",
        "vp/gen/combdesigns.py prints ONE python structure as Veryl text and as the abstract design (incl. the node layout: "
        "variable -> first bit; struct members first = most significant); a python mirror of the lowering cross-checks the printer",
        "vh-combloop harness (harness/combloop): analyze exactly like crates/analyzer tests; hooks verif_atomic_ranges, "
        "verif_packed_span_ops, verif_module_graphs (cfg(veryl_verif), add-only)",
        "reference conventions (design/C14.md): which operators are positional / all-to-all; retained state is no dependency"])
    res.assumptions = [
        "the detector is compared, not proved: a defect outside the generated shapes is not excluded",
        "atoms theorems assume spans of non-zero length (PackedSpan::new admits no other); usize overflow not modelled",
        "quotient_exact assumes the partition is uniform (every driven bit of a class depends on the same classes; a class is driven as a whole)"]
    res.coverage["explanation"] = ("the reference (has_cycle on the bit graph of the abstract design), the partition primitive atomic_ranges "
                                   "and the quotient argument are proved in Coq; the detector itself is validated end to end on generated designs "
                                   "against that reference (both directions), with seven recorded classes of wrong verdicts reproduced by "
                                   "reference modes and reported as known findings")
    proved = C.prove(res, PID)

    ok, binary, log = C.harness_build("vh-combloop")
    res.obligation("harness build vh-combloop from /repo working tree", ok, log[-400:])
    if not ok:
        res.violation("harness-build", "the combloop harness no longer builds against /repo: " + log[-300:],
                      {"log": log[-2000:]}, no_input=True)
        return res.finish()

    if replay:
        rp = json.load(open(replay))
        if rp.get("kind") == "atoms":
            spans = [tuple(x) for x in rp["spans"]]
            eps = rp["endpoints"]
            sp = ",".join("%d+%d" % x for x in spans) or "-"
            ep = "N" if eps is None else (",".join(str(e) for e in eps) or "-")
            o = C.run_lines(binary, ["R %s %s" % (sp, ep)])[0]
            print("replay: impl =", o)
            t = o.split()
            atoms = [] if len(t) < 2 or t[1] == "-" else [tuple(int(x) for x in a.split("+")) for a in t[1].split(",")]
            b = atoms_oracle(spans, eps, atoms) if t and t[0] == "OK" else ["harness: " + o]
            if b:
                res.violation("atomic-ranges", "; ".join(b[:3]), rp)
            return res.finish()
        if rp.get("kind") == "design":
            d = design_of(rp)
            judge_designs(res, binary, [d], [rp.get("label", "replay")], tier, "replay")
            return res.finish()
        print("replay: nothing executable in this replay file")
        return res.finish()

    rng = random.Random(seed * 1000003 + 14)
    total = 0
    total += stream_atoms(res, binary, rng, 600 if tier == "quick" else 6000)

    # corpus first (same batch as the first generated designs: one round of Coq evaluation)
    corpus = load_corpus()
    cd = [(j, design_of(j)) for j in corpus]
    with_design = [(j, d) for (j, d) in cd if d is not None]
    text_only = [j for (j, d) in cd if d is None]
    if text_only:
        impl = impl_eval(binary, [j["text"] for j in text_only], cmd="A")
        for j, im in zip(text_only, impl):
            total += 1
            det = im.get("loops", 0) > 0 if im["ok"] else None
            if det is None:
                res.violation("analyzer-crash", "corpus/%s: %s" % (j["file"], im["raw"][:200]), {"corpus": j["file"]})
            elif det != bool(j["truth"]):
                key = j.get("known") or ("false-loop" if det else "missed-loop")
                res.violation(key, "corpus/%s: detector reports %s, the design %s a bit-level cycle (%s)"
                              % (j["file"], "a loop" if det else "no loop", "has" if j["truth"] else "has not", j.get("why", "")),
                              {"kind": "text", "corpus": j["file"], "text": j["text"], "truth": j["truth"]})

    n = 600 if tier == "quick" else 10000
    drng = random.Random(seed * 7919 + 1414)
    batch = 600 if tier == "quick" else 1000
    done = 0
    distinct = set()
    while done < n:
        k = min(batch, n - done)
        designs = [G.gen_design(drng) for _ in range(k)]
        labels = ["seed %d design %d (%s)" % (seed, done + i, d.family) for i, d in enumerate(designs)]
        nc = 0
        if done == 0 and with_design:
            nc = len(with_design)
            designs = [d for (_, d) in with_design] + designs
            labels = ["corpus/%s" % j["file"] for (j, _) in with_design] + labels
        m, impl, exact = judge_designs(res, binary, designs, labels, tier, "gen%d" % done)
        total += m
        for (j, d), ex in zip(with_design[:nc], exact[:nc]):
            if "truth" in j and bool(j["truth"]) != bool(ex):
                res.violation("machinery", "model-defect: corpus/%s states truth=%r, the reference says %r" % (j["file"], j["truth"], ex),
                              {"corpus": j["file"]}, no_input=True)
        for d, im in zip(designs[nc:], impl[nc:]):
            if im["ok"] and len(d.modules[-1].items) >= 3:
                distinct.add(hash(d.text()))
        if done == 0:
            for d, im, ex in list(zip(designs, impl, exact))[nc:nc + 3]:
                res.sample({"family": d.family, "tags": sorted(d.tags), "text": d.text()[:600],
                            "reference_has_cycle": ex, "detector_loops": im.get("loops")})
        done += k
    res.coverage["evaluations"] = total
    res.coverage["distinct_nontrivial"] = len(distinct)
    res.coverage["rule"] = ("generated designs (families random/shift/seq/cross/cond/func/inst/wide/carry/dyn/opaque, see family_histogram) "
                            "with >= 3 items in the top module, distinct by Veryl text; plus atomic_ranges / PackedSpan cases and the corpus")
    fh = res.coverage.get("family_histogram", {})
    cyc = sum(v for k, v in fh.items() if k.endswith(" cyclic"))
    tot = sum(fh.values()) or 1
    res.coverage["cyclic_fraction"] = round(cyc / tot, 3)
    res.obligation("generated designs cover both polarities (cyclic fraction %.2f in [0.25, 0.6])" % (cyc / tot),
                   0.25 <= cyc / tot <= 0.6)
    un = res.coverage.get("unusable_designs_total", 0)
    res.obligation("at most 3%% of the generated designs are unusable (unexpected diagnostics): %d" % un, un <= 0.03 * max(n, 1))
    if not proved and not res.violations:
        pf = getattr(res, "proof_failure", {})
        res.violation("proof", "Props/C14.v is no longer established: %s" % pf.get("where", "audit"),
                      {"no_longer_checks": "theorems of Props/C14.v", **pf}, no_input=True)
    return res.finish()
