"""C20 — Synthesized netlists are well-formed and the area / depth reports match them.

proof:   coq/Props/C20.v — wf_check accepts exactly the well-formed netlists (in-range references, arity per
         CellKind, at most one driver per net and exactly one per read net, combinational nodes admit a
         topological order); the levelised computation = maximum over all combinational paths (with a witness
         path) for delays and for levels; area = element-wise sum.
tie:     translator translators/cells.py -> coq/Gate/GeneratedCells.v (CellKind, arity, symbol, every library's
         area/delay table, FF area/setup, default SRAM factors), regenerated on every run;
         the extracted checker / area / longest-path functions are RUN on every netlist the real synthesizer
         returns (translation validation) and compared with compute_area / compute_timing's reports.
oracle:  the property itself: (i) verified wf_check on the real netlist, (ii) reported area / delay / depth
         against the values recomputed from the serialised netlist (model, and an independent python
         recomputation), (iii) NetDriver bookkeeping against drivers recomputed from cells / ffs / ports / rams.
"""
import json
import os
import random
import struct
import sys
from fractions import Fraction

from .. import common as C
from ..gen import gates as G

PID = "C20"

MANIFEST = {
    "category": "proof",
    "technique": "Coq proof of the checker / longest-path / area functions + translator + translation validation of every synthesized netlist",
    "text": "Theorems over a Gallina netlist model (ir.rs GateModule): the executable wf_check is sound AND complete for the declarative "
            "well-formedness (references in range, arity(kind) inputs, no net with two drivers, every read net with exactly one driver, "
            "combinational nodes — cells and asynchronous RAM reads — admit a topological order); the levelised longest-path computation "
            "returns, for every net, the maximum over all combinational paths with a witness path (instantiated for library delays = "
            "critical_path_delay and for levels = depth); area is the sum of the library areas of cells, flip-flops and RAM bits. Cell "
            "kinds, arities and all four library tables are regenerated from the source on each run. The extracted functions are run on "
            "every netlist returned by the real synthesize_with for generated designs x every built-in library x two RAM thresholds and "
            "must accept it and reproduce compute_area / compute_timing's reports; NetDriver bookkeeping is recomputed.",
    "note": "Trusted: Coq kernel; model coq/Gate/NetlistModel.v; translator translators/cells.py; vh-synth harness; OCaml extraction + driver; "
            "python generators / independent recomputation. The implementation adds f64 values: reports are compared with the exact rational "
            "sums under a stated bound (area: 1e-12 relative + 1e-9; delay: 1e-9 + 1e-6 per RAM, the RAM access time being irrational) — far "
            "below the smallest table entry; RAM access delays are taken from the implementation and cross-checked against the translated "
            "factors. The theorem is about the checker, each real netlist is validated individually (not: the synthesizer only emits "
            "well-formed netlists). No axioms (Print Assumptions: closed).",
}

LIBS = ["sky130", "asap7", "gf180mcu", "ihp-sg13g2"]
LIB_VARIANT = {"sky130": "Sky130", "asap7": "Asap7", "gf180mcu": "Gf180mcu", "ihp-sg13g2": "IhpSg13g2"}
RAM_DEFAULT = [1024, 16, 8, 65536]
RAM_SMALL = [64, 2, 1, 4096]
SCALE = 10 ** 6


def _translator():
    sys.path.insert(0, os.path.join(C.VERIF, "translators"))
    import cells as T
    return T


def model_build():
    ex = open(os.path.join(C.HARNESS, "synth", "ocaml", "extract.v")).read()
    dr = open(os.path.join(C.HARNESS, "synth", "ocaml", "driver.ml")).read()
    return C.ocaml_build("netlist", ex, dr)


def f64(hexbits):
    return struct.unpack(">d", bytes.fromhex(hexbits))[0]


def fr(hexbits):
    return Fraction(f64(hexbits))


# ----------------------------------------------------------------------------------------------- python recomputation

def py_wf(g):
    """independent well-formedness check; returns list of problem strings"""
    bad = []
    n = g.nnets
    refs = []
    for d, nets in g.ports:
        refs += nets
    for k, out, ins in g.cells:
        refs += [out] + ins
        if k not in G.CELL_FUN:
            bad.append("unknown cell kind %s" % k)
        elif len(ins) != G.CELL_FUN[k][0]:
            bad.append("arity: cell %s has %d inputs" % (k, len(ins)))
    for f in g.ffs:
        refs += [f["clock"], f["d"], f["q"]] + ([f["reset"][0]] if f["reset"] else [])
    for r in g.rams:
        refs.append(r["clock"])
        for w in r["writes"]:
            refs += w["addr"] + w["data"] + [w["enable"]] + (w["mask"] or [])
        for p in r["reads"]:
            refs += p["addr"] + p["data"]
    for x in refs:
        if x >= n:
            bad.append("range: net %d >= %d" % (x, n))
            break
    drv = {}

    def add(net, what):
        drv.setdefault(net, []).append(what)
    add(0, "c0")
    add(1, "c1")
    for d, nets in g.ports:
        if d in ("i", "x"):
            for x in nets:
                add(x, "in")
    for i, (k, out, ins) in enumerate(g.cells):
        add(out, "cell.%d" % i)
    for i, f in enumerate(g.ffs):
        add(f["q"], "ff.%d" % i)
    for ri, r in enumerate(g.rams):
        for pi, p in enumerate(r["reads"]):
            for bi, x in enumerate(p["data"]):
                add(x, "ram.%d.%d.%d" % (ri, pi, bi))
    for net, l in drv.items():
        if len(l) > 1:
            bad.append("drivers: net %d has %d drivers (%s)" % (net, len(l), ", ".join(l[:3])))
            break
    reads = []
    for k, out, ins in g.cells:
        reads += ins
    for d, nets in g.ports:
        if d in ("o", "x"):
            reads += nets
    for f in g.ffs:
        reads += [f["clock"], f["d"]] + ([f["reset"][0]] if f["reset"] else [])
    for r in g.rams:
        reads.append(r["clock"])
        for w in r["writes"]:
            reads += w["addr"] + w["data"] + [w["enable"]] + (w["mask"] or [])
        for p in r["reads"]:
            reads += p["addr"]
    for x in reads:
        if x not in drv:
            bad.append("undriven: net %d is read but has no driver" % x)
            break
    return bad, drv


def comb_nodes(g, lib_delay, access):
    """(ins, outs, delay Fraction, level)"""
    nodes = []
    for k, out, ins in g.cells:
        nodes.append((ins, [out], lib_delay[k], 0 if k == "buf" else 1))
    for ri, r in enumerate(g.rams):
        for p in r["reads"]:
            if not p["sync"]:
                nodes.append((p["addr"], p["data"], access[ri], 1))
    return nodes


def py_longest(nodes):
    """longest path (delay, level) to every net; None on a cycle.  Kahn over nodes."""
    out_of = {}
    for i, (ins, outs, d, l) in enumerate(nodes):
        for o in outs:
            out_of.setdefault(o, []).append(i)
    indeg = [0] * len(nodes)
    succ = [[] for _ in nodes]
    for j, (ins, outs, d, l) in enumerate(nodes):
        for x in ins:
            for i in out_of.get(x, ()):
                succ[i].append(j)
                indeg[j] += 1
    arr = {}
    lev = {}
    ready = [i for i, c in enumerate(indeg) if c == 0]
    done = 0
    while ready:
        i = ready.pop()
        done += 1
        ins, outs, d, l = nodes[i]
        a = max([arr.get(x, 0) for x in ins] + [0]) + d
        v = max([lev.get(x, 0) for x in ins] + [0]) + l
        for o in outs:
            arr[o] = max(arr.get(o, 0), a)
            lev[o] = max(lev.get(o, 0), v)
        for j in succ[i]:
            indeg[j] -= 1
            if indeg[j] == 0:
                ready.append(j)
    if done != len(nodes):
        return None, None
    return arr, lev


def endpoints_of(g):
    e = [f["d"] for f in g.ffs]
    for d, nets in g.ports:
        if d in ("o", "x"):
            e += nets
    for r in g.rams:
        for w in r["writes"]:
            e += w["addr"] + w["data"] + [w["enable"]] + (w["mask"] or [])
    return e


def check_drivers(g, drv):
    """NetDriver bookkeeping (D records) against the drivers recomputed from cells / ffs / ports / rams"""
    bad = []
    for net in range(g.nnets):
        rec = g.drivers.get(net)
        real = drv.get(net, [])
        if rec is None:
            bad.append("net %d has no NetDriver record" % net)
            break
        want = real[0] if len(real) >= 1 else "u"
        if rec != want and not (len(real) > 1 and rec in real):
            bad.append("NetDriver of net %d is `%s` but the netlist says `%s`" % (net, rec, ", ".join(real) if real else "no driver"))
            break
    return bad


def judge(tr, cfg, result, model_line):
    """Returns (list of (key, what), info).  tr: translated tables; result: one `ok # ...` part."""
    lib, ram = cfg
    parts = result.split(" # ")
    g = G.parse_gate(parts[1])
    A = parts[2].split(" ")
    T = parts[3].split(" ")
    L = parts[4].split(" ")
    bad = []
    info = {"cells": len(g.cells), "ffs": len(g.ffs), "rams": len(g.rams), "nets": g.nnets}
    libt = [l for l in tr["libs"] if l["variant"] == LIB_VARIANT[lib]][0]
    sym = tr["symbol"]
    area_of = {sym[k]: libt["table"][k][0] for k in tr["kinds"]}
    delay_of = {sym[k]: libt["table"][k][1] for k in tr["kinds"]}
    # library constants printed by the implementation against the translated tables
    if fr(L[1]) != Fraction(float(libt["ff_area"])) or fr(L[2]) != Fraction(float(libt["ff_setup"])):
        bad.append(("library-constants", "ff_area/ff_setup of %s differ from the translated literals" % lib))
    access = [fr(x) for x in L[6:]]
    setup = max(libt["ff_setup"], tr["sram"]["ff_setup_floor"])
    import math
    for ri, r in enumerate(g.rams):
        want = float(setup * tr["sram"]["access_base_factor"]) + float(setup * tr["sram"]["access_slope_factor"]) * math.log2(max(r["depth"], 2))
        if abs(float(access[ri]) - want) > 1e-9:
            bad.append(("ram-access", "access_delay(%d) = %r, the translated SRAM factors give %r" % (r["depth"], float(access[ri]), want)))
    # (i) well-formedness: verified checker (model) and independent python check
    pw, drv = py_wf(g)
    mt = dict(kv.split("=", 1) for kv in model_line[3:].split(" ")) if model_line.startswith("OK ") else None
    if mt is None:
        bad.append(("model-error", "the model driver failed on this netlist: %s" % model_line[:200]))
    else:
        diag = int(mt["diag"])
        names = {1: "a net reference is out of range", 2: "a cell has the wrong number of inputs", 3: "a net has two drivers",
                 4: "a net that is read has no driver", 5: "the combinational cells form a cycle"}
        if diag != 0:
            bad.append(("wf:%d" % diag, "the verified checker rejects the netlist: %s%s" % (names.get(diag, "?"), ("; " + pw[0]) if pw else "")))
        if (diag == 0) != (not pw):
            # python and model disagree: only report when python sees a problem the model does not (model bug otherwise)
            if pw and diag == 0:
                bad.append(("wf-python", "independent check: " + pw[0]))
    # (iii) NetDriver bookkeeping
    for w in check_drivers(g, drv):
        bad.append(("netdriver", w))
    # (ii) area
    rep_total, rep_comb, rep_seq, rep_mem = fr(A[1]), fr(A[2]), fr(A[3]), fr(A[4])
    ffc, rbits = int(A[5]), int(A[6])
    comb = sum((area_of[k] for k, _, _ in g.cells), Fraction(0))
    seq = len(g.ffs) * libt["ff_area"]
    bits_ = sum(r["depth"] * r["width"] for r in g.rams)
    mem = bits_ * libt["ff_area"] * tr["sram"]["bit_area_factor"]
    total = comb + seq + mem

    def close(a, b):
        return abs(a - b) <= abs(b) * Fraction(1, 10 ** 12) + Fraction(1, 10 ** 9)
    if ffc != len(g.ffs) or rbits != bits_:
        bad.append(("area-counts", "report says %d flip-flops / %d RAM bits, the netlist has %d / %d" % (ffc, rbits, len(g.ffs), bits_)))
    for nm, rep, ex in (("total", rep_total, total), ("combinational", rep_comb, comb), ("sequential", rep_seq, seq), ("memory", rep_mem, mem)):
        if not close(rep, ex):
            bad.append(("area-" + nm, "reported %s area %s, the sum of the library areas over the netlist is %s" % (nm, float(rep), float(ex))))
    kinds = {}
    for k, _, _ in g.cells:
        kinds[k] = kinds.get(k, 0) + 1
    repk = {}
    for it in A[7:]:
        k, c, a = it.split(":")
        repk[k] = (int(c), fr(a))
    if set(repk) != set(kinds) or any(repk[k][0] != kinds[k] or not close(repk[k][1], kinds[k] * area_of[k]) for k in kinds):
        bad.append(("area-by-kind", "per-kind rows %s do not match the netlist's cell counts %s" % ({k: v[0] for k, v in repk.items()}, kinds)))
    # bit-exact reproduction of the f64 sum (same order as compute_area)
    s = 0.0
    for k, _, _ in g.cells:
        s += float(area_of[k])
    info["area_bit_exact"] = (Fraction(s) == rep_comb)
    if mt is not None:
        ma = [int(x) for x in mt["area"].split(",")]
        if Fraction(ma[0], SCALE * SCALE) != total or Fraction(ma[1], SCALE) != comb or ma[4] != bits_:
            bad.append(("model-area", "model area %s differs from the python sum %s" % (ma, float(total))))
    # (ii) timing
    nodes = comb_nodes(g, delay_of, access)
    arr, lev = py_longest(nodes)
    rep_delay = fr(T[1])
    rep_depth = int(T[2])
    rep_ep = T[3]
    path = [(int(x.split(":")[0]), x.split(":")[1], fr(x.split(":")[2])) for x in T[4:]]
    eps = endpoints_of(g)
    tol = Fraction(1, 10 ** 9) + len(g.rams) * Fraction(1, 10 ** 6)
    if arr is not None:
        best = max([arr.get(e, Fraction(0)) for e in eps] + [Fraction(0)])
        gdepth = max([lev.get(e, 0) for e in eps] + [0])
        info["path_len"] = len(path)
        if abs(rep_delay - best) > tol:
            bad.append(("timing-delay", "critical_path_delay %r, the longest combinational path to an endpoint is %r" % (float(rep_delay), float(best))))
        if path:
            end_net = path[-1][0]
            if end_net not in eps:
                bad.append(("timing-endpoint", "the reported path ends at net %d, which is not an endpoint" % end_net))
            else:
                if abs(arr.get(end_net, Fraction(0)) - rep_delay) > tol:
                    bad.append(("timing-endpoint", "the reported end net %d has longest arrival %r, the report says %r"
                                % (end_net, float(arr.get(end_net, 0)), float(rep_delay))))
                if lev.get(end_net, 0) != rep_depth:
                    bad.append(("timing-depth", "critical_path_depth %d, the longest path (in non-buffer cells) to the reported end net %d has %d"
                                % (rep_depth, end_net, lev.get(end_net, 0))))
                info["depth_is_global_max"] = (rep_depth == gdepth)
            # the path is a real chain: every step's net is driven by a node fed by the previous step's net
            for (n0, k0, a0), (n1, k1, a1) in zip(path, path[1:]):
                if n1 == n0 and (k1.startswith("ffd") or k1 == "portout" or k1.startswith("ramw")):
                    continue
                ok_step = any(n1 in outs and n0 in ins for ins, outs, d, l in nodes)
                if not ok_step:
                    bad.append(("timing-path", "reported path step net %d -> net %d is not an edge of the netlist" % (n0, n1)))
                    break
            for n_, k_, a_ in path:
                if abs(arr.get(n_, Fraction(0)) - a_) > tol:
                    bad.append(("timing-path", "reported arrival %r at net %d, the longest path to it is %r" % (float(a_), n_, float(arr.get(n_, 0)))))
                    break
        elif eps and best > tol:
            bad.append(("timing-path", "no path reported although the longest path has delay %r" % float(best)))
        if mt is not None and mt["delay"] != "none":
            md = Fraction(int(mt["delay"]), SCALE)
            if abs(md - best) > tol:
                bad.append(("model-delay", "model critical delay %r differs from the python longest path %r" % (float(md), float(best))))
            mep = {}
            for it in mt["ep"].split(","):
                if it:
                    e, a, d = it.split(":")
                    mep[int(e)] = (Fraction(int(a), SCALE), int(d))
            if path and path[-1][0] in mep:
                if mep[path[-1][0]][1] != rep_depth or abs(mep[path[-1][0]][0] - rep_delay) > tol:
                    bad.append(("timing-depth", "model: end net %d has arrival %r depth %d; report says %r / %d"
                                % (path[-1][0], float(mep[path[-1][0]][0]), mep[path[-1][0]][1], float(rep_delay), rep_depth)))
            for e in eps:
                if e in mep and (abs(mep[e][0] - arr.get(e, Fraction(0))) > tol or mep[e][1] != lev.get(e, 0)):
                    bad.append(("model-delay", "model and python disagree on endpoint net %d" % e))
                    break
    info["tags_lib"] = lib
    return bad, info


def model_input(tr, lib, result):
    parts = result.split(" # ")
    L = parts[4].split(" ")
    access = [int(round(fr(x) * SCALE)) for x in L[6:]]
    li = [l["variant"] for l in tr["libs"]].index(LIB_VARIANT[lib])
    return "nl %d %s | %s" % (li, ",".join(str(a) for a in access) if access else "-", parts[1])


def configs_for(rng, tier):
    if tier == "quick":
        c = [(l, RAM_DEFAULT) for l in LIBS]
        c.append((rng.choice(LIBS), RAM_SMALL))
        return c
    return [(l, r) for l in LIBS for r in (RAM_DEFAULT, RAM_SMALL)]


def cfg_text(cfgs):
    return ";".join("%s:%s" % (l, ",".join(str(x) for x in r)) for l, r in cfgs)


def run(tier, seed, replay):
    res = C.Result(PID, "proof", tier, seed)
    res.coverage["trusted_base"] = C.std_trusted_base([
        "model: coq/Gate/NetlistModel.v (ir.rs GateModule; nets as N; RAM access delay supplied as data)",
        "translator translators/cells.py (regex extraction of CellKind / arity / symbol / library tables / SRAM factors)",
        "vh-synth harness (harness/synth: synthesize_with + reports, default cargo features) and the OCaml driver harness/synth/ocaml/driver.ml",
        "python recomputation vp/props/c20.py (independent wf / area / longest path / driver table)"])
    res.assumptions = [
        "f64 sums are compared with exact rational sums under a stated bound (area 1e-12 relative + 1e-9, delay 1e-9 + 1e-6 per RAM)",
        "the RAM access time base + slope*log2(depth) is taken from the implementation per RAM and cross-checked to 1e-9",
        "critical_path_depth is compared with the longest path (in non-Buf nodes) to the reported end net, which is what compute_timing defines",
        "usize overflow is not modelled"]
    rng = random.Random(seed * 7907 + 20)

    T = _translator()
    try:
        tr = T.translate(C.REPO, C.COQ)
        res.obligation("translator cells.py found its anchors in ir.rs / library.rs / library/*.rs", True)
        res.coverage["translated"] = {"kinds": tr["kinds"], "libraries": [l["variant"] for l in tr["libs"]],
                                      "sram": {k: str(v) for k, v in tr["sram"].items()},
                                      "sky130_and2": [str(x) for x in tr["libs"][0]["table"].get("And2", ())]}
    except T.TranslateError as ex:
        res.obligation("translator cells.py found its anchors", False, str(ex))
        res.violation("translator", "translator cells.py no longer finds its pattern: %s" % ex,
                      {"no_longer_checks": "Gate/GeneratedCells.v regeneration"}, no_input=True)
        return res.finish()
    if set(tr["symbol"].values()) != set(G.CELL_FUN) or any(G.CELL_FUN[tr["symbol"][k]][0] != tr["arity"][k] for k in tr["kinds"]):
        res.violation("cell-kinds", "CellKind variants / arities changed: %s" % {tr["symbol"][k]: tr["arity"][k] for k in tr["kinds"]},
                      {"no_longer_checks": "python cell table vp/gen/gates.py CELL_FUN"}, no_input=True)

    proved = C.prove(res, PID)

    ok, binary, log = C.harness_build("vh-synth")
    res.obligation("harness build vh-synth from the working tree", ok, log[-400:])
    if not ok:
        res.violation("harness-build", "vh-synth no longer builds against the tree: " + log[-300:], {"log": log[-2500:]}, no_input=True)
        return res.finish()
    mok, model, mlog = model_build()
    res.obligation("OCaml extraction of the Gallina model builds", mok, mlog[-400:])

    def run_cases(cases):
        """cases: list of (design, cfgs).  Returns list of (design, cfg, result text or status)"""
        lines = ["synth %s %s %s" % (G.hexsrc(d["src"]), d["top"], cfg_text(cf)) for d, cf in cases]
        outs = C.run_lines(binary, lines, timeout=3000)
        flat = []
        for (d, cf), o in zip(cases, outs):
            if not o.startswith("OK "):
                flat.append((d, None, o))
                continue
            for c, r in zip(cf, o[3:].split(" || ")):
                flat.append((d, c, r))
        return flat

    def judge_all(flat):
        oks = [(d, c, r) for d, c, r in flat if c is not None and r.startswith("ok # ")]
        mlines = [model_input(tr, c[0], r) for d, c, r in oks]
        mo = C.run_lines(model, mlines, timeout=3000) if mok else ["ERR nomodel"] * len(mlines)
        out = []
        for (d, c, r), ml in zip(oks, mo):
            bad, info = judge(tr, c, r, ml)
            out.append((d, c, r, bad, info))
        return out

    if replay:
        rp = json.load(open(replay))
        d = {"src": rp["src"], "top": rp.get("top", "Top"), "tags": rp.get("tags", [])}
        cf = [(rp["lib"], rp["ram"])]
        flat = run_cases([(d, cf)])
        for d_, c, r, bad, info in judge_all(flat):
            print("replay:", c, info)
            for k, w in bad:
                res.violation(k, w, rp)
        for d_, c, r in flat:
            if c is None or r.startswith("panic"):
                res.violation("synth-panic", str(r)[:300], rp)
        return res.finish()

    designs = []
    corpus_dir = os.path.join(C.VERIF, "corpus", PID)
    if os.path.isdir(corpus_dir):
        for f in sorted(os.listdir(corpus_dir)):
            if f.endswith(".veryl"):
                designs.append({"src": open(os.path.join(corpus_dir, f)).read(), "top": "Top", "tags": ["corpus", f]})
    nd = 40 if tier == "quick" else 400
    designs += G.gen_designs(rng, nd)
    nsd = 22 if tier == "quick" else 330
    try:
        from ..gen import synthdesigns as SD
        for d in SD.gen_designs(random.Random(seed * 31 + 7), nsd):
            designs.append({"src": d["src"], "top": d["top"], "tags": ["sd:" + d["family"]] + list(d.get("tags", []))[:2]})
    except Exception as ex:
        res.notes.append("synthdesigns generator not usable: %s" % ex)
    cases = [(d, configs_for(rng, tier)) for d in designs]
    flat = run_cases(cases)
    nres = 0
    for d, c, r in flat:
        if c is None:
            res.hist("design_status", "rejected" if r.startswith("ERR") else "panic")
            if not r.startswith("ERR"):
                res.violation("synth-panic", "the harness / synthesizer crashed: %s" % r[:300], {"src": d["src"], "top": d["top"], "tags": d["tags"]})
            continue
        st = r.split(" ")[0]
        res.hist("design_status", st)
        if st == "panic":
            res.violation("synth-panic", "synthesize_with panicked: %s" % r[:300],
                          {"src": d["src"], "top": d["top"], "tags": d["tags"], "lib": c[0], "ram": c[1]})
    judged = judge_all(flat)
    distinct = set()
    reported = set()
    nbad = 0
    exact = 0
    for d, c, r, bad, info in judged:
        nres += 1
        res.hist("families", d["tags"][0])
        res.hist("libraries", c[0])
        res.hist("ram_config", "default" if c[1] == RAM_DEFAULT else "small")
        res.hist("netlist_size", "cells<10" if info["cells"] < 10 else "cells<100" if info["cells"] < 100 else "cells<1000" if info["cells"] < 1000 else "cells>=1000")
        if info["rams"]:
            res.hist("with", "ram")
        if info["ffs"]:
            res.hist("with", "ff")
        if info.get("area_bit_exact"):
            exact += 1
        if "depth_is_global_max" in info:
            res.hist("reported_depth_is_global_longest", str(info["depth_is_global_max"]))
        if info["cells"] >= 3:
            distinct.add(r.split(" # ")[1])
        if nres <= 3:
            res.sample({"tags": d["tags"], "lib": c[0], "ram": c[1], "info": {k: v for k, v in info.items()}})
        for k, w in bad:
            nbad += 1
            if k in reported:
                continue
            reported.add(k)
            res.violation(k, w, {"src": d["src"], "top": d["top"], "tags": d["tags"], "lib": c[0], "ram": c[1],
                                 "netlist": r.split(" # ")[1][:4000], "report": " # ".join(r.split(" # ")[2:])[:2000]})
    res.coverage["evaluations"] = nres
    res.coverage["netlists_checked"] = nres
    res.coverage["area_f64_sum_reproduced_bit_exactly"] = exact
    res.coverage["distinct_nontrivial"] = len(distinct)
    res.coverage["rule"] = ("designs from vp/gen/gates.py (expr, arith, mux, regs x reset/clock kinds, arrays below/at/above the RAM threshold incl. "
                            "logic in front of RAM pins, hierarchy, gated clock/reset) and vp/gen/synthdesigns.py (11 families, widths to 70) x every "
                            "built-in library x RamConfig default/small; distinct_nontrivial = distinct netlist texts with >= 3 cells")
    res.obligation("every synthesized netlist accepted by the verified checker, reports reproduced, NetDriver table consistent (%d netlists)" % nres,
                   nbad == 0 and nres > 0)
    if nres == 0 and not res.violations:
        res.violation("no-netlists", "no design could be synthesized", {"no_longer_checks": "translation validation"}, no_input=True)
    if not proved and not res.violations:
        pf = getattr(res, "proof_failure", {})
        res.violation("proof", "Props/C20.v is no longer established: %s" % pf.get("where", "audit"),
                      {"no_longer_checks": "theorems of Props/C20.v", **pf}, no_input=True)
    return res.finish()
