"""C36 — Value encodings at external boundaries are lossless and standard.

proof:   coq/Props/C36.v (svLogicVecVal conversions of value.rs, both representations; to_vcd_value,
         VcdValueIter, to_fst_bits) — Annex H per bit, both round trips, length, MSB-first renderings
tie:     correspondence of `From<&Value> for Vec<SvLogicVecVal>`, `From<&[SvLogicVecVal]> for Value`,
         `Value::to_vcd_value`, `(&Value).into_iter()`, `Value::to_fst_bits` (vh-value harness) with the
         model, exhaustive for small widths and boundary-biased random up to 300 bits
oracle:  the property itself evaluated in python on the implementation's outputs: Annex H code of every
         bit, zero padding, word count, value->words->value and words->value->words, bit strings
"""
import json
import os
import random

from .. import common as C

PID = "C36"

MANIFEST = {
    "category": "proof",
    "technique": "Coq proof (bit-level, all widths) + correspondence with the real conversions + the property's oracle on their outputs",
    "text": "Theorems over the Gallina transcription of the svLogicVecVal conversions (U64 arm with >>= 32, BigUint arm with u32 "
            "digits, the slice-to-Value fold for both representations) and of to_vcd_value / VcdValueIter / to_fst_bits: every bit of "
            "every word is the IEEE 1800 Annex H code of the corresponding 4-state bit (0=(0,0) 1=(1,0) Z=(0,1) X=(1,1) as aval/bval), "
            "padding is zero, the word count is ceil(width/32), value->words->value returns payload and mask (width rounded up to a "
            "multiple of 32), words->value->words is the identity on u32 words, both arms agree, the VCD iterator and the FST byte "
            "string list bit i of the value MSB first. Tied to veryl_analyzer::value by exact comparison on all 4^w values for w<=5 "
            "(6 thorough) in both representations and random/boundary values up to 300 bits; the property's own predicates are "
            "evaluated on the implementation's outputs. End to end (validated, not proved): the real cosim entry points "
            "(cosim_set / cosim_get / cosim_step_clock on sequences of ports of widths 1..128 into ONE reused destination buffer: "
            "Annex H words of Simulator::get and zero padding of all four words) and real VCD dumps of a 4-state design "
            "(every dumped value at every time = Simulator::get_var, including transitions where only mask_xz changes).",
    "note": "Trusted: Coq kernel; hand-written model coq/SvLogic/SvModel.v + coq/Value/ValueModel.v; our reading of Annex H; OCaml "
            "extraction (ExtrOcamlBasic) + driver cross-checked against vm_compute on a sample each run; vh-value harness; python "
            "generator and oracle. No axioms. Hypotheses: payload and mask below 2^width (fits), aval/bval are u32 (words_ok). The "
            "cosim and VCD streams (vh-wave harness, one fixed design with input/output/registered ports of widths 1, 8, 33, 70, 128; "
            "VCD parsed in python) are differential validation against Simulator::get, outside the theorems. NOT covered: FST files "
            "end to end (no reader installed; only to_fst_bits), hierarchical/array variables in dumps, the DPI caller side of cosim; "
            "width is u32 in the code and unbounded in the model.",
}

COQ_PRE = """From VV Require Import Value.ValueModel SvLogic.SvModel.
Open Scope N_scope.
Definition obs5 (v : value) := (match rp v with RU => 0 | RB => 1 end, pl v, mk v, wd v, if sg v then 1 else 0).
"""

EXTRACT_V = COQ_PRE + """
Require Extraction. Require Import ExtrOcamlBasic.
Definition n_push (n : N) (b : bool) : N := if b then N.succ_double n else N.double n.
Fixpoint pos_bits (p : positive) : list bool :=
  match p with xH => [true] | xO q => false :: pos_bits q | xI q => true :: pos_bits q end.
Definition n_bits (n : N) : list bool := match n with N0 => [] | Npos p => pos_bits p end.
Definition mk_value (r : bool) (p m w : N) (s : bool) : value := mkV (if r then RB else RU) p m w s.
Extraction "c36_model.ml" to_sv of_sv to_fst_bits vcd_iter to_vcd obs5 n_push n_bits mk_value.
"""

DRIVER_ML = r"""
open C36_model
let n_of_hex (s : string) : n =
  let r = ref N0 in
  String.iter (fun c ->
    let d = if c >= '0' && c <= '9' then Char.code c - 48 else Char.code c - 87 in
    for k = 3 downto 0 do r := n_push !r ((d lsr k) land 1 = 1) done) s;
  !r
let hex_of_n (x : n) : string =
  let bits = Array.of_list (n_bits x) in
  let len = Array.length bits in
  if len = 0 then "0" else begin
    let nd = (len + 3) / 4 in
    let b = Bytes.create nd in
    for d = 0 to nd - 1 do
      let v = ref 0 in
      for k = 0 to 3 do let i = d * 4 + k in if i < len && bits.(i) then v := !v lor (1 lsl k) done;
      Bytes.set b (nd - 1 - d) "0123456789abcdef".[!v]
    done;
    Bytes.to_string b end
let value t i =
  mk_value (t.(i) = "B") (n_of_hex t.(i + 1)) (n_of_hex t.(i + 2)) (n_of_hex t.(i + 3)) (t.(i + 4) = "1")
let () =
  try
    while true do
      let line = input_line stdin in
      let t = Array.of_list (String.split_on_char ' ' (String.trim line)) in
      let out =
        match t.(0) with
        | "TOSV" ->
            let ws = to_sv (value t 1) in
            String.concat " " ("W" :: List.concat_map (fun (a, b) -> [hex_of_n a; hex_of_n b]) ws)
        | "OFSV" ->
            let n = int_of_string t.(1) in
            let ws = List.init n (fun i -> (n_of_hex t.(2 + 2 * i), n_of_hex t.(3 + 2 * i))) in
            let ((((r, p), m), w), s) = obs5 (of_sv ws) in
            Printf.sprintf "V %s %s %s %s %s" (hex_of_n r) (hex_of_n p) (hex_of_n m) (hex_of_n w) (hex_of_n s)
        | "FST" -> String.concat " " ("L" :: List.map hex_of_n (to_fst_bits (value t 1)))
        | "VCDIT" -> String.concat " " ("L" :: List.map hex_of_n (vcd_iter (value t 1)))
        | "VCD" -> "L " ^ hex_of_n (to_vcd (value t 2) (n_of_hex t.(1)))
        | c -> failwith c in
      print_string (out ^ "\n")
    done
  with End_of_file -> ()
"""

BOUNDARY_W = [1, 2, 7, 8, 31, 32, 33, 63, 64, 65, 95, 96, 97, 127, 128, 129, 191, 192, 193, 255, 256, 257, 299, 300]
VCD_CH = "01xz"


def val(p, m, w, s=0, rep=None):
    return (rep or ("U" if w <= 64 else "B"), p, m, w, s)


def wire(v):
    return "%s %d %d %d %d" % v


def hexv(v):
    return "%s %x %x %x %d" % v


def coqv(v):
    return "(mkV %s %d %d %d %s)" % ("RU" if v[0] == "U" else "RB", v[1], v[2], v[3], "true" if v[4] else "false")


def bit4(v, i):
    """4-state bit i of a value as '0','1','x','z' (veryl: payload/mask_xz)"""
    p = (v[1] >> i) & 1
    m = (v[2] >> i) & 1
    return "z" if (m and p) else "x" if m else "1" if p else "0"


ANNEX_H = {"0": (0, 0), "1": (1, 0), "z": (0, 1), "x": (1, 1)}     # (aval bit, bval bit)


def gen_values(rng, tier):
    maxw = 5 if tier == "quick" else 6
    vals = []
    for w in range(0, maxw + 1):
        for p in range(1 << w):
            for m in range(1 << w):
                vals.append(val(p, m, w, 0))
                if w > 0:
                    vals.append(val(p, m, w, 1, rep="B"))      # the same number on the BigUint arm
    n = 1500 if tier == "quick" else 40000
    for _ in range(n):
        w = rng.choice(BOUNDARY_W) if rng.random() < 0.6 else rng.randint(1, 300)
        top = (1 << w) - 1
        r = rng.random()
        p = rng.choice([0, top, 1, 1 << (w - 1), top >> 1, rng.getrandbits(w)]) if r < 0.5 else rng.getrandbits(w)
        r = rng.random()
        m = 0 if r < 0.25 else top if r < 0.35 else (1 << (w - 1)) if r < 0.45 else 1 if r < 0.5 else rng.getrandbits(w)
        if rng.random() < 0.15 and w >= 33:
            # x/z confined to one 32-bit word, payload in another: catches word-order mistakes
            k = rng.randrange((w + 31) // 32)
            m = (0xffffffff << (32 * k)) & top
        rep = None
        if w <= 64 and rng.random() < 0.3:
            rep = "B"
        vals.append(val(p, m, w, rng.randint(0, 1), rep=rep))
    return vals


def gen_words(rng, tier):
    small = [0, 1, 0x80000000, 0xffffffff]
    out = [[]]
    for a in small:
        for b in small:
            out.append([(a, b)])
    for _ in range(400 if tier == "quick" else 6000):
        n = rng.choice([1, 2, 2, 3, 3, 4, 5, 8, 10])
        ws = []
        for _ in range(n):
            a = rng.choice(small) if rng.random() < 0.4 else rng.getrandbits(32)
            b = rng.choice(small) if rng.random() < 0.5 else rng.getrandbits(32)
            ws.append((a, b))
        out.append(ws)
    return out


def impl_lines(vals, words):
    lines = []
    for v in vals:
        lines += ["TOSV " + wire(v), "RTSV " + wire(v), "FST " + wire(v), "VCDIT " + wire(v)]
    for ws in words:
        lines.append("OFSV %d %s" % (len(ws), " ".join("%d %d" % ab for ab in ws)))
    return lines


def parse_impl(ln):
    t = ln.split()
    if not t or t[0] in ("PANIC", "CRASH"):
        return ("PANIC",)
    if t[0] == "OKSV":
        n = int(t[1])
        return ("W", tuple((int(t[2 + 2 * i]), int(t[3 + 2 * i])) for i in range(n)))
    if t[0] == "OK":
        return ("V", 0 if t[1] == "U" else 1, int(t[2]), int(t[3]), int(t[4]), int(t[5]))
    if t[0] == "OKFST":
        return ("S", "".join(chr(int(c)) for c in t[1:]))
    if t[0] == "OKVCD":
        return ("S", t[1] if len(t) > 1 else "")
    return ("?", ln)


def model_lines(vals, words):
    lines = []
    for v in vals:
        lines += ["TOSV " + hexv(v), None, "FST " + hexv(v), "VCDIT " + hexv(v)]
    for ws in words:
        lines.append("OFSV %d %s" % (len(ws), " ".join("%x %x" % ab for ab in ws)))
    return lines


def parse_model(ln, kind):
    t = ln.split()
    if t[0] == "W":
        h = [int(x, 16) for x in t[1:]]
        return ("W", tuple((h[2 * i], h[2 * i + 1]) for i in range(len(h) // 2)))
    if t[0] == "V":
        return ("V",) + tuple(int(x, 16) for x in t[1:])
    codes = [int(x, 16) for x in t[1:]]
    if kind == "FST":
        return ("S", "".join(chr(c) for c in codes))
    return ("S", "".join(VCD_CH[c] for c in codes))


def oracle_value(v, tosv, rtsv, fst, vcd):
    """the property on the implementation's outputs for one value; returns list of (key, text)"""
    bad = []
    w = v[3]
    nwords = (w + 31) // 32
    if tosv[0] != "W":
        return [("to_sv:panic", "conversion to svLogicVecVal panicked")]
    ws = tosv[1]
    if len(ws) != nwords:
        bad.append(("to_sv:length", "%d words for width %d, ceil(width/32) = %d" % (len(ws), w, nwords)))
    for k in range(min(len(ws) * 32, max(w, len(ws) * 32))):
        a, b = ws[k // 32]
        got = ((a >> (k % 32)) & 1, (b >> (k % 32)) & 1)
        want = ANNEX_H[bit4(v, k)] if k < w else (0, 0)
        if got != want:
            bad.append(("to_sv:annex-h" if k < w else "to_sv:padding",
                        "bit %d is %s: (aval,bval) bit = %s, Annex H gives %s" % (k, bit4(v, k) if k < w else "padding", got, want)))
            break
    if rtsv[0] != "V" or (rtsv[2], rtsv[3]) != (v[1], v[2]) or rtsv[4] != 32 * nwords:
        bad.append(("roundtrip:value", "value -> words -> value gives %s, expected payload %d mask %d width %d" % (rtsv, v[1], v[2], 32 * nwords)))
    want = "".join(bit4(v, i) for i in range(w - 1, -1, -1))
    if fst != ("S", want):
        bad.append(("fst:bits", "to_fst_bits gives %r, value is %r (MSB first)" % (fst[1] if len(fst) > 1 else fst, want)))
    if vcd != ("S", want):
        bad.append(("vcd:bits", "VCD vector gives %r, value is %r (MSB first)" % (vcd[1] if len(vcd) > 1 else vcd, want)))
    return bad


# ------------------------------------------------------------------ end-to-end streams (vh-wave)
DESIGN = """module Top (
    clk : input  clock,
    a1  : input  logic,
    a8  : input  logic<8>,
    a33 : input  logic<33>,
    a70 : input  logic<70>,
    a128: input  logic<128>,
    y1  : output logic,
    y8  : output logic<8>,
    y33 : output logic<33>,
    y70 : output logic<70>,
    y128: output logic<128>,
    q8  : output logic<8>,
    q70 : output logic<70>,
) {
    assign y1   = a1;
    assign y8   = a8;
    assign y33  = a33;
    assign y70  = a70;
    assign y128 = a128;
    always_ff {
        q8  = a8;
        q70 = a70;
    }
}
"""
IN_W = {"a1": 1, "a8": 8, "a33": 33, "a70": 70, "a128": 128}
OUT_OF = {"y1": "a1", "y8": "a8", "y33": "a33", "y70": "a70", "y128": "a128"}
ALL_VARS = ["a1", "a8", "a33", "a70", "a128", "y1", "y8", "y33", "y70", "y128", "q8", "q70"]


def encode_words(p, m, w, n=4):
    """Annex H words of a value, zero padded to n words"""
    ws = []
    for i in range(n):
        if 32 * i < w:
            pi = (p >> (32 * i)) & 0xffffffff
            mi = (m >> (32 * i)) & 0xffffffff
            ws.append((pi ^ mi, mi))
        else:
            ws.append((0, 0))
    return ws


def rand_pm(rng, w, four):
    top = (1 << w) - 1
    p = rng.choice([0, top, 1, 1 << (w - 1), rng.getrandbits(w), rng.getrandbits(w)])
    m = 0
    if four and rng.random() < 0.6:
        m = rng.choice([top, 1, 1 << (w - 1), rng.getrandbits(w), (0xffffffff << (32 * rng.randrange((w + 31) // 32))) & top])
    return p, m


def cosim_cases(rng, path, n):
    """sequences of cosim_set / cosim_get on ports of different widths into ONE reused buffer"""
    lines = []
    for k in range(n):
        four = 1 if k % 4 != 3 else 0
        ops = []
        for _ in range(rng.randint(4, 9)):
            a = rng.choice(list(IN_W))
            p, m = rand_pm(rng, IN_W[a], four)
            ws = encode_words(p, m, IN_W[a])
            ops.append("set:%s:%s" % (a, ",".join("%d,%d" % ab for ab in ws)))
            if rng.random() < 0.5:
                ops.append("get:" + rng.choice(list(OUT_OF)))
        # wide then narrow into the same buffer: stale upper words must be cleared
        order = ["y128", rng.choice(["y1", "y8"]), "y70", "y33", rng.choice(["y1", "y8"]), "y128", "y70", "y8"]
        ops += ["get:" + o for o in order]
        ops.append("clk:clk")
        ops += ["get:q8", "get:y128", "get:q70", "get:y1"]
        lines.append("COSIM %d %s Top %s" % (four, path, " ".join(ops)))
    return lines


def check_cosim(line, out, note):
    if not out.startswith("OK"):
        note("cosim:panic", "cosim sequence panicked: %s" % line[:200], {"line": line})
        return 0
    n = 0
    for part in out.split(" ; ")[1:]:
        left, right = part.split(" | ")
        t = left.split()
        port = t[1]
        words = [(int(t[2 + 2 * i]), int(t[3 + 2 * i])) for i in range(4)]
        r = right.split()
        p, m, w = int(r[1]), int(r[2]), int(r[3])
        want = encode_words(p, m, w)
        n += 1
        if words != want:
            k = next(i for i in range(4) if words[i] != want[i])
            kind = "cosim_get:stale-padding" if 32 * k >= w else "cosim_get:annex-h"
            note(kind, "cosim_get(%s) left word %d = %s in the destination, Simulator::get is payload %d mask %d width %d -> Annex H word %s "
                       "(all 4 destination words: %s)" % (port, k, words[k], p, m, w, want[k], words), {"line": line, "port": port})
    return n


def dump_cases(rng, path, d, n):
    lines = []
    for k in range(n):
        four = 1 if k % 3 != 2 else 0
        out = os.path.join(d, "w%d.vcd" % k)
        ops = []
        cur = {}
        for a, w in IN_W.items():
            cur[a] = rand_pm(rng, w, four)
            ops.append("set:%s:%d:%d:%d" % (a, cur[a][0], cur[a][1], w))
        ops.append("start")
        for _ in range(rng.randint(6, 12)):
            for a, w in IN_W.items():
                r = rng.random()
                p, m = cur[a]
                top = (1 << w) - 1
                if r < 0.3:
                    continue                                   # unchanged
                if four and r < 0.6:
                    # ONLY the mask changes: 0 <-> x, 1 <-> z on some bits
                    m = m ^ rng.choice([top, 1, 1 << (w - 1), rng.getrandbits(w) or 1])
                elif r < 0.8:
                    p = p ^ rng.choice([top, 1, 1 << (w - 1), rng.getrandbits(w) or 1])
                else:
                    p, m = rand_pm(rng, w, four)
                cur[a] = (p, m)
                ops.append("set:%s:%d:%d:%d" % (a, p, m, w))
            ops.append("step")
        lines.append(("DUMP %d %s Top vcd %s clk %s %s" % (four, path, out, ",".join(ALL_VARS), " ".join(ops)), out))
    return lines


def parse_vcd(text):
    """-> (name -> (id, width), [(time, id, bits)]) ; scalar changes become 1-character bit strings"""
    names = {}
    changes = []
    t = 0
    in_defs = True
    toks = text.split()
    i = 0
    while i < len(toks):
        k = toks[i]
        if in_defs:
            if k == "$var":
                names[toks[i + 4]] = (toks[i + 3], int(toks[i + 2]))
                i += 5
            elif k == "$enddefinitions":
                in_defs = False
                i += 1
            else:
                i += 1
            continue
        if k.startswith("#"):
            t = int(k[1:])
        elif k.startswith("b") or k.startswith("B"):
            changes.append((t, toks[i + 1], k[1:].lower()))
            i += 1
        elif k[0] in "01xzXZ" and len(k) > 1:
            changes.append((t, k[1:], k[0].lower()))
        i += 1
    return names, changes


def check_dump(line, vcd_path, out, note):
    if not out.startswith("OK"):
        note("dump:panic", "simulation with VCD dumping panicked: %s" % line[:200], {"line": line})
        return 0
    names, changes = parse_vcd(open(vcd_path).read())
    samples = []
    for part in out.split(" ; ")[1:]:
        t = part.split()
        vals = {}
        for kv in t[2:]:
            name, v = kv.split("=")
            if v != "?":
                p, m, w = v.split("/")
                vals[name] = (int(p), int(m), int(w))
        samples.append((int(t[1]), vals))
    cur = {}
    ci = 0
    n = 0
    for T, vals in samples:
        while ci < len(changes) and changes[ci][0] <= T:
            cur[changes[ci][1]] = changes[ci][2]
            ci += 1
        for name, (p, m, w) in vals.items():
            if name not in names:
                note("dump:missing-var", "variable %s is not declared in the VCD" % name, {"line": line})
                continue
            ident, vw = names[name]
            want = "".join(bit4(("U", p, m, w, 0), i) for i in range(w - 1, -1, -1))
            got = cur.get(ident)
            n += 1
            if got is None:
                note("dump:no-value", "no value dumped for %s up to time %d; the simulator holds %s" % (name, T, want), {"line": line})
                continue
            # VCD allows left-truncated vectors (extension by 0, or by x/z when the leftmost bit is x/z)
            if len(got) < w:
                fill = got[0] if got[0] in "xz" else "0"
                got = fill * (w - len(got)) + got
            if got != want or vw != w:
                note("dump:value", "time %d: the VCD holds %s = %s, Simulator::get gives %s (payload %d mask %d width %d)" % (T, name, got, want, p, m, w),
                     {"line": line, "time": T, "var": name})
    return n


def e2e_streams(res, rng, tier, note):
    ok, wbin, log = C.harness_build("vh-wave")
    res.obligation("harness build vh-wave (cosim entry points + simulator with WaveDumper) from /repo working tree", ok, log[-400:])
    if not ok:
        res.violation("harness-build-wave", "the wave/cosim harness no longer builds against /repo: " + log[-300:], {"log": log[-2000:]}, no_input=True)
        return 0
    d = C.scratch_dir("c36")
    try:
        path = os.path.join(d, "top.veryl")
        open(path, "w").write(DESIGN)
        cl = cosim_cases(rng, path, 12 if tier == "quick" else 120)
        dl = dump_cases(rng, path, d, 9 if tier == "quick" else 90)
        outs = C.run_lines(wbin, cl + [x[0] for x in dl], timeout=900, nshards=8)
        n = 0
        for line, out in zip(cl, outs[:len(cl)]):
            n += check_cosim(line, out, note)
        m = 0
        for (line, vcd), out in zip(dl, outs[len(cl):]):
            m += check_dump(line, vcd, out, note)
        res.coverage["cosim_get_calls_checked"] = n
        res.coverage["vcd_values_compared_with_simulator_get"] = m
        res.obligation("cosim_get: Annex H words + zero padding of the whole destination on %d calls (reused buffer, widths 1..128)" % n, n > 0)
        res.obligation("VCD dump = Simulator::get at every dumped time: %d values (mask-only transitions included)" % m, m > 0)
        return n + m
    finally:
        import shutil
        shutil.rmtree(d, ignore_errors=True)


def replay_e2e(res, rp):
    """re-execute one recorded COSIM / DUMP line (scratch paths are re-created)"""
    ok, wbin, log = C.harness_build("vh-wave")
    res.obligation("harness build vh-wave from /repo working tree", ok, log[-400:])
    if not ok:
        res.violation("harness-build-wave", "the wave/cosim harness no longer builds", {"log": log[-2000:]}, no_input=True)
        return res.finish()
    d = C.scratch_dir("c36r")
    found = {}

    def note(key, text, r):
        found.setdefault(key, (text, r))
    try:
        t = rp["line"].split()
        path = os.path.join(d, "top.veryl")
        open(path, "w").write(DESIGN)
        t[2] = path
        vcd = None
        if t[0] == "DUMP":
            vcd = os.path.join(d, "w.vcd")
            t[5] = vcd
        line = " ".join(t)
        out = C.run_lines(wbin, [line], nshards=1)[0]
        n = check_cosim(line, out, note) if t[0] == "COSIM" else check_dump(line, vcd, out, note)
        res.coverage["evaluations"] = n
        print("replay: %s ... -> %d values checked, %d predicate(s) violated" % (" ".join(t[:2]), n, len(found)))
    finally:
        import shutil
        shutil.rmtree(d, ignore_errors=True)
    for key, (text, r) in sorted(found.items()):
        res.violation(key, text, {"line": rp["line"]})
    return res.finish()


def run(tier, seed, replay):
    res = C.Result(PID, "proof", tier, seed)
    res.coverage["trusted_base"] = C.std_trusted_base([
        "model: coq/SvLogic/SvModel.v (svLogicVecVal conversions) and to_vcd / vcd_iter / to_fst_bits of coq/Value/ValueModel.v transcribe value.rs; num-bigint assumed exact",
        "our reading of IEEE 1800 Annex H (H.10.1.2): 0=(0,0) 1=(1,0) Z=(0,1) X=(1,1) as (aval, bval)",
        "OCaml extraction of the model (ExtrOcamlBasic only) + driver; a sample of each run is re-evaluated by vm_compute inside Coq",
        "vh-value harness (harness/value) calls the From impls, to_vcd_value, (&Value).into_iter(), to_fst_bits through the public API",
        "vh-wave harness (harness/wave) includes crates/cosim/src/lib.rs by #[path] (the crate is a cdylib) and calls cosim_open/set/get/step_clock; "
        "runs Simulator with WaveDumper::new_vcd; Simulator::get / get_var is the ground truth of the end-to-end streams; python VCD parser",
        "python oracle: Annex H / round trip / bit-string predicates on the implementation's outputs"])
    res.assumptions = ["payload and mask below 2^width (fits); aval and bval are u32 (words_ok)",
                       "end-to-end streams (cosim entry points, VCD files) are validated against Simulator::get on one generated design family, not proved; "
                       "FST files are not read back (no reader): only to_fst_bits is covered"]
    proved = C.prove(res, PID)
    ok, binary, log = C.harness_build("vh-value")
    res.obligation("harness build vh-value (debug) from /repo working tree", ok, log[-400:])
    if not ok:
        res.violation("harness-build", "the value harness no longer builds against /repo: " + log[-300:], {"log": log[-2000:]}, no_input=True)
        return res.finish()

    rng = random.Random(seed * 1000003 + 36)
    if replay:
        rp = json.load(open(replay))
        if "line" in rp:
            return replay_e2e(res, rp)
        vals = [tuple(rp["value"])] if "value" in rp else []
        words = [[tuple(x) for x in rp["words"]]] if "words" in rp else []
        if not vals and not words:
            print("replay: no concrete input recorded (%s)" % rp.get("what", ""))
            if not proved:
                res.violation(rp.get("key", "proof"), "no longer established", {"no_longer_checks": rp.get("no_longer_checks", "")}, no_input=True)
            return res.finish()
    else:
        vals = corpus_values() + gen_values(rng, tier)
        words = gen_words(rng, tier)

    outs = [parse_impl(l) for l in C.run_lines(binary, impl_lines(vals, words))]
    nv = len(vals)
    impl_v = [outs[4 * i:4 * i + 4] for i in range(nv)]
    impl_w = outs[4 * nv:]
    # second pass: words -> value -> words on the implementation
    back = []
    for r in impl_w:
        back.append("TOSV %s %d %d %d %d" % ("U" if r[1] == 0 else "B", r[2], r[3], r[4], r[5]) if r[0] == "V" else "TOSV U 0 0 0 0")
    back_out = [parse_impl(l) for l in C.run_lines(binary, back)] if back else []
    res.coverage["evaluations"] = len(outs) + len(back_out)

    found = {}

    def note(key, text, rp):
        if key not in found:
            found[key] = (text, rp)

    # --- end-to-end: real cosim entry points and real waveform dumps
    if not replay:
        res.coverage["evaluations"] += e2e_streams(res, rng, tier, note)

    # --- the property's oracle on the implementation's outputs
    for v, (tosv, rtsv, fst, vcd) in sorted(zip(vals, impl_v), key=lambda z: (z[0][3], z[0][1] + z[0][2])):
        for key, text in oracle_value(v, tosv, rtsv, fst, vcd):
            note(key, "%s on value %s" % (text, wire(v)), {"value": list(v), "impl": [tosv, rtsv, fst, vcd]})
    for ws, r, bo in sorted(zip(words, impl_w, back_out), key=lambda z: len(z[0])):
        n = len(ws)
        if r[0] != "V":
            note("of_sv:panic", "conversion from %d words panicked" % n, {"words": [list(x) for x in ws]})
            continue
        p = sum(((a ^ b) << (32 * i)) for i, (a, b) in enumerate(ws))
        m = sum((b << (32 * i)) for i, (a, b) in enumerate(ws))
        if (r[2], r[3], r[4]) != (p, m, 32 * n) or r[1] != (0 if 32 * n <= 64 else 1):
            note("of_sv:annex-h", "words %s decode to %s; Annex H gives payload %d mask %d width %d" % (ws, r, p, m, 32 * n),
                 {"words": [list(x) for x in ws], "impl": r})
        if bo != ("W", tuple(ws)):
            note("roundtrip:words", "words -> value -> words gives %s for %s" % (bo, ws), {"words": [list(x) for x in ws], "impl": bo})

    # --- correspondence with the model
    mism = []
    if not replay:
        okm, mbin, mlog = C.ocaml_build("c36", EXTRACT_V, DRIVER_ML)
        res.obligation("extraction of the model to OCaml", okm, mlog[-400:])
        if okm:
            ml = model_lines(vals, words)
            idx = [i for i, l in enumerate(ml) if l is not None]
            mo = C.run_lines(mbin, [ml[i] for i in idx])
            kinds = [ml[i].split()[0] for i in idx]
            model = dict(zip(idx, (parse_model(l, k) for l, k in zip(mo, kinds))))
            for i in idx:
                im = outs[i]
                if im[0] == "V":
                    im = ("V",) + tuple(im[1:])
                if im != model[i]:
                    mism.append(i)
            # guard on the extracted code
            sample = rng.sample(idx, min(len(idx), 200 if tier == "quick" else 2000))
            terms = []
            for i in sample:
                t = ml[i].split()
                if t[0] == "OFSV":
                    ws = words[i - 4 * nv]
                    terms.append("inl (obs5 (of_sv [%s]))" % "; ".join("(%d, %d)" % ab for ab in ws))
                else:
                    v = vals[i // 4]
                    f = {"TOSV": "inr (inl (to_sv %s))", "FST": "inr (inr (to_fst_bits %s))", "VCDIT": "inr (inr (vcd_iter %s))"}[t[0]]
                    terms.append(f % coqv(v))
            gv = C.coq_eval_sharded("c36_guard", COQ_PRE, terms, lambda l: l, shard=200, timeout=1500)
            gbad = 0
            for i, g in zip(sample, gv):
                kind = ml[i].split()[0]
                if kind == "OFSV":
                    got = ("V",) + tuple(g[1])
                elif kind == "TOSV":
                    got = ("W", tuple(tuple(x) for x in g[1][1]))
                elif kind == "FST":
                    got = ("S", "".join(chr(c) for c in g[1][1]))
                else:
                    got = ("S", "".join(VCD_CH[c] for c in g[1][1]))
                if got != model[i]:
                    gbad += 1
            res.obligation("extracted OCaml model = vm_compute inside Coq on %d sampled cases" % len(sample), gbad == 0)
            if gbad:
                raise RuntimeError("extracted C36 model disagrees with Coq on %d cases" % gbad)
            res.obligation("correspondence impl = model on %d conversions / renderings" % len(idx), not mism)
    res.coverage["correspondence_mismatches"] = len(mism)

    for v in vals:
        w = v[3]
        res.hist("width_class", "0" if w == 0 else "<=6" if w <= 6 else "<=32" if w <= 32 else "<=64" if w <= 64 else "<=128" if w <= 128 else ">128")
        res.hist("representation", v[0])
        res.hist("state", "4state" if v[2] else "2state")
    res.coverage["distinct_nontrivial"] = len({v for v in vals if v[3] > 0 and (v[1] or v[2])}) + len({tuple(ws) for ws in words if ws})
    res.coverage["rule"] = ("all 4^w (payload, mask) pairs for widths 0..%d in both representations; random values with widths 1..300 biased to "
                            "31/32/33/63/64/65/95/96/97/127/128/129/.../299/300, corner payloads, x/z confined to single words; word lists of 0..10 "
                            "u32 pairs incl. all corner (aval,bval) pairs; non-trivial = width > 0 and payload or mask non-zero / non-empty word list; "
                            "each value is converted to words, round-tripped, rendered for FST and for VCD" % (5 if tier == "quick" else 6))
    if vals:
        v = vals[len(vals) // 2]
        res.sample({"value": wire(v), "to_sv": impl_v[len(vals) // 2][0], "fst": impl_v[len(vals) // 2][2]})
    for key, (text, rp) in sorted(found.items()):
        res.violation(key, text, rp)
    if mism and not res.violations:
        i = mism[0]
        what = ("value " + wire(vals[i // 4])) if i < 4 * nv else "words %s" % (words[i - 4 * nv],)
        res.violation("correspondence", "implementation and model differ on %s; the property's predicates hold on the explored outputs" % what,
                      {"no_longer_checks": "correspondence value.rs conversions = VV.SvLogic.SvModel", "impl": outs[i],
                       "mismatching_cases": len(mism)}, no_input=True)
    if not proved and not res.violations:
        pf = getattr(res, "proof_failure", {})
        res.violation("proof", "Props/C36.v is no longer established: %s" % pf.get("where", "audit"),
                      {"no_longer_checks": "theorems of Props/C36.v", **pf}, no_input=True)
    return res.finish()


def corpus_values():
    d = os.path.join(C.VERIF, "corpus", PID)
    out = []
    if os.path.isdir(d):
        for f in sorted(os.listdir(d)):
            if f.endswith(".txt"):
                for ln in open(os.path.join(d, f)):
                    ln = ln.split("#")[0].strip()
                    if ln:
                        t = ln.split()
                        out.append((t[0], int(t[1]), int(t[2]), int(t[3]), int(t[4])))
    return out
