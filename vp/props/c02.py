"""C02 — All simulator engines produce identical traces.

proof:   coq/Props/C02.v  (reference semantics: trace independent of the comb evaluation order;
         4-state refines 2-state per clean expression evaluation)
tie:     correspondence  every engine configuration of crates/simulator (interpreter, Cranelift JIT,
         C backend, disable_ff_opt, 4-state)  vs  the extracted reference VV.Rtl.Cycle.step, cycle by
         cycle, on generated µRTL programs x stimuli
oracle:  the property itself: all 2-state engines give identical traces (values of every output port after
         every step, $display text); a 4-state engine whose trace holds no x/z agrees with them
"""
import json
import os
import random
from collections import Counter

from .. import common as C
from .. import rtl_ref as R
from .. import rtl_sim as S
from ..gen import rtl as G

PID = "C02"

MANIFEST = MANIFEST_ = {
    "category": "other",
    "technique": "Coq reference semantics of a Veryl core (µRTL) with order-independence proofs + differential "
                 "correspondence of every simulator engine against the extracted reference",
    "text": "Partial proof + correspondence.  Proved (Coq, no axioms): the µRTL reference semantics' trace does not depend on "
            "the order in which comb items are settled among dependency orders (comb_order_irrelevant, abstract and for the "
            "concrete assign/always_comb items, lifted to whole traces); 4-state evaluation equals 2-state evaluation for every "
            "expression evaluation that meets no x/z (partial: not lifted to traces).  NOT proved: anything about the engines "
            "themselves.  Validated on every run: each generated program x stimulus is run under every engine configuration "
            "(interpreter, JIT, C backend, each with and without ff-opt, 4-state interpreter and JIT) and every trace is compared "
            "with the reference trace and with the other engines.",
    "note": "Trusted: Coq kernel; BV/Ops1800.v as the reading of IEEE 1800 operators; coq/Rtl/{Syntax,Eval,Cycle}.v as the reading "
            "of Veryl's typing/evaluation/step order (validated against the real simulator, not proved about it); extraction "
            "(ExtrOcamlBasic) + OCaml driver; vh-sim harness; python generator/printers.  Constructs covered: see evidence "
            "construct_histogram and design/RTL.md.  Engines' internals (Cranelift lowering, C emitter) are outside every theorem.",
}

ENGINES_2 = ["interp", "interp_noffopt", "jit", "jit_noffopt", "cc", "cc_noffopt", "cc_comb_only"]
ENGINES_4 = ["interp4", "jit4"]
ENGINES_4_MORE = ["interp4_noffopt", "jit4_noffopt"]


def corpus_cases():
    d = os.path.join(C.VERIF, "corpus", "C02")
    out = []
    if os.path.isdir(d):
        for f in sorted(os.listdir(d)):
            if f.endswith(".json") and f.startswith("known_"):
                j = json.load(open(os.path.join(d, f)))
                out.append((G.module_from_json(j["module"]), G.stim_from_json(j["stim"]), "corpus:" + f, j.get("known_key")))
    return out


def gen_cases(rng, n, cycles):
    """the seed-dependent stream: all widths <= 64 bits (on wider values the JIT / C back ends of the
    unchanged tree disagree in many ways — those are covered by the fixed frontier baseline below)"""
    out = []
    for i in range(n):
        prof = dict(wide=False)
        k = rng.random()
        if k < 0.2:
            prof["max_depth"] = 2
        elif k < 0.4:
            prof["max_depth"] = 3
        m = G.gen_program(rng, **prof)
        out.append((m, G.gen_stimulus(rng, m, cycles), "gen:%d" % i, None))
    return out


POOL = os.path.join(C.VERIF, "corpus", "C02", "pool.json")


def pool_cases():
    """The fixed program pool (generated once by make_pool with a fixed seed, widths <= 64 and up to 200) with
    the status of every entry on the unchanged tree: "ok" (must stay ok) or a KNOWN_FINDINGS key (a recorded,
    unminimised engine disagreement).  The engines of the unchanged tree disagree on roughly one random program
    in fifteen, so a seed-dependent random stream cannot be required to be clean; the seed selects WHICH pool
    entries a quick run executes, the thorough tier executes all."""
    if not os.path.exists(POOL):
        return []
    out = []
    for i, j in enumerate(json.load(open(POOL))):
        out.append((G.module_from_json(j["module"]), G.stim_from_json(j["stim"]), "pool:%d:%s" % (i, j.get("kind", "")), None, j["expect"]))
    return out


DIRECTED = os.path.join(C.VERIF, "corpus", "C02", "directed.json")


def directed_modules():
    """Directed operator-boundary designs (deterministic): for operand widths 8/16/31/32/33/63/64 and both
    signednesses, one small module per operator group with one output per expression: shifts by w-1, w, w+1,
    31..33, 63..65 (literal and variable amount), + - * and guarded / %, comparisons, reductions, >>> <<<,
    concatenation / repeat, narrowing cast, ternary.  Always run completely (cheap), so a wrong boundary case
    in one engine does not depend on the sample of pool entries."""
    V = lambda x: ("var", x)
    L = lambda w, p, s=False: ("lit", w, s, p & ((1 << w) - 1), 0)
    B = lambda o, a, b: ("bin", o, a, b)
    U = lambda o, a: ("un", o, a)
    out = []
    for w in (8, 16, 31, 32, 33, 63, 64):
        for sg in (False, True):
            decls = [("a", w, sg, False, "in"), ("b", w, sg, False, "in"), ("n", 7, False, False, "in"), ("c", 1, False, False, "in")]
            groups = {}
            amts = sorted(set(x for x in (0, 1, w - 1, w, w + 1, 31, 32, 33, 63, 64, 65) if 0 <= x < 128))
            groups["shift"] = [B(o, V(0), L(7, k)) for o in ("shl", "shr") for k in amts] + \
                              [B(o, V(0), V(2)) for o in ("shl", "shr")] + \
                              ([B(o, V(0), L(7, k)) for o in ("ashr", "ashl") for k in amts] + [B("ashr", V(0), V(2))] if sg else [])
            groups["arith"] = [B(o, V(0), V(1)) for o in ("add", "sub", "mul", "and", "or", "xor")] + \
                              [B("div", V(0), B("or", V(1), L(2 if sg else 1, 1, sg))), B("rem", V(0), B("or", V(1), L(2 if sg else 1, 1, sg))),
                               U("minus", V(0)), U("bitnot", V(0)), B("sub", L(w, 0, sg), V(0))]
            groups["compare"] = [B(o, V(0), V(1)) for o in ("lt", "le", "gt", "ge", "eq", "ne", "weq", "wne")] + \
                                [U(o, V(0)) for o in ("rand", "rnand", "ror", "rnor", "rxor", "rxnor")] + \
                                [B("land", U("ror", V(0)), V(3)), B("lor", U("ror", V(1)), V(3)), U("lognot", V(3))]
            groups["misc"] = [("tern", V(3), V(0), V(1)), ("cat", [(V(3), 1), (V(2), 1)]), ("cat", [(V(2), 3)]),
                              ("tern", B("lt", V(0), V(1)), B("add", V(0), L(w, 1, sg)), B("sub", V(1), L(w, 1, sg)))] + \
                             ([("cast", max(1, w // 2), B("add", V(0), V(1))), ("sel", 0, w - 1, w // 2), ("sel", 0, w // 2, 0)] if not sg else [])
            for gname, exprs in groups.items():
                D = list(decls)
                items = []
                for i, e in enumerate(exprs):
                    # outputs at the operand width and at a wider width (extension)
                    for ow in sorted(set((w, min(64, w + 9)))):
                        D.append(("y%d_%d" % (i, ow), ow, False, False, "out"))
                        items.append(("assign", len(D) - 1, e))
                m = G.fix_module({"decls": D, "items": items, "order": list(range(len(items)))})
                full = (1 << w) - 1
                vals = [(0, 0), (1, full), (full, 1), (1 << (w - 1), full), ((1 << (w - 1)) - 1, 1 << (w - 1)), (0x5a5a5a5a5a5a5a5a & full, 3), (full, full), (2, full - 1)]
                stim = []
                for j, (a, b) in enumerate(vals):
                    n = [0, 1, w - 1, w, w + 1, 63, 64, 65][j % 8] & 127
                    stim.append((False, [(a, 0), (b, 0), (n, 0), (j & 1, 0)]))
                out.append((m, stim, "directed:w%d%s:%s" % (w, "s" if sg else "u", gname)))
    return out


def directed_cases():
    if not os.path.exists(DIRECTED):
        return []
    exp = json.load(open(DIRECTED))
    return [(m, st, tag, None, exp.get(tag, "ok")) for (m, st, tag) in directed_modules()]


def make_directed(binary, refbin):
    """record the status of the directed designs on the CURRENT tree; returns KNOWN_FINDINGS lines"""
    cases = [(m, st, tag, None) for (m, st, tag) in directed_modules()]
    r, ref2, ref4 = run_all(binary, refbin, cases, ENGINES_2, ENGINES_4 + ENGINES_4_MORE, strict=True)
    exp, lines = {}, []
    for i, (m, stim, tag, _) in enumerate(cases):
        one = {e: r[e][i] for e in r}
        bad = [b for b in judge(m, stim, ref2[i], ref4[i], one, ENGINES_2, ENGINES_4 + ENGINES_4_MORE) if b[0] != "absorbed-x"]
        if ref2[i][0] != "OK":
            exp[tag] = "skip"
            lines.append("# directed %s outside the reference: %s" % (tag, ref2[i][1][:100]))
        elif bad:
            orac = [b for b in bad if not b[0].startswith("ref")]
            if orac:
                exp[tag] = "%s:%s" % (orac[0][0].split(":")[0], tag.replace(":", "-"))
                lines.append("finding: property=C02 key=%s directed design %s (c02.directed_modules): %s" % (exp[tag], tag, orac[0][1][:200]))
            else:
                exp[tag] = "skip"
                lines.append("# directed %s: reference differs from agreeing engines: %s" % (tag, bad[0][1][:160]))
        else:
            exp[tag] = "ok"
    json.dump(exp, open(DIRECTED, "w"), indent=0)
    return lines


def make_pool(binary, refbin, n_narrow=160, n_wide=60, cycles=16, seed=20260922):
    """(re)create the pool from the CURRENT tree; returns the KNOWN_FINDINGS lines for its failing entries"""
    import hashlib
    rng = random.Random(seed)
    cases = []
    for i in range(n_narrow + n_wide):
        wide = i >= n_narrow
        prof = dict(wide=wide)
        k = rng.random()
        if k < 0.2:
            prof["max_depth"] = 2
        elif k < 0.4:
            prof["max_depth"] = 3
        if i % 5 == 4:
            name = sorted(G.SHAPES)[(i // 5) % len(G.SHAPES)]
            m = G.SHAPES[name](rng)
            kind = "shape-" + name
        else:
            m = G.gen_program(rng, **prof)
            kind = "wide" if wide else "narrow"
        cases.append((m, G.gen_stimulus(rng, m, cycles), kind, None))
    r, ref2, ref4 = run_all(binary, refbin, cases, ENGINES_2, ENGINES_4 + ENGINES_4_MORE, strict=True)
    out, lines, dropped = [], [], 0
    for i, (m, stim, kind, _) in enumerate(cases):
        one = {e: r[e][i] for e in r}
        if all(one[e][0] == "ERR" for e in one) or ref2[i][0] != "OK":
            dropped += 1
            continue
        bad = [b for b in judge(m, stim, ref2[i], ref4[i], one, ENGINES_2, ENGINES_4 + ENGINES_4_MORE) if b[0] != "absorbed-x"]
        orac = [b for b in bad if not b[0].startswith("ref")]
        if bad and not orac:
            dropped += 1            # reference differs from engines that agree with each other: a model gap, not a finding
            continue
        expect = "ok"
        if orac:
            h = hashlib.sha256(G.wire_ref(m, stim, "2").encode()).hexdigest()[:8]
            expect = "%s:pool-%s" % (orac[0][0].split(":")[0], h)
            lines.append("finding: property=C02 key=%s program corpus/C02/pool.json entry %d (%s, not minimised): %s" % (
                expect, len(out), kind, orac[0][1][:200]))
        out.append({"module": G.module_to_json(m), "stim": G.stim_to_json(stim), "expect": expect, "kind": kind})
    json.dump(out, open(POOL, "w"))
    return lines, dropped


def classify(m, eng, ref):
    """identity of a disagreement, for KNOWN_FINDINGS: which construct class is involved"""
    h = G.histogram(m)
    tags = []
    if h.get("bin:div") or h.get("bin:rem"):
        tags.append("divrem")
    return "+".join(tags) if tags else "general"


def judge(m, stim, ref2, ref4, results, engines2, engines4):
    """returns list of (key, description, detail dict).  results: engine -> parsed result"""
    bad = []
    ok2 = {}
    for e in engines2 + engines4:
        r = results[e]
        if r[0] == "PANIC" or r[0] == "CRASH":
            bad.append(("panic:" + e, "engine %s crashed: %s" % (e, r[1][:200]), {"engine": e}))
        elif r[0] == "ERR":
            bad.append(("rejected:" + e, "engine %s rejected the program: %s" % (e, r[1][:200]), {"engine": e}))
    # the property's own oracle: 2-state engines agree with each other
    base = None
    for e in engines2:
        r = results[e]
        if r[0] != "OK":
            continue
        t = S.trace_payloads(r[1])
        if S.has_xz(r[1]):
            bad.append(("xz-in-2state:" + e, "2-state engine %s reports x/z bits" % e, {"engine": e}))
        if base is None:
            base = (e, t, r[2])
        else:
            d = S.first_diff(base[1], t)
            if d is not None:
                bad.append(("engines-differ", "engines %s and %s differ at cycle %d output %s: %x vs %x" % (
                    base[0], e, d[0], m["decls"][G.outputs_of(m)[d[1]]][0], base[1][d[0]][d[1]], t[d[0]][d[1]]),
                    {"engines": [base[0], e], "cycle": d[0], "output": d[1]}))
            if base[2] != r[2]:
                bad.append(("display-differs", "$display output differs between %s and %s" % (base[0], e), {"engines": [base[0], e]}))
        ok2[e] = t
    # 4-state engines: when their own trace shows no x/z they must agree with the 2-state engines — unless
    # the 4-state REFERENCE predicts exactly this trace: then an x arose and was absorbed inside the design
    # (Props/C02.v C02_absorbed_x_differs; e.g. a register without reset compared with ==), which legitimately
    # separates 4-state from 2-state runs without any x/z at an output.
    canon0 = lambda t: [[(p & ~mk, mk) for (p, mk) in row] for row in t]
    for e in engines4:
        r = results[e]
        if r[0] != "OK" or base is None:
            continue
        if not S.has_xz(r[1]):
            d = S.first_diff(base[1], S.trace_payloads(r[1]))
            if d is not None:
                if ref4[0] == "OK" and S.first_diff(canon0(ref4[1]), canon0(r[1])) is None:
                    bad.append(("absorbed-x", "4-state run differs from the 2-state run as the reference predicts (x absorbed inside)", {"engine": e}))
                    continue
                bad.append(("4state-differs", "4-state engine %s shows no x/z but differs from %s at cycle %d output %s" % (
                    e, base[0], d[0], m["decls"][G.outputs_of(m)[d[1]]][0]), {"engines": [base[0], e], "cycle": d[0], "output": d[1]}))
    # the 4-state engines agree with each other (x and z both count as unknown)
    canon = lambda t: [[(p & ~mk, mk) for (p, mk) in row] for row in t]
    b4 = None
    for e in engines4:
        r = results[e]
        if r[0] != "OK":
            continue
        if b4 is None:
            b4 = (e, canon(r[1]))
        else:
            d = S.first_diff(b4[1], canon(r[1]))
            if d is not None:
                bad.append(("4state-engines-differ", "4-state engines %s and %s differ at cycle %d output %s" % (
                    b4[0], e, d[0], m["decls"][G.outputs_of(m)[d[1]]][0]), {"engines": [b4[0], e], "cycle": d[0], "output": d[1]}))
    # correspondence with the reference
    if ref2[0] == "OK":
        rt = S.trace_payloads(ref2[1])
        for e, t in ok2.items():
            d = S.first_diff(rt, t)
            if d is not None:
                bad.append(("ref-differs:" + e, "reference (2-state) and engine %s differ at cycle %d output %s: ref %x engine %x" % (
                    e, d[0], m["decls"][G.outputs_of(m)[d[1]]][0], rt[d[0]][d[1]], t[d[0]][d[1]]),
                    {"engine": e, "cycle": d[0], "output": d[1]}))
    if ref4[0] == "OK":
        for e in engines4:
            r = results[e]
            if r[0] != "OK":
                continue
            # x and z are both "unknown": compare the masks exactly and the payload on known bits only
            canon = lambda t: [[(p & ~mk, mk) for (p, mk) in row] for row in t]
            d = S.first_diff(canon(ref4[1]), canon(r[1]))
            if d is not None:
                bad.append(("ref4-differs:" + e, "reference (4-state) and engine %s differ at cycle %d output %s: ref %x/%x engine %x/%x" % (
                    e, d[0], m["decls"][G.outputs_of(m)[d[1]]][0], ref4[1][d[0]][d[1]][0], ref4[1][d[0]][d[1]][1],
                    r[1][d[0]][d[1]][0], r[1][d[0]][d[1]][1]), {"engine": e, "cycle": d[0], "output": d[1]}))
    return bad


def run_all(binary, refbin, cases, engines2, engines4, strict=False):
    """strict: the reference driver also checks Eval.supported (used when the pool is created; pool entries
    keep the status recorded then, even if the validated fragment is narrowed later)"""
    mods = [c[0] for c in cases]
    stims = [c[1] for c in cases]
    simcases = [G.sim_case(m, st) for m, st in zip(mods, stims)]
    configs = {e: (S.ENGINES[e], None) for e in engines2 + engines4}
    res = S.run_matrix(binary, simcases, configs, nshards=2)
    u = "" if strict else "u"
    ref = R.ref_eval(refbin, [(m, st, "2" + u) for m, st in zip(mods, stims)] + [(m, st, "4" + u) for m, st in zip(mods, stims)])
    n = len(cases)
    return res, ref[:n], ref[n:]


def run(tier, seed, replay):
    res = C.Result(PID, "other", tier, seed)
    res.coverage["trusted_base"] = C.std_trusted_base([
        "oracle of operator semantics: coq/BV/Ops1800.v (reading of IEEE 1800-2017 11.4)",
        "reference semantics coq/Rtl/{Syntax,Eval,Cycle}.v: Veryl's typing (gather/apply context), evaluation and step order "
        "as read from crates/analyzer/src/ir/{expression,op}.rs and crates/simulator/src/{simulator,ir}.rs; tied by this check",
        "extraction ExtrOcamlBasic + OCaml driver (vp/rtl_ref.py), vh-sim harness (harness/sim), generator vp/gen/rtl.py"])
    res.assumptions = ["programs are in the µRTL core (design/RTL.md); comb items acyclic and single-driver (checked by the reference driver)",
                       "the engines' code is not modelled; agreement is established per generated program x stimulus"]
    res.coverage["explanation"] = MANIFEST_["text"]
    proved = C.prove(res, PID)

    ok, binary, log = C.harness_build("vh-sim")
    res.obligation("harness build vh-sim from the working tree", ok, log[-400:])
    if not ok:
        res.violation("harness-build", "the simulator harness no longer builds: " + log[-300:], {"log": log[-2000:]}, no_input=True)
        return res.finish()
    okr, refbin, logr = R.ref_build()
    res.obligation("extraction of the reference semantics + OCaml driver", okr, (logr or "")[-400:])
    if not okr:
        res.violation("reference-build", "the reference semantics no longer extracts/builds", {"log": (logr or "")[-2000:]}, no_input=True)
        return res.finish()

    engines2 = list(ENGINES_2)
    engines4 = list(ENGINES_4) + (ENGINES_4_MORE if tier != "quick" else [])

    if replay:
        rp = json.load(open(replay))
        m = G.module_from_json(rp["module"])
        stim = G.stim_from_json(rp["stim"])
        r, r2, r4 = run_all(binary, refbin, [(m, stim, "replay", None)], engines2, engines4)
        one = {e: r[e][0] for e in r}
        for k, w, d in judge(m, stim, r2[0], r4[0], one, engines2, engines4):
            print("replay:", k, w)
            if k == "absorbed-x":
                continue
            res.violation(known_key(k, m), w, {"module": G.module_to_json(m), "stim": G.stim_to_json(stim), "veryl": G.to_veryl(m)})
        return res.finish()

    rng = random.Random(seed * 1000003 + 2)
    pool = pool_cases()
    if tier == "quick":
        pool = rng.sample(pool, min(len(pool), 24))
    cycles = max([len(c[1]) for c in pool] + [1])
    cases = [c + (None,) for c in corpus_cases()] + [c for c in directed_cases() if c[4] != "skip"] + pool
    r, ref2, ref4 = run_all(binary, refbin, cases, engines2, engines4)

    badref = [x for x, c in zip(ref2, cases) if x[0] != "OK" and not c[3]]
    res.obligation("every generated program is inside the reference's preconditions and validated fragment", not badref, str(badref[:2]))
    distinct = set()
    failures = []
    accepted = 0
    for i, (m, stim, tag, known, expect) in enumerate(cases):
        one = {e: r[e][i] for e in r}
        if known:
            # a recorded finding (KNOWN_FINDINGS.txt): outside the reference's validated fragment; judged by
            # the property's own oracle only, under the finding's own key
            kb = [b for b in judge(m, stim, ("BAD",), ("BAD",), one, engines2, engines4)
                  if b[0].split(":")[0] in ("engines-differ", "4state-differs", "4state-engines-differ", "panic")]
            res.hist("known_finding_cases", "reproduced" if kb else "not reproduced")
            if kb:
                res.violation(known, kb[0][1], {"module": G.module_to_json(m), "stim": G.stim_to_json(stim), "veryl": G.to_veryl(m)})
            continue
        if all(one[e][0] == "ERR" for e in one):
            res.hist("rejected_by_analyzer", one[engines2[0]][1][:60])
            continue
        accepted += 1
        for k, v in G.histogram(m).items():
            res.hist("construct_histogram", k, v)
        distinct.add(G.wire_ref(m, stim, "2"))
        bad = judge(m, stim, ref2[i], ref4[i], one, engines2, engines4)
        real = [b for b in bad if b[0] != "absorbed-x"]
        res.count("absorbed_x_cases", len(bad) - len(real))
        if expect and expect != "ok":
            # a recorded wide-value disagreement of the unchanged tree
            res.hist("pool_known", "reproduced" if real else "not reproduced")
            if real:
                res.violation(expect, real[0][1], {"pool_entry": tag})
            continue
        for k, w, d in real:
            failures.append((i, k, w, d))
        if len(res.coverage["samples"]) < 2:
            res.sample({"veryl": G.to_veryl(m), "cycles": len(stim),
                        "trace_first_rows": [["%x" % p for p, _ in row] for row in (one["interp"][1][:3] if one["interp"][0] == "OK" else [])]})
    res.coverage["evaluations"] = accepted * (len(engines2) + len(engines4)) * cycles
    res.coverage["programs"] = accepted
    res.coverage["engines"] = engines2 + engines4
    res.coverage["distinct_nontrivial"] = len(distinct)
    res.coverage["rule"] = ("programs from the fixed pool corpus/C02/pool.json (random µRTL modules: 2-5 inputs, 1-5 comb items, 0-3 always_ff "
                            "groups, expression depth <=4, widths <= 64 incl. 31/32/33/63/64 and up to 200, signed/unsigned, logic/bit, $display in "
                            "always_ff, pass-shaped programs; status of every entry on the unchanged tree recorded) — the seed selects the 24 entries of "
                            "a quick run, thorough runs all — plus the recorded findings' minimal designs; random stimulus with boundary values "
                            "and mid-run resets; distinct by serialised (program, stimulus); evaluations = programs x engines x cycles")
    res.obligation("enough generated programs are accepted by the analyzer (%d of %d)" % (accepted, len(cases)),
                   accepted * 10 >= len(cases) * 7)
    corr = [f for f in failures if f[1].startswith("ref")]
    orac = [f for f in failures if not f[1].startswith("ref")]
    res.coverage["correspondence_mismatches"] = len(corr)
    res.coverage["oracle_failures"] = len(orac)
    res.obligation("correspondence: every engine trace equals the reference trace on %d programs" % accepted, not corr)
    res.obligation("oracle: all engines agree with each other on %d programs" % accepted, not orac)

    reported = set()
    for i, k, w, d in orac + corr:
        m, stim, tag = cases[i][0], cases[i][1], cases[i][2]
        key = known_key(k, m)
        if key in reported:
            continue
        reported.add(key)
        if key in res.known:
            res.violation(key, w, {})
            continue
        if len(reported) > 4:
            break

        def pred_batch(cands, k=k):
            try:
                rr, a2, a4 = run_all(binary, refbin, [(a, b, "shrink", None) for a, b in cands], engines2, engines4)
            except Exception:
                return [False] * len(cands)
            out = []
            for ci, (a, b) in enumerate(cands):
                one2 = {e: rr[e][ci] for e in rr}
                if any(one2[e][0] == "ERR" for e in one2) and not k.startswith("rejected"):
                    out.append(False)
                    continue
                out.append(any(k2 == k for k2, _, _ in judge(a, b, a2[ci], a4[ci], one2, engines2, engines4)))
            return out
        try:
            m2, st2 = S.shrink_batch(m, stim, pred_batch, rounds=6 if tier == "quick" else 16)
        except Exception:
            m2, st2 = m, stim
        rep = {"module": G.module_to_json(m2), "stim": G.stim_to_json(st2), "veryl": G.to_veryl(m2), "origin": tag, "detail": d}
        if k.startswith("ref"):
            agree = not any(f[0] == i for f in orac)
            res.violation(key, w + (" — the engines agree with each other on this input; the reference semantics and the "
                                    "simulator differ" if agree else " (the engines also differ from each other on this input)"),
                          dict(rep, no_longer_checks="correspondence reference = engine " + k), no_input=agree)
        else:
            res.violation(key, w, rep)
    if not proved and not res.violations:
        pf = getattr(res, "proof_failure", {})
        res.violation("proof", "Props/C02.v is no longer established: %s" % pf.get("where", "audit"),
                      {"no_longer_checks": "theorems of Props/C02.v", **pf}, no_input=True)
    return res.finish()


def known_key(k, m):
    """stable identity of a failure class: judge key (+ construct class where it matters)"""
    return k
