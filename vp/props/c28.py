"""C28 — The pretty printer keeps content and records true anchors.

proof:   coq/Props/C28.v  (content, anchor order, anchor positions, line/col bookkeeping)
tie:     correspondence  veryl_pretty::render_with_anchors  vs  VV.Pretty.Render (vm_compute),
         byte-for-byte text and anchors on generated documents
oracle:  the property itself evaluated on the implementation's output
         (content matcher = relation Contents; anchor text at recorded line/column of final text)
"""
import json
import random

from .. import common as C
from ..gen import docs as G

PID = "C28"

MANIFEST = {
    "category": "proof",
    "technique": "Coq proof (induction over documents) + model/implementation correspondence",
    "text": "Theorems over the Gallina transcription of render.rs for ALL documents and options: content preservation "
            "(relation Contents), anchors = document's anchored fragments in order, every anchor's line/column is the true "
            "position of its text (documents in wf_pos). The model is tied to veryl_pretty by byte-for-byte correspondence "
            "on generated documents and the property's own oracle runs on the implementation's output.",
    "note": "Trusted: Coq kernel; hand-written model coq/Pretty/{Doc,Render}.v (unbounded N/Z for usize/i32); vh-pretty harness; "
            "python generator/oracle. No axioms (Print Assumptions: closed). Anchor theorem assumes newline in {LF, CRLF}, "
            "Line/IfBreak texts without newline, anchored texts non-empty and not ending in a space.",
}


def model_eval(cases, name="c28"):
    terms = ["(%s, %s)" % (G.opts_coq(o), G.doc_coq(d)) for (o, d) in cases]
    pre = "From VV Require Import Pretty.Render.\nOpen Scope N_scope.\n" \
          "Definition run (c : opts * doc) := let (o, d) := c in (render_text o d, map (fun a => (a_dl a, a_dc a, a_sl a, a_sc a, a_text a)) (render_anchors o d)).\n"
    vals = C.coq_eval_sharded(name, pre, terms, lambda l: "map run %s" % l, shard=150)
    out = []
    for v in vals:
        text, anchors = v
        out.append((list(text), [(a[0], a[1], a[2], a[3], list(a[4])) for a in anchors]))
    return out


def impl_eval(binary, cases):
    lines = ["%s %s" % (G.opts_wire(o), G.doc_wire(d)) for (o, d) in cases]
    outs = C.run_lines(binary, lines)
    res = []
    for ln in outs:
        t = ln.split()
        if not t or t[0] != "OK":
            res.append(("PANIC", ln))
            continue
        text = G.parse_str(t[1])
        n = int(t[2])
        anchors = []
        p = 3
        for _ in range(n):
            anchors.append((int(t[p]), int(t[p + 1]), int(t[p + 2]), int(t[p + 3]), G.parse_str(t[p + 4])))
            p += 5
        res.append((text, anchors))
    return res


def judge(o, d, impl):
    """Evaluate the property's own oracle on the implementation's result.
    Returns list of (key, description)."""
    if impl[0] == "PANIC":
        return [("panic", "render_with_anchors panicked: %s" % impl[1])]
    text, anchors = impl
    bad = []
    if not G.content_ok(d, text):
        bad.append(("content", "non-layout characters of the output are not the document's fragments in order"))
    want = G.doc_anchors(d)
    got = [(a[2], a[3], a[4]) for a in anchors]
    if want != got:
        bad.append(("anchor-list", "recorded anchors are not the document's anchored fragments in order"))
    strip = o[3]
    for a in anchors:
        if not G.anchor_at(text, a[0], a[1], a[4], strip):
            bad.append(("anchor-position", "anchor %d:%d does not point at %r in the final text" % (a[0], a[1], G.show(a[4]))))
            break
    return bad


def gen_cases(rng, n, res=None):
    cases = []
    for i in range(n):
        o = G.gen_opts(rng)
        d = G.gen_doc(rng, rng.choice([2, 3, 4, 5, 6]), style=rng.choice(["random", "random", "code"]))
        cases.append((o, d))
    return cases


def shrink(binary, o, d, pred):
    """Greedy subtree deletion while pred(o, d) stays true."""
    cur = d
    improved = True
    while improved:
        improved = False
        for cand in G.shrink_candidates(cur):
            if G.size(cand) < G.size(cur) and pred(o, cand):
                cur = cand
                improved = True
                break
    return cur


def run(tier, seed, replay):
    res = C.Result(PID, "proof", tier, seed)
    res.coverage["trusted_base"] = C.std_trusted_base([
        "model: coq/Pretty/{Doc,Render}.v transcribes crates/pretty/src/{doc,render}.rs; usize/u32/i32 as unbounded N/Z",
        "vh-pretty harness binary (harness/pretty) calls veryl_pretty::render::render_with_anchors"])
    res.assumptions = [
        "newline option is \"\\n\" or \"\\r\\n\" (nl_ok, nl_pos)",
        "anchor position theorem needs wf_pos: Line/IfBreak texts without newline, anchored texts non-empty and not ending in a space (otherwise DedentHardline may eat the space)",
        "integer overflow of usize/u32 columns is not modelled"]
    proved = C.prove(res, PID)

    ok, binary, log = C.harness_build("vh-pretty")
    res.obligation("harness build vh-pretty from /repo working tree", ok, log[-400:])
    if not ok:
        res.violation("harness-build", "the pretty harness no longer builds against /repo: " + log[-300:],
                      {"log": log[-2000:]}, no_input=True)
        return res.finish()

    if replay:
        rp = json.load(open(replay))
        o, d = tuple(rp["opts"]), G.from_json(rp["doc"])
        impl = impl_eval(binary, [(o, d)])[0]
        bad = judge(o, d, impl)
        print("replay: impl =", impl)
        for k, w in bad:
            res.violation(k, w, {"opts": list(o), "doc": G.to_json(d), "impl": repr(impl)})
        return res.finish()

    rng = random.Random(seed * 7919 + 28)
    n = 1500 if tier == "quick" else 40000
    cases = [(o, d) for (o, d) in G.corpus_cases()] + gen_cases(rng, n)
    impl = impl_eval(binary, cases)
    model = model_eval(cases)
    res.coverage["evaluations"] = len(cases)
    distinct = set()
    mism = []
    oracle_fail = []
    for i, ((o, d), im, mo) in enumerate(zip(cases, impl, model)):
        kinds = G.kinds(d)
        for k in kinds:
            res.hist("constructor_histogram", k)
        res.hist("opts_histogram", "nl=%s strip=%s" % ("crlf" if o[2] else "lf", o[3]))
        if len(kinds) >= 3 and G.size(d) >= 4:
            distinct.add(G.doc_wire(d) + G.opts_wire(o))
        bad = judge(o, d, im)
        for k, w in bad:
            oracle_fail.append((i, k, w))
        if im[0] == "PANIC" or (list(im[0]), im[1]) != (mo[0], mo[1]):
            mism.append(i)
        if i < 3:
            res.sample({"opts": list(o), "doc": G.doc_wire(d), "text": G.show(im[0]) if im[0] != "PANIC" else "PANIC",
                        "anchors": len(im[1]) if im[0] != "PANIC" else 0})
    res.coverage["distinct_nontrivial"] = len(distinct)
    res.coverage["rule"] = ("random Doc trees over all 15 constructors (depth<=6, multi-byte text, embedded newlines, "
                            "comments with leading_newlines 0-3) x RenderOpts; non-trivial = >=3 constructor kinds and >=4 nodes; "
                            "distinct by serialised (opts, doc)")
    res.coverage["correspondence_mismatches"] = len(mism)
    res.coverage["oracle_failures"] = len(oracle_fail)
    res.obligation("correspondence impl = model on %d documents (text and anchors byte-for-byte)" % len(cases), not mism)

    def pred_oracle(key):
        def p(o, d):
            im = impl_eval(binary, [(o, d)])[0]
            return any(k == key for k, _ in judge(o, d, im))
        return p

    reported = set()
    for i, k, w in oracle_fail:
        if k in reported:
            continue
        reported.add(k)
        o, d = cases[i]
        if k in res.known:
            res.violation(k, w, {})
            continue
        d2 = shrink(binary, o, d, pred_oracle(k))
        im = impl_eval(binary, [(o, d2)])[0]
        res.violation(k, w, {"opts": list(o), "doc": G.to_json(d2), "doc_wire": G.doc_wire(d2),
                             "impl_output": G.show(im[0]) if im[0] != "PANIC" else "PANIC",
                             "impl_anchors": [list(a[:4]) + [G.show(a[4])] for a in im[1]] if im[0] != "PANIC" else []})
    unknown_oracle = [x for x in oracle_fail if x[1] not in res.known]
    if mism and not unknown_oracle:
        # model and implementation differ but the oracle found no failing input among the cases:
        # search further with the oracle alone (implementation only, no Coq) before giving up
        found = None
        rng2 = random.Random(seed + 99991)
        for rnd in range(20 if tier == "quick" else 100):
            extra = gen_cases(rng2, 2000)
            outs = impl_eval(binary, extra)
            for (o, d), im in zip(extra, outs):
                bad = [b for b in judge(o, d, im) if b[0] not in res.known]
                if bad:
                    found = (o, d, bad[0])
                    break
            if found:
                break
        if found:
            o, d, (k, w) = found
            d2 = shrink(binary, o, d, pred_oracle(k))
            res.violation(k, w, {"opts": list(o), "doc": G.to_json(d2), "doc_wire": G.doc_wire(d2)})
        else:
            i = mism[0]
            o, d = cases[i]

            def pm(o_, d_):
                im_ = impl_eval(binary, [(o_, d_)])[0]
                mo_ = model_eval([(o_, d_)], name="c28_shrink")[0]
                return im_[0] == "PANIC" or (list(im_[0]), im_[1]) != (mo_[0], mo_[1])
            d2 = d
            try:
                d2 = shrink(binary, o, d, pm)
            except Exception:
                pass
            im = impl_eval(binary, [(o, d2)])[0]
            mo = model_eval([(o, d2)], name="c28_shrink")[0]
            res.violation("correspondence", "implementation and model render differently; the property's oracle "
                          "(content, anchor order, anchor position) found no failing input",
                          {"no_longer_checks": "correspondence veryl_pretty::render_with_anchors = VV.Pretty.Render.render_text/render_anchors",
                           "opts": list(o), "doc": G.to_json(d2), "doc_wire": G.doc_wire(d2),
                           "impl": repr(im), "model": repr(mo), "mismatching_cases": len(mism)}, no_input=True)
    if not proved and not res.violations:
        pf = getattr(res, "proof_failure", {})
        res.violation("proof", "Props/C28.v is no longer established: %s" % pf.get("where", "audit"),
                      {"no_longer_checks": "theorems of Props/C28.v", **pf}, no_input=True)
    return res.finish()
