"""C12 — Every token and every comment reports where it really is in the source.

proof:   coq/Props/C12.v   split_located / split_ordered / split_texts_are_comments /
                           end_position_correct over the model coq/Pos/PosModel.v
tie:     correspondence  veryl_token::split_comment_token (hook verif_split_comment_token)
         vs  VV.Pos.PosModel.split_comments (vm_compute) on generated comment runs
oracle:  the property itself, independent of the model: every token and comment the real
         parser reports (walker stream incl. comments) is checked against the raw input —
         text at [pos,pos+len), line, character column, end_line/end_column, source order,
         and the stream holds exactly the tokens and comments of the input.
"""
import json
import os
import random
import re

from .. import common as C
from ..gen import posmodel as PM
from ..gen import vtext as V

PID = "C12"
KNOWN_SLASH = "lexer-slash-after-comment-newline"

MANIFEST = {
    "category": "proof",
    "technique": "Coq proof (induction over the comment scanner / split loop) + model/implementation correspondence + "
                 "end-to-end position oracle on the real parser",
    "text": "Theorems over the Gallina transcription of split_comment_token, COMMENT_REGEX (as a scanner) and "
            "Token::end_line/end_column for ALL byte strings and positions: every comment cut from a located comment run "
            "is located (text at [pos,pos+len), line, character column), comments are non-empty, ordered, disjoint and inside "
            "the run, start with // or /*, and end_line/end_column denote the position just past the token. The model is tied "
            "to veryl_parser by correspondence on generated comment runs through a cfg(veryl_verif) hook; lexer-assigned "
            "positions of ordinary tokens (parol/scnr2, not modelled) and the whole token+comment stream are checked directly "
            "against the raw input on generated texts and all repository testcases under random re-layout. Also proved: the "
            "lexer's line/column rule (model of scnr2 CharIterWithPosition::next) is right when the iterator only advances; its "
            "save/restore defect is a recorded finding.",
    "note": "Trusted: Coq kernel; hand-written model coq/Pos/PosModel.v (chars().count() = number of non-continuation bytes, "
            "valid for Rust str; u32 overflow not modelled; the regex is modelled as a scanner, agreement checked by "
            "correspondence incl. non-lexer-shaped runs); vh-pos harness; python generator/oracle; lexer positions of ordinary "
            "tokens are validated, not proved. No axioms (Print Assumptions: closed). Source = the newline-terminated copy "
            "Parser::parse lexes.",
}

# ------------------------------------------------------------------------------------------
# reference position arithmetic (python, independent of the model and of the Rust code)


def hx(b):
    return b.hex() or "-"


def unhx(s):
    return b"" if s == "-" else bytes.fromhex(s)


def line_col(src, pos):
    """the lexer's (line, character column) of byte offset pos: line = 1 + '\\n's before,
    column = 1 + characters since the last '\\n'"""
    pre = src[:pos]
    line = 1 + pre.count(b"\n")
    seg = pre[pre.rfind(b"\n") + 1:]
    col = 1 + sum(1 for x in seg if (x & 0xC0) != 0x80)
    return line, col


class Src:
    """line/col lookup with precomputed tables (sources can be several kB)"""

    def __init__(self, src):
        self.src = src
        self.nl = [0]
        self.ch = [0]
        self.last = [-1]
        n = c = 0
        last = -1
        for i, x in enumerate(src):
            if x == 10:
                n += 1
                last = i
            if (x & 0xC0) != 0x80:
                c += 1
            self.nl.append(n)
            self.ch.append(c)
            self.last.append(last)

    def line_col(self, pos):
        line = 1 + self.nl[pos]
        start = self.last[pos] + 1
        return line, 1 + self.ch[pos] - self.ch[start]


def located_fail(S, line, col, pos, length, text):
    """None if the token is located in S.src, else (key, description)"""
    src = S.src
    if pos + length > len(src) or src[pos:pos + length] != text or length != len(text):
        return ("text", "text %r is not at [pos=%d, pos+len=%d) of the source (found %r)" % (
            text[:40], pos, pos + length, src[pos:pos + length][:40]))
    l, c = S.line_col(pos)
    if l != line:
        return ("line", "line %d reported for %r at offset %d, the lexer position is line %d" % (line, text[:40], pos, l))
    if c != col:
        return ("column", "column %d reported for %r at offset %d (line %d), the character column is %d" % (col, text[:40], pos, l, c))
    return None


_COMMENT = re.compile(rb"//[^\n]*(?:\n|\Z)|/\*.*?\*/", re.S)


def comment_texts(run):
    """the comments of a comment run (reference scanner: // to end of line, /* to the first */
    that starts at offset >= 2)"""
    out = []
    i = 0
    while True:
        m = _COMMENT.search(run, i)
        if not m:
            return out
        out.append((m.start(), m.group(0)))
        i = m.end()


# ------------------------------------------------------------------------------------------
# stream S: split_comment_token on comment runs  (correspondence + located oracle)

def gen_run(rng, adversarial=False):
    pr = dict(V.PROFILES[rng.choice(["ascii", "utf8", "crlf", "mixed", "dense"])])
    if rng.random() < 0.3:
        pr["p_cr"] = 0.3
    n = rng.randint(1, 5)
    s = ""
    for k in range(n):
        c, is_line = V.gen_comment(rng, pr)
        s += c
        s += rng.choice(["", "", " ", "  ", "\t", "\n", "\r\n", "\n\n  ", " \r ", "\n\t", "   \n \n", " " if adversarial else " "])
        if adversarial and rng.random() < 0.4:
            s += rng.choice(["x", "/", "*", "/*", "*/", "é", "/*/", "//", "/* open", "a/b", "\"//\"", "/", "**/"])
    if adversarial and rng.random() < 0.3:
        s = rng.choice(["", " ", "x ", "é", "*/ ", "\n"]) + s
    return s


def gen_split_cases(rng, n):
    cases = []
    for i in range(n):
        adv = rng.random() < 0.3
        run = gen_run(rng, adv).encode()
        # a prefix that fixes line / column / pos of the run
        pre = ""
        for _ in range(rng.randint(0, 3)):
            pre += rng.choice(["module A {", "é日本", "  ", "\t", "x", "/* 😀 */", "let a = 1;"]) + rng.choice(["\n", "\r\n", " ", "\n\n"])
        pre += rng.choice(["", "a", "  b ", "é", "😀😀 ", "} "])
        pre = pre.encode()
        cases.append((pre, run, b" }\n" if rng.random() < 0.5 else b""))
    return cases


def split_wire(case):
    pre, run, post = case
    line, col = line_col(pre, len(pre))
    return "S %d %d %d %s" % (line, col, len(pre), hx(run))


def split_term(case):
    pre, run, post = case
    line, col = line_col(pre, len(pre))
    return "(mkTok %s %d %d %d %d)" % (C.cstr(list(run)), line, col, len(pre), len(run))


def parse_split(ln):
    t = ln.split()
    if not t or t[0] != "OK":
        return ("PANIC", ln)
    n = int(t[1])
    out = []
    p = 2
    for _ in range(n):
        out.append((int(t[p]), int(t[p + 1]), int(t[p + 2]), int(t[p + 3]), unhx(t[p + 4])))
        p += 5
    return out


def model_split(cases, name="c12"):
    pre = ("From VV Require Import Pos.PosModel.\nOpen Scope N_scope.\n"
           "Definition run (t : tok) := map (fun c => (t_line c, t_col c, t_pos c, t_len c)) (split_comments t).\n")
    vals = C.coq_eval_sharded(name, pre, [split_term(c) for c in cases], lambda l: "map run %s" % l, shard=200)
    return [[tuple(x) for x in v] for v in vals]


def judge_split(case, impl):
    """property oracle for one run: every produced comment located in pre+run+post, ordered,
    inside the run, and exactly the comments of the run"""
    pre, run, post = case
    if isinstance(impl, tuple):
        return [("split-panic", "split_comment_token panicked: %s" % impl[1])]
    S = Src(pre + run + post)
    bad = []
    end = len(pre)
    for (line, col, pos, length, text) in impl:
        f = located_fail(S, line, col, pos, length, text)
        if f:
            bad.append(("comment-" + f[0], "comment token: " + f[1]))
            break
        if pos < end or pos + length > len(pre) + len(run) or length == 0:
            bad.append(("comment-order", "comment at %d..%d overlaps its predecessor or leaves the run" % (pos, pos + length)))
            break
        end = pos + length
    want = [t for _, t in comment_texts(run)]
    if not bad and [x[4] for x in impl] != want:
        bad.append(("comment-set", "comments produced %r, the run holds %r" % ([x[4][:20] for x in impl][:6], [w[:20] for w in want][:6])))
    return bad


# ------------------------------------------------------------------------------------------
# stream T: the real parser's token + comment stream against the raw input

def parse_tokens(ln):
    t = ln.split()
    if not t:
        return ("PANIC", ln)
    if t[0] == "ERR":
        return ("ERR", ln[4:])
    if t[0] != "OK":
        return ("PANIC", ln)
    n = int(t[1])
    out = []
    p = 2
    for _ in range(n):
        out.append((t[p], int(t[p + 1]), int(t[p + 2]), int(t[p + 3]), int(t[p + 4]), int(t[p + 5]), int(t[p + 6]), unhx(t[p + 7])))
        p += 8
    return out


def judge_tokens(text, impl, lx):
    """text: bytes of the input.  impl: parse_tokens result (list).  Returns [(key, what)]."""
    if isinstance(impl, tuple):
        return [("parser-panic", "the parser panicked: %s" % impl[1][:200])]
    src = text if text.endswith(b"\n") else text + b"\n"     # the copy Parser::parse lexes
    S = Src(src)
    bad = []
    end = 0
    toks = []
    coms = []
    trigger = None
    prev_comment_end = -1
    for (kind, line, col, pos, length, eline, ecol, tx) in impl:
        if kind == "t" and length == 0 and tx == b"":
            if (line, col, pos) != (1, 1, 0):
                bad.append(("start-token", "start token reports %d:%d pos %d" % (line, col, pos)))
            continue
        what = "comment" if kind == "c" else "token"
        # trigger of the known lexer defect: a '/' token directly after the newline that ends a
        # comment run (byte offsets are right even then; only line / column are off)
        if kind == "t" and trigger is None and tx.startswith(b"/") and prev_comment_end == pos and pos > 0 and src[pos - 1:pos] == b"\n":
            trigger = pos
        f = located_fail(S, line, col, pos, length, tx)
        if f:
            if f[0] in ("line", "column") and trigger is not None and pos >= trigger:
                bad.append((KNOWN_SLASH, "a '/' token directly after the newline that ends a comment run (offset %d) and every token after it "
                            "report a line one too small: %s" % (trigger, f[1])))
            else:
                bad.append(("%s-%s" % (what, f[0]), "%s: %s" % (what, f[1])))
            break
        if kind == "c":
            prev_comment_end = pos + length
            # the comment run extends over the white space after the comment
            while prev_comment_end < len(src) and src[prev_comment_end:prev_comment_end + 1] in (b" ", b"\t", b"\r", b"\n"):
                prev_comment_end += 1
        if pos < end:
            bad.append(("order", "%s %r at offset %d is reported after text ending at offset %d (not in source order)" % (what, tx[:30], pos, end)))
            break
        end = pos + length
        l2, c2 = S.line_col(pos + length)
        if (eline, ecol + 1) != (l2, c2):
            bad.append(("end-position", "%s %r at %d:%d reports end %d:%d, the position after its last byte is %d:%d (end column + 1)" % (
                what, tx[:30], line, col, eline, ecol, l2, c2)))
            break
        (coms if kind == "c" else toks).append((pos, tx))
    if bad:
        return bad
    # the stream holds exactly the tokens and comments of the input
    try:
        raw = lx.lex(src.decode("utf8"))
    except V.LexError as e:
        return [("machinery-lexer", "derived lexer cannot cut an input the parser accepts: %s" % e)]
    want_t = [s.encode() for (k, s, st, md) in raw if k != "CommentsTerm"]
    want_c = []
    for (k, s, st, md) in raw:
        if k == "CommentsTerm":
            want_c.extend(t for _, t in comment_texts(s.encode()))
    got_t = [t for _, t in toks]
    got_c = [t for _, t in coms]
    if got_t != want_t:
        i = next((i for i, (a, b) in enumerate(zip(got_t, want_t)) if a != b), min(len(got_t), len(want_t)))
        bad.append(("token-set", "token stream differs from the input's tokens at index %d: reported %r, input has %r" % (
            i, got_t[i:i + 3], want_t[i:i + 3])))
    elif got_c != want_c:
        i = next((i for i, (a, b) in enumerate(zip(got_c, want_c)) if a != b), min(len(got_c), len(want_c)))
        bad.append(("comment-set", "comment stream differs from the input's comments at index %d: reported %r, input has %r" % (
            i, got_c[i:i + 2], want_c[i:i + 2])))
    return bad


def corpus_texts():
    d = os.path.join(C.VERIF, "corpus", PID)
    out = []
    if os.path.isdir(d):
        for f in sorted(os.listdir(d)):
            if f.endswith(".veryl"):
                out.append(("corpus/" + f, open(os.path.join(d, f), "rb").read()))
    return out


def gen_texts(rng, n_synth, relayouts, lx):
    """[(label, bytes)]"""
    out = []
    for i in range(n_synth):
        toks = V.gen_program(rng, rng.randint(1, 3))
        prof = rng.choice(V.PROFILE_NAMES)
        out.append(("synthetic/%s/%d" % (prof, i), V.layout(toks, rng, prof, lx).encode()))
    tcs = V.repo_testcases(C.REPO, subdirs=("veryl", "sample/src", "native_test/src", "filelist/a/src", "heliodor", "map", "error"))
    for p, t in tcs:
        out.append((p, t.encode()))
        for k in range(relayouts):
            prof = rng.choice(V.PROFILE_NAMES)
            try:
                txt, _ = V.relayout(t, rng, prof, lx)
            except V.LexError:
                continue
            out.append(("%s@%s/%d" % (p, prof, k), txt.encode()))
    return out


def run_tokens(binary, texts):
    outs = C.run_lines(binary, ["T " + hx(t) for _, t in texts], timeout=1200)
    return [parse_tokens(o) for o in outs]


def shrink_text(binary, text, key, lx, budget=120):
    """ddmin over lines, then over blank-separated chunks; keeps `key` failing on a parseable text"""
    def fails(b):
        r = run_tokens(binary, [("x", b)])[0]
        if isinstance(r, tuple) and r[0] == "ERR":
            return False
        return any(k == key for k, _ in judge_tokens(b, r, lx))

    cur = text
    for sep in (b"\n", b" "):
        parts = cur.split(sep)
        n = 2
        while len(parts) >= 2 and budget > 0:
            size = max(1, len(parts) // n)
            reduced = False
            for i in range(0, len(parts), size):
                cand = parts[:i] + parts[i + size:]
                budget -= 1
                if cand and fails(sep.join(cand)):
                    parts = cand
                    n = max(n - 1, 2)
                    reduced = True
                    break
                if budget <= 0:
                    break
            if not reduced:
                if size == 1:
                    break
                n = min(len(parts), n * 2)
        cur = sep.join(parts)
    return cur


def run(tier, seed, replay):
    res = C.Result(PID, "proof", tier, seed)
    res.coverage["trusted_base"] = C.std_trusted_base([
        "model: coq/Pos/PosModel.v transcribes split_comment_token / COMMENT_REGEX (as a scanner) / end_line / end_column of "
        "crates/parser/src/veryl_token.rs; chars().count() = non-continuation bytes; u32 as unbounded N",
        "vh-pos harness (harness/pos): modes T (Parser::parse + walker stream) and S (hook verif_split_comment_token)",
        "OCaml extraction of the model (ExtrOcamlBasic only) + driver vp/gen/posmodel.py (trusted glue; cross-checked against vm_compute on a sample every run)",
        "python reference for line / character column (vp/props/c12.py line_col) and the lexer derived from veryl.par (vp/gen/vtext.py)",
        "lexer-assigned positions of ordinary tokens (parol_runtime / scnr2) are outside the model: validated by the oracle only"])
    res.assumptions = [
        "located run: the comment-run token's own pos/line/column (assigned by the lexer) are right — checked by the end-to-end oracle",
        "source text = the newline-terminated copy that Parser::parse lexes",
        "integer overflow of u32 positions is not modelled"]
    proved = C.prove(res, PID)

    ok, binary, log = C.harness_build("vh-pos")
    res.obligation("harness build vh-pos from /repo working tree (needs hook verif_split_comment_token)", ok, log[-400:])
    if not ok:
        res.violation("harness-build", "the position harness no longer builds against /repo: " + log[-300:],
                      {"log": log[-2000:]}, no_input=True)
        return res.finish()
    lx = V.lexer(C.REPO)

    if replay:
        rp = json.load(open(replay))
        if rp.get("stream") == "S":
            case = (unhx(rp["pre"]), unhx(rp["run"]), unhx(rp["post"]))
            impl = parse_split(C.run_lines(binary, [split_wire(case)])[0])
            print("replay: impl =", impl)
            for k, w in judge_split(case, impl):
                res.violation(k, w, rp)
        else:
            text = unhx(rp["text_hex"])
            impl = run_tokens(binary, [("replay", text)])[0]
            print("replay: impl =", impl if isinstance(impl, tuple) else "%d tokens" % len(impl))
            if not (isinstance(impl, tuple) and impl[0] == "ERR"):
                for k, w in judge_tokens(text, impl, lx):
                    res.violation(k, w, rp)
        return res.finish()

    rng = random.Random(seed * 7919 + 12)
    quick = tier == "quick"

    # ---- stream S: comment runs, implementation vs model vs oracle
    scases = gen_split_cases(rng, 4000 if quick else 60000)
    n_generated = len(scases)
    # boundary shapes, always present
    for run_ in ["/**/", "/***/", "//\n", "// é\r\n/* b */", "/* é */ /* b */\n", "/* a\n é*/ /* b */ // c\n", "//a\r//b\n",
                 "/* 😀 */\t/* x */", "/*/ */", "/* * / */ ", "// x", "/* unterminated", "//\r\n\r\n//\r\n", "/* a */\n\n\n  /* b */",
                 "/* é\r\n 日本 */ /* c */", "/// doc é\n/// doc2\n", "/*é*//*日*//*😀*/"]:
        for pre in ["", "x é ", "a\nb\n", "é\r\n  "]:
            scases.append((pre.encode(), run_.encode(), b""))
    import time
    t_ = time.time()
    simpl = [parse_split(o) for o in C.run_lines(binary, [split_wire(c) for c in scases])]
    res.coverage.setdefault('timing_s', {})['split_impl'] = round(time.time() - t_, 1)
    t_ = time.time()
    # the model is evaluated by its OCaml extraction on every case and, for the boundary shapes,
    # also inside Coq (vm_compute); both evaluations must agree
    okm, mbin, mlog = PM.build()
    res.obligation("extracted model builds (OCaml, ExtrOcamlBasic only)", okm, mlog[-400:])
    if not okm:
        res.violation("model-build", "the extracted position model no longer builds: " + mlog[-300:],
                      {"no_longer_checks": "correspondence split_comment_token = split_comments", "log": mlog[-2000:]}, no_input=True)
        return res.finish()
    smodel = PM.split_eval(mbin, [(line_col(c[0], len(c[0])) + (len(c[0]), c[1])) for c in scases])
    res.coverage['timing_s']['split_model_ocaml'] = round(time.time() - t_, 1)
    t_ = time.time()
    nb = len(scases) - n_generated
    coq_sample = model_split(scases[n_generated:])
    res.obligation("extracted model = vm_compute of the model inside Coq on %d boundary runs" % nb,
                   coq_sample == smodel[n_generated:])
    res.coverage['timing_s']['split_model_coq_sample'] = round(time.time() - t_, 1)
    s_mism = []
    s_fail = []
    distinct = set()
    for i, (c, im, mo) in enumerate(zip(scases, simpl, smodel)):
        pre, run_, post = c
        ncom = 0 if isinstance(im, tuple) else len(im)
        res.hist("run_histogram", "comments=%d%s%s%s" % (min(ncom, 4), "+utf8" if any(b >= 128 for b in run_) else "",
                                                         "+multiline" if b"\n" in run_.rstrip(b"\r\n \t") else "",
                                                         "+cr" if b"\r" in run_ else ""))
        if ncom >= 2:
            distinct.add(run_ + b"\0" + pre)
        for k, w in judge_split(c, im):
            s_fail.append((i, k, w))
        if isinstance(im, tuple) or [x[:4] for x in im] != mo:
            s_mism.append(i)
    res.obligation("correspondence split_comment_token = model split_comments on %d comment runs (line, column, pos, length)" % len(scases), not s_mism)
    res.coverage["split_correspondence_mismatches"] = len(s_mism)
    res.coverage["split_oracle_failures"] = len(s_fail)

    # ---- stream T: the real parser on corpus, generated texts, repository testcases
    texts = corpus_texts() + gen_texts(rng, 120 if quick else 4000, 1 if quick else 20, lx)
    t_ = time.time()
    timpl = run_tokens(binary, texts)
    res.coverage['timing_s']['parse_texts'] = round(time.time() - t_, 1)
    t_ = time.time()
    t_fail = []
    n_ok = n_err = 0
    ntok = ncom = 0
    for i, ((label, text), im) in enumerate(zip(texts, timpl)):
        if isinstance(im, tuple) and im[0] == "ERR":
            n_err += 1
            res.hist("rejected_by_parser", label.split("/")[0].split("@")[0][:40])
            continue
        n_ok += 1
        bad = judge_tokens(text, im, lx)
        for k, w in bad:
            t_fail.append((i, k, w))
        if not isinstance(im, tuple):
            ntok += sum(1 for x in im if x[0] == "t")
            nc = sum(1 for x in im if x[0] == "c")
            ncom += nc
            shape = []
            if any(b >= 128 for b in text):
                shape.append("utf8")
            if b"\r\n" in text:
                shape.append("crlf")
            if nc:
                shape.append("comments")
            res.hist("text_histogram", "+".join(shape) or "plain-ascii")
            if nc >= 3 and len(im) >= 20:
                distinct.add(text)
        if len(res.coverage["samples"]) < 3 and not isinstance(im, tuple):
            res.sample({"input": label, "bytes": len(text), "tokens": sum(1 for x in im if x[0] == "t"),
                        "comments": sum(1 for x in im if x[0] == "c"), "head": text[:120].decode("utf8", "replace")})
    res.coverage['timing_s']['token_oracle'] = round(time.time() - t_, 1)
    res.coverage["evaluations"] = len(scases) + n_ok
    res.coverage["texts_parsed"] = n_ok
    res.coverage["texts_rejected_by_parser"] = n_err
    res.coverage["tokens_checked"] = ntok
    res.coverage["comments_checked"] = ncom
    res.coverage["distinct_nontrivial"] = len(distinct)
    res.coverage["rule"] = ("comment runs (1-5 comments: line/doc/block, one- and multi-line, /**/ /***/, stars and slashes inside, multi-byte, "
                            "CRLF / lone CR, 30% not lexer-shaped) x prefixes fixing line/column/pos; Veryl texts: synthetic designs and every "
                            "repository testcase re-laid-out under 6 noise profiles; non-trivial = run with >=2 comments, or text with >=3 "
                            "comments and >=20 tokens; distinct by bytes")
    res.coverage["token_oracle_failures"] = len(t_fail)
    res.obligation("oracle: every token/comment of %d parsed texts located, ordered, complete" % n_ok, not [x for x in t_fail if x[1] not in res.known])
    res.obligation("generated texts accepted by the parser (>= 90%%): %d of %d" % (n_ok, len(texts)), n_ok * 10 >= len(texts) * 9)
    if n_ok * 10 < len(texts) * 9:
        res.violation("generator-rejected", "the parser rejects %d of %d generated / repository texts; the check no longer exercises the property" % (n_err, len(texts)),
                      {"no_longer_checks": "end-to-end oracle input stream", "rejected": n_err}, no_input=True)

    # ---- report
    reported = set()
    for i, k, w in t_fail:
        if k in reported:
            continue
        reported.add(k)
        label, text = texts[i]
        if k in res.known:
            res.violation(k, w, {})
            continue
        small = text
        try:
            small = shrink_text(binary, text, k, lx)
        except Exception:
            pass
        im = run_tokens(binary, [("x", small)])[0]
        res.violation(k, w, {"stream": "T", "input": label, "text": small.decode("utf8", "replace"), "text_hex": hx(small),
                             "impl_stream": [list(x[:7]) + [x[7].decode("utf8", "replace")] for x in im][:60] if not isinstance(im, tuple) else repr(im)})
    for i, k, w in s_fail:
        if k in reported:
            continue
        reported.add(k)
        pre, run_, post = scases[i]
        res.violation(k, w, {"stream": "S", "pre": hx(pre), "run": hx(run_), "post": hx(post),
                             "run_text": run_.decode("utf8", "replace"), "impl": repr(simpl[i])[:1500]})
    if s_mism and not res.violations:
        i = s_mism[0]
        pre, run_, post = scases[i]
        res.violation("correspondence", "split_comment_token and the model split_comments differ; the property's oracle found no failing input",
                      {"no_longer_checks": "correspondence veryl_token::split_comment_token = VV.Pos.PosModel.split_comments",
                       "stream": "S", "pre": hx(pre), "run": hx(run_), "post": hx(post), "run_text": run_.decode("utf8", "replace"),
                       "impl": repr([x[:4] for x in simpl[i]] if not isinstance(simpl[i], tuple) else simpl[i]), "model": repr(smodel[i]),
                       "mismatching_cases": len(s_mism)}, no_input=True)
    if not proved and not res.violations:
        pf = getattr(res, "proof_failure", {})
        res.violation("proof", "Props/C12.v is no longer established: %s" % pf.get("where", "audit"),
                      {"no_longer_checks": "theorems of Props/C12.v", **pf}, no_input=True)
    return res.finish()
