"""C05 — Crashes and cache damage never leave a build wrong.

proof:   coq/Props/C05.v — crash model over the incremental build model (coq/Incr/CrashModel.v):
         a build dying at ANY point (prefix of outputs replaced, manifest old/new, info.toml
         old/truncated/new) leaves a state from which the next build equals a clean build
         (recovery_after_crash), for atomically replaced outputs; refuted with a witness for
         in-place (truncate-then-write) outputs; detectable cache damage is a miss.
tie:     hook H1 (cfg veryl_verif): VERYL_VERIF_CRASH_AT=k aborts the real CLI at its k-th
         write primitive; the enumeration of k is exhaustive for each scenario.
oracle:  after crash-at-k (or after damaging a file under .build) a plain `veryl build` must not
         panic and must leave exactly the tree / status / diagnostics of a clean build.
"""
import json
import os
import random
import shutil
import time
from concurrent.futures import ThreadPoolExecutor

from .. import common as C
from ..gen import projects as G

PID = "C05"

MANIFEST = {
    "category": "other",
    "technique": "Coq proof over a crash model of the build's write sequence + exhaustive crash-point enumeration on the "
                 "real CLI (hook H1) + corruption stream over every file under .build",
    "text": "Theorems crashed_inv / recovery_after_crash: for the Gallina model of the incremental build, a build that dies "
            "at any point of its write sequence (outputs replaced atomically, manifest replaced after all outputs, info.toml "
            "last) leaves a state satisfying the build invariant, hence the next build equals a clean build; "
            "recovery_in_place_refuted: with truncate-then-write outputs the statement is false (witness). Cache damage the "
            "store detects (bad blob, no/unparsable manifest, lost info.toml) is a miss. On the real CLI every crash point k "
            "of several scenarios is enumerated and every file under .build is deleted / truncated / bit-flipped / "
            "semantically edited; the following build is compared with a clean build.",
    "note": "Partial: analysis/emission uninterpreted as in C04; crash granularity = between the write primitives instrumented by "
            "H1 (no torn writes, no fsync/power-loss ordering); edits of manifest.toml that still parse (other valid hash, "
            "swapped fragment names, dropped dependents) are only searched, not excluded by a theorem. Trusted: Coq kernel, "
            "hand-written models, hook H1, python runner.",
}

CRASH_RC = (-6, 134)


# ------------------------------------------------------------------------------------------
# projects and scenarios
# ------------------------------------------------------------------------------------------

def small_projects(rng):
    pkg = {"kind": "pkg", "name": "PkgA", "w": 8, "v": 1}
    modb = {"kind": "mod", "name": "ModB", "ff": True, "rstval": 0, "consts": ["PkgA"], "lit": 0}
    modc = {"kind": "mod", "name": "ModC", "ff": False, "insts": ["ModB"], "unused": ["unused_a"]}
    p1 = G.Project(G.base_toml("p", True), {"src/a.veryl": pkg, "src/b.veryl": modb})
    p2 = G.Project(G.base_toml("p", True), {"src/a.veryl": pkg, "src/sub/b.veryl": modb, "src/c.veryl": modc})
    p2.toml["build"]["sourcemap_target"] = {"type": "directory", "path": "maps"}
    p3 = G.gen_project(rng, nfiles=3)
    return [("two-files", p1), ("three-files-warning-mapdir", p2), ("generated", p3)]


def _other_indent(prj):
    return 2 if prj.toml.get("format", {}).get("indent_width", 4) != 2 else 3


def scenarios(prj, rng):
    """(name, set-up steps before the build that is crashed, command that is crashed).  The
    set-up always ends in a consistent state produced by successful commands + manual steps."""
    paths = sorted(prj.files)
    B = {"op": "cmd", "cmd": "build"}
    first = paths[0]
    spec, _ = G.mutate_spec(random.Random(7), prj, first)
    spec2 = json.loads(json.dumps(prj.files[first]))
    spec2.setdefault("head_comments", []).append("edited")
    res = [
        ("cold-build", [], "build"),
        ("edit-then-build", [B, {"op": "edit", "path": first, "spec": spec2, "keep_mtime": False, "tag": "comment"}], "build"),
        ("deleted-output-then-build", [B, {"op": "out_delete", "which": "sv", "index": 0}], "build"),
        ("deleted-map-then-build", [B, {"op": "out_delete", "which": "map", "index": 1}], "build"),
        ("format-change-then-build", [B, {"op": "toml", "section": "format", "key": "indent_width", "value": _other_indent(prj)}], "build"),
        ("edit-then-check", [B, {"op": "edit", "path": first, "spec": spec2, "keep_mtime": False, "tag": "comment"}], "check"),
        ("edit-check-then-build", [B, {"op": "edit", "path": first, "spec": spec2, "keep_mtime": False, "tag": "comment"},
                                   {"op": "cmd", "cmd": "check"}], "build"),
        ("format-change-then-check", [B, {"op": "toml", "section": "format", "key": "indent_width", "value": _other_indent(prj)}], "check"),
    ]
    return res


# ------------------------------------------------------------------------------------------
# crash enumeration
# ------------------------------------------------------------------------------------------

def prepare(veryl, prj, setup, tag):
    """Materialise the project, run the set-up; returns (base dir, sandbox, project)."""
    base = C.scratch_dir(tag)
    sb = G.Sandbox(base, veryl)
    p = prj.clone()
    sb.materialise(p)
    for st in setup:
        st = json.loads(json.dumps(st))
        if st["op"] == "cmd":
            sb.run([st["cmd"]])
        else:
            sb.apply(p, st)
    return base, sb, p


def count_points(veryl, prj, setup, cmd):
    base, sb, p = prepare(veryl, prj, setup, "c05n")
    try:
        log = os.path.join(base, "points.log")
        r = sb.run([cmd], extra_env={"VERYL_VERIF_CRASH_LOG": log})
        pts = []
        if os.path.exists(log):
            for ln in open(log):
                t = ln.split(None, 2)
                if len(t) >= 2:
                    pts.append((int(t[0]), t[1], os.path.relpath(t[2].strip(), sb.root) if len(t) > 2 else ""))
        return pts, r.rc
    finally:
        shutil.rmtree(base, ignore_errors=True)


def crash_case(veryl, prj, setup, cmd, k):
    """Crash `cmd` at point k, then recover with `veryl build` and compare with a clean build.
    Returns (crashed rc, differences, recovery result brief)."""
    base, sb, p = prepare(veryl, prj, setup, "c05k")
    try:
        r = sb.run([cmd], extra_env={"VERYL_VERIF_CRASH_AT": str(k)})
        rec, cln, diffs = sb.run_vs_clean(["build"])
        # temp files left behind by a crash between create and rename are not outputs
        diffs = [d for d in diffs if not (d[0] == "tree" and d[2] and os.path.basename(d[2]).startswith(".tmp"))]
        return r.rc, diffs, {"rc": rec.rc, "restored": rec.restored, "nfiles": rec.nfiles}
    finally:
        shutil.rmtree(base, ignore_errors=True)


# ------------------------------------------------------------------------------------------
# corruption stream
# ------------------------------------------------------------------------------------------

def cache_targets(root):
    """Files under .build by ROLE (blob file names are content hashes over absolute paths, so
    they differ between sandboxes): manifest, info, (frag|diag, source relative path)."""
    import tomllib
    res = []
    mp = os.path.join(root, ".build", "cache", "manifest.toml")
    if os.path.exists(mp):
        res.append(("manifest",))
        try:
            m = tomllib.load(open(mp, "rb"))
        except Exception:
            m = {}
        for src, e in sorted(m.get("files", {}).items()):
            if e.get("fragment"):
                res.append(("frag", os.path.relpath(src, root)))
            if e.get("diagnostics"):
                res.append(("diag", os.path.relpath(src, root)))
    if os.path.exists(os.path.join(root, ".build", "info.toml")):
        res.append(("info",))
    return res


def target_path(root, tgt):
    import tomllib
    if tgt[0] == "manifest":
        return os.path.join(root, ".build", "cache", "manifest.toml")
    if tgt[0] == "info":
        return os.path.join(root, ".build", "info.toml")
    m = tomllib.load(open(os.path.join(root, ".build", "cache", "manifest.toml"), "rb"))
    e = m["files"].get(os.path.join(root, tgt[1]), {})
    rel = e.get("fragment" if tgt[0] == "frag" else "diagnostics")
    return os.path.join(root, ".build", "cache", rel) if rel else None


def corruption_names(tgt, n, rng):
    """names of the damages applied to one file of length n (see apply_corruption)"""
    out = ["delete", "empty", "garbage"]
    for ln in sorted({1, 3, 4, 7, 8, 9, n // 2, max(n - 1, 0)}):
        if 0 < ln < n:
            out.append("truncate@%d" % ln)
    for pos in sorted({0, 3, 4, 5, 8, 9, 16, n // 3, n // 2, (2 * n) // 3, n - 2, n - 1}):
        if 0 <= pos < n:
            out.append("flip@%d:%d" % (pos, rng.randrange(8)))
    if tgt[0] == "manifest":
        out += ["toml-syntax", "toml-append-unknown", "key-changed", "schema-changed", "hash-changed",
                "fragments-swapped", "fragment-missing-file", "dependents-dropped"]
    if tgt[0] == "info":
        out += ["toml-syntax", "toml-append-unknown", "stamps-future", "stamps-zero"]
    return out


def apply_corruption(name, data):
    """new contents (None = delete the file; the data itself when the damage does not apply)"""
    import re
    if name == "delete":
        return None
    if name == "empty":
        return b""
    if name == "garbage":
        return b"\x00garbage\xff" * 3
    if name.startswith("truncate@"):
        return data[:int(name.split("@")[1])]
    if name.startswith("flip@"):
        pos, bit = name.split("@")[1].split(":")
        pos = int(pos)
        if pos >= len(data):
            return data
        b = bytearray(data)
        b[pos] ^= 1 << int(bit)
        return bytes(b)
    try:
        txt = data.decode()
    except UnicodeDecodeError:
        return data
    if name == "toml-syntax":
        return (txt + "\n[[[").encode()
    if name == "toml-append-unknown":
        return (txt + "\nunknown_key = 1\n").encode()
    if name == "key-changed":
        return re.sub(r'global_key = "(.)', lambda m: 'global_key = "' + ("0" if m.group(1) != "0" else "1"), txt, 1).encode()
    if name == "schema-changed":
        return re.sub(r"schema = \d+", "schema = 1", txt, 1).encode()
    if name == "hash-changed":
        hs = re.findall(r'hash = "([0-9a-f]+)"', txt)
        return txt.replace(hs[0], hs[0][:-1] + ("0" if hs[0][-1] != "0" else "1"), 1).encode() if hs else data
    if name in ("fragments-swapped", "fragment-missing-file"):
        fr = sorted(set(re.findall(r'fragment = "([^"]+)"', txt)))
        if len(fr) < 2:
            return data
        a, b = fr[:2]
        if name == "fragments-swapped":
            return txt.replace(a, "@@").replace(b, a).replace("@@", b).encode()
        return txt.replace(a, a[:-6] + "0.frag").encode()
    if name == "dependents-dropped":
        return re.sub(r"dependents = \[[^\]]*\]", "dependents = []", txt).encode()
    if name == "info-drop-sv":
        # well-formed info.toml without the stamps of the .sv outputs (maps and filelist kept)
        parts = re.split(r"(?m)^(?=\[generated_files\.)", txt)
        return (parts[0] + "".join(e for e in parts[1:] if not re.match(r'\[generated_files\."[^"]*\.sv"\]', e))).encode()
    if name in ("info-keep-first", "info-drop-first", "info-header-only"):
        # cuts that leave a well-formed info.toml with some (or all) generated_files entries gone
        parts = re.split(r"(?m)^(?=\[generated_files\.)", txt)
        head, ents = parts[0], parts[1:]
        if name == "info-header-only" or not ents:
            return head.encode()
        return (head + (ents[0] if name == "info-keep-first" else "".join(ents[1:]))).encode()
    if name == "stamps-future":
        return re.sub(r"secs_since_epoch = \d+", "secs_since_epoch = 4102444800", txt).encode()
    if name == "stamps-zero":
        return re.sub(r"secs_since_epoch = \d+", "secs_since_epoch = 0", txt).encode()
    return data


def _stamps(root):
    import tomllib
    try:
        m = tomllib.load(open(os.path.join(root, ".build", "info.toml"), "rb"))
        return {os.path.relpath(k, root): (v.get("secs_since_epoch"), v.get("nanos_since_epoch"))
                for k, v in m.get("generated_files", {}).items()}
    except Exception:
        return {}


def corruption_case(veryl, prj, tgt, name, then_edit, setup=None, cmds=(("check",), ("build",)), info_out=None):
    """set-up (default: one build), damage one file under .build, then run `cmds`, each compared
    with a clean run"""
    base, sb, p = prepare(veryl, prj, setup if setup is not None else [{"op": "cmd", "cmd": "build"}], "c05c")
    try:
        path = target_path(sb.root, tuple(tgt))
        if path is None or not os.path.exists(path):
            return []
        before = _stamps(sb.root)
        new = apply_corruption(name, open(path, "rb").read())
        if new is None:
            os.remove(path)
        else:
            with open(path, "wb") as f:
                f.write(new)
        if info_out is not None:
            after = _stamps(sb.root)
            # outputs whose generated_files stamp survived the damage unchanged
            info_out["intact"] = sorted(k for k, v in after.items() if before.get(k) == v)
        out = []
        for cmd in [list(c) for c in cmds]:
            r, c, diffs = sb.run_vs_clean(cmd)
            out.append((cmd[0], r.rc, diffs))
        if then_edit:
            f0 = sorted(p.files)[0]
            spec = json.loads(json.dumps(p.files[f0]))
            spec.setdefault("head_comments", []).append("after damage")
            sb.apply(p, {"op": "edit", "path": f0, "spec": spec, "keep_mtime": False})
            r, c, diffs = sb.run_vs_clean(["build"])
            out.append(("edit+build", r.rc, diffs))
        return out
    finally:
        shutil.rmtree(base, ignore_errors=True)


def prehistories(prj):
    """States in which the cache manifest, the stamps and the outputs are NOT in step when the
    damage happens (a `check` shares the fragment cache: it records new hashes/fragments but never
    emits).  (name, set-up steps)"""
    B = {"op": "cmd", "cmd": "build"}
    K = {"op": "cmd", "cmd": "check"}
    first = sorted(prj.files)[0]
    orig = json.loads(json.dumps(prj.files[first]))
    edited = json.loads(json.dumps(orig))
    if edited["kind"] == "pkg":
        edited["w"] = 16 if edited.get("w") != 16 else 4        # visible in the emitted text
    else:
        edited["add"] = (edited.get("add") or 0) + 1
    E = {"op": "edit", "path": first, "spec": edited, "keep_mtime": False, "tag": "pre"}
    Eb = {"op": "edit", "path": first, "spec": orig, "keep_mtime": False, "tag": "pre-back"}
    return [
        ("edit-check", [B, E, K]),
        ("edit-check-editback", [B, E, K, Eb]),
        ("edit-check-edit-keepmtime-back", [B, E, K, dict(Eb, keep_mtime=True)]),
        ("delete-output", [B, {"op": "out_delete", "which": "sv", "index": 0}]),
        ("touch-source", [B, {"op": "touch", "path": first}]),
        ("toml-check", [B, {"op": "toml", "section": "format", "key": "indent_width", "value": _other_indent(prj)}, K]),
        ("edit-build-check", [B, E, B, K]),
    ], first


def prehistory_damages(first):
    """damage kinds of the pre-history stream.  Not included: forged stamps (`stamps-future`): a
    well-formed info.toml with later stamps cannot be told from a genuine one, which is the
    recorded C04 finding check-refreshes-cache, not a detectable damage."""
    inf = ["delete", "empty", "garbage", "truncate@7", "truncate@120", "toml-syntax", "stamps-zero",
           "info-keep-first", "info-drop-first", "info-drop-sv", "info-header-only"]
    man = ["delete", "garbage", "hash-changed", "key-changed", "dependents-dropped", "toml-append-unknown"]
    return ([(("info",), n) for n in inf] + [(("manifest",), n) for n in man]
            + [(("frag", first), "delete"), (("frag", first), "garbage"), (("frag", first), "flip@40:3")])


def list_corruptions(veryl, prj, rng):
    base, sb, p = prepare(veryl, prj, [{"op": "cmd", "cmd": "build"}], "c05l")
    try:
        res = []
        for tgt in cache_targets(sb.root):
            n = os.path.getsize(target_path(sb.root, tgt))
            for name in corruption_names(tgt, n, rng):
                res.append((tgt, name))
        return res
    finally:
        shutil.rmtree(base, ignore_errors=True)


# ------------------------------------------------------------------------------------------
# the check
# ------------------------------------------------------------------------------------------

def classify_crash(label, diffs):
    """A crash point that leaves a wrong tree: known classes by the write primitive it hit."""
    if label.startswith("inplace:truncated"):
        return "inplace-truncated-output-kept"
    return "crash-recovery:" + label.split(":")[0]


def run(tier, seed, replay):
    res = C.Result(PID, "other", tier, seed)
    res.coverage["explanation"] = (
        "partial proof + fault enumeration: recovery_after_crash is proved for every crash point of the modelled write sequence "
        "(analysis/emission uninterpreted as in C04; granularity = between write primitives); the real CLI is killed at every "
        "instrumented write point of several scenarios (hook H1) and every file under .build is damaged in many ways; the build "
        "that follows is compared with a clean build")
    res.coverage["trusted_base"] = C.std_trusted_base([
        "model: coq/Incr/CrashModel.v (order of the writes of one build, crash = prefix) over coq/Incr/IncrModel.v",
        "hook H1 (crates/path verif_crash: abort at the k-th write primitive; points in atomic_write, write_file_if_changed, "
        "BuildInfo::save, cache gc), built with --cfg veryl_verif",
        "the real CLI driven in scratch projects with a private HOME"])
    res.assumptions = [
        "crash granularity: between instrumented primitives (temp written / renamed, info.toml truncated / written, blob removed); "
        "no torn writes, no reordering by the OS (fsync / power loss are outside the model)",
        "hypotheses (D), (W), (E) of C04; the recovery build meets the side condition deps_present",
        "blob damage is detected by the content address (read_blob); manifest edits that still parse are searched by the corruption stream only"]
    proved = C.prove(res, PID)

    ok, bins, log = C.cli_build()
    res.obligation("CLI build from the working tree (hooks on)", ok, log[-400:])
    if not ok:
        res.violation("cli-build", "the veryl CLI no longer builds: " + log[-300:], {"log": log[-2000:]}, no_input=True)
        return res.finish()
    bindir = C.scratch_dir("c05bin")
    veryl = G.private_binary(bins["veryl"], bindir)
    try:
        return _run_with(res, veryl, tier, seed, replay, proved)
    finally:
        shutil.rmtree(bindir, ignore_errors=True)


def _run_with(res, veryl, tier, seed, replay, proved):
    rng = random.Random(seed * 7919 + 5)
    projects = small_projects(rng)

    if replay:
        rp = json.load(open(replay))
        prj = G.Project.from_json(rp["project"])
        if rp.get("kind") == "crash":
            rc, diffs, brief = crash_case(veryl, prj, rp["setup"], rp["cmd"], rp["k"])
            print("replay: crashed rc", rc, "recovery", brief, "diffs", diffs)
            for d in diffs:
                res.violation(rp.get("key", "crash-recovery"), d[1], rp)
        elif rp.get("kind") == "prehistory":
            outs = corruption_case(veryl, prj, rp["file"], rp["name"], False, setup=rp["setup"], cmds=(("build",),))
            print("replay:", outs)
            for cmd, rc, diffs in outs:
                for d in diffs:
                    res.violation(rp.get("key", "prehistory"), d[1], rp)
            return res.finish()
        else:
            outs = corruption_case(veryl, prj, rp["file"], rp["name"], True)
            print("replay:", outs)
            for cmd, rc, diffs in outs:
                for d in diffs:
                    res.violation(rp.get("key", "damage"), d[1], rp)
        return res.finish()

    viol = []
    # ---- 0. corpus (hand-written witnesses, run first)
    cdir = os.path.join(C.VERIF, "corpus", PID)
    ncorpus = 0
    for fn in sorted(os.listdir(cdir)) if os.path.isdir(cdir) else []:
        if not fn.endswith(".json"):
            continue
        rp = json.load(open(os.path.join(cdir, fn)))
        prj = G.Project.from_json(rp["project"])
        ncorpus += 1
        if rp["kind"] == "crash":
            rc, diffs, brief = crash_case(veryl, prj, rp["setup"], rp["cmd"], rp["k"])
            for d in diffs:
                viol.append(("corpus-" + fn[:-5] + ":" + d[0], "corpus %s: %s" % (fn, d[1]), rp))
        else:
            for cmd, rc, diffs in corruption_case(veryl, prj, rp["file"], rp["name"], True):
                for d in diffs:
                    viol.append(("corpus-" + fn[:-5] + ":" + d[0], "corpus %s, then `veryl %s`: %s" % (fn, cmd, d[1]), rp))
    res.coverage["corpus_cases"] = ncorpus

    # ---- 1. hook self-test + enumeration of crash points
    jobs = []
    total_points = 0
    hook_ok = True
    scen_list = []
    for pname, prj in projects:
        for sname, setup, cmd in scenarios(prj, rng):
            scen_list.append((pname, prj, sname, setup, cmd))
    with ThreadPoolExecutor(max_workers=min(C.NCPU, 16)) as exe:
        counted = list(exe.map(lambda s: count_points(veryl, s[1], s[3], s[4]), scen_list))
    for (pname, prj, sname, setup, cmd), (pts, rc) in zip(scen_list, counted):
        if not pts and sname == "cold-build":
            hook_ok = False          # a cold build always writes; other scenarios may legitimately write nothing
        res.hist("crash_points_per_scenario", "%s/%s" % (pname, sname), len(pts))
        for lbl in pts:
            res.hist("crash_point_kinds", lbl[1])
        total_points += len(pts)
        ks = list(range(1, len(pts) + 1))
        if tier == "quick" and pname == "generated":
            ks = ks[::2]            # the generated project: every other point in the quick tier
        for k in ks:
            jobs.append((pname, prj, sname, setup, cmd, k, pts[k - 1]))
    res.obligation("hook H1 reachable: every scenario reports its write primitives (%d points)" % total_points, hook_ok)
    if not hook_ok:
        res.violation("hook", "VERYL_VERIF_CRASH_LOG produced no crash points: hook H1 is missing from the build", {}, no_input=True)
        return res.finish()

    def do_crash(j):
        pname, prj, sname, setup, cmd, k, lbl = j
        return j, crash_case(veryl, prj, setup, cmd, k)

    t0 = time.time()
    with ThreadPoolExecutor(max_workers=min(C.NCPU, 16)) as exe:
        crash_results = list(exe.map(do_crash, jobs))
    res.coverage["crash_wall_s"] = round(time.time() - t0, 1)
    not_aborted = 0
    for (pname, prj, sname, setup, cmd, k, lbl), (rc, diffs, brief) in crash_results:
        if rc not in CRASH_RC:
            not_aborted += 1
        for d in diffs:
            key = classify_crash(lbl[1], diffs) if d[0] == "tree" else ("crash-recovery-" + d[0])
            if sname == "format-change-then-check" and d[0] == "tree":
                # a check that got as far as replacing the manifest under the new key, info.toml intact
                key = "check-refreshes-cache-info-intact"
            viol.append((key, "%s / %s: `veryl %s` killed at write point %d (%s %s), then `veryl build`: %s" % (
                pname, sname, cmd, k, lbl[1], lbl[2], d[1]),
                {"kind": "crash", "project": prj.to_json(), "setup": setup, "cmd": cmd, "k": k, "point": list(lbl),
                 "recovery": brief}))
    # a k beyond the points this particular run reaches (the number of gc / lock-file writes can vary
    # by one or two between runs) simply lets the command finish; that is not a failure of the hook
    res.coverage["crash_points_not_reached"] = not_aborted
    res.obligation("crash injection effective: at least 90%% of the selected points aborted the process (%d of %d did not)"
                   % (not_aborted, len(jobs)), not_aborted * 10 <= len(jobs))
    res.coverage["crash_cases"] = len(jobs)

    # ---- 2. corruption stream
    cjobs = []
    for pname, prj in projects[:2] if tier == "quick" else projects:
        lst = list_corruptions(veryl, prj, rng)
        if tier == "quick":
            # all semantic edits and deletions, a deterministic sample of the byte-level ones
            keep = [c for c in lst if not (c[1].startswith("flip@") or c[1].startswith("truncate@"))]
            rest = [c for c in lst if c not in keep]
            rng.shuffle(rest)
            lst = keep + rest[:40]
        for tgt, name in lst:
            cjobs.append((pname, prj, tgt, name))

    def do_corrupt(j):
        pname, prj, tgt, name = j
        return j, corruption_case(veryl, prj, tgt, name, then_edit=True)

    t0 = time.time()
    with ThreadPoolExecutor(max_workers=min(C.NCPU, 16)) as exe:
        corr_results = list(exe.map(do_corrupt, cjobs))
    res.coverage["corruption_wall_s"] = round(time.time() - t0, 1)
    for (pname, prj, tgt, name), outs in corr_results:
        kind = tgt[0]
        rel = "/".join(tgt)
        res.hist("corruption_kinds", "%s:%s" % (kind, name.split("@")[0]))
        for cmd, rc, diffs in outs:
            for d in diffs:
                key = "damage-%s-%s:%s" % (kind, name.split("@")[0], d[0])
                viol.append((key, "%s: %s of %s, then `veryl %s`: %s" % (pname, name, rel, cmd, d[1]),
                             {"kind": "damage", "project": prj.to_json(), "file": list(tgt), "name": name}))
    res.coverage["corruption_cases"] = len(cjobs)

    # ---- 3. damage after pre-histories (manifest ahead of the outputs / stamps)
    pjobs = []
    for pname, prj in projects[:2] if tier == "quick" else projects:
        pres, first = prehistories(prj)
        for prename, setup in pres:
            for tgt, name in prehistory_damages(first):
                pjobs.append((pname, prj, prename, setup, tgt, name))

    def do_pre(j):
        pname, prj, prename, setup, tgt, name = j
        io = {}
        outs = corruption_case(veryl, prj, tgt, name, then_edit=False, setup=setup, cmds=(("build",),), info_out=io)
        return j, (outs, io.get("intact", []))

    t0 = time.time()
    with ThreadPoolExecutor(max_workers=min(C.NCPU, 16)) as exe:
        pre_results = list(exe.map(do_pre, pjobs))
    res.coverage["prehistory_wall_s"] = round(time.time() - t0, 1)
    for (pname, prj, prename, setup, tgt, name), (outs, intact) in pre_results:
        res.hist("prehistory_kinds", "%s/%s:%s" % (prename, tgt[0], name.split("@")[0]))
        for cmd, rc, diffs in outs:
            stale_sv = [d[2] for d in diffs if d[0] == "tree" and d[2] and d[2].endswith(".sv")]
            for d in diffs:
                key = "prehistory-%s-%s-%s:%s" % (prename, tgt[0], name.split("@")[0], d[0])
                if prename == "toml-check" and d[0] == "tree" and stale_sv and all(x in intact for x in stale_sv):
                    # the stamp of every stale output survived the damage unchanged: the recorded C04
                    # class (check records hash+key without emitting), not an effect of the damage
                    key = "check-refreshes-cache-info-intact"
                viol.append((key, "%s: after %s, %s of %s, then `veryl %s`: %s" % (pname, prename, name, "/".join(tgt), cmd, d[1]),
                             {"kind": "prehistory", "project": prj.to_json(), "setup": setup, "file": list(tgt), "name": name}))
    res.coverage["prehistory_cases"] = len(pjobs)
    res.coverage["evaluations"] = len(jobs) + len(cjobs) + len(pjobs)
    res.coverage["distinct_nontrivial"] = len({(j[0], j[2], j[5]) for j in jobs}) + len({(j[0], "/".join(j[2]), j[3]) for j in cjobs})
    res.coverage["rule"] = ("crash case = (project, scenario, k): scenario sets up a consistent state (cold / edited / output deleted / map "
                            "deleted / [format] changed / check after edit), the command is killed at its k-th write primitive "
                            "(exhaustive k per scenario; every other k for the generated project in the quick tier), then `veryl build` "
                            "is compared with a clean build; damage case = (project, file under .build, damage): delete, empty, garbage, "
                            "truncation at header/length boundaries, single-bit flips at header/payload positions, toml edits (syntax, key, "
                            "schema, hash, swapped fragments, missing fragment, dropped dependents, stamps), then check, build, edit+build; "
                            "damage-after-pre-history case = (project, pre-history that puts the manifest ahead of outputs/stamps: "
                            "edit+check, edit+check+edit-back, deleted output, touched source, toml change+check, edit+build+check) x "
                            "(info.toml / manifest / edited file's fragment damage incl. well-formed cuts of info.toml), then build; "
                            "every case is distinct and non-trivial by construction")
    res.sample({"crash_points_first_scenario": [list(x) for x in counted[0][0][:12]]})
    res.obligation("oracle: recovery build == clean build on %d crash cases, %d damage cases and %d damage-after-pre-history cases"
                   % (len(jobs), len(cjobs), len(pjobs)),
                   not [v for v in viol if v[0] not in res.known])
    reported = set()
    for key, what, rp in viol:
        if key in reported:
            continue
        reported.add(key)
        res.violation(key, what, rp if key not in res.known else {})
    if not proved and not res.violations:
        pf = getattr(res, "proof_failure", {})
        res.violation("proof", "Props/C05.v is no longer established: %s" % pf.get("where", "audit"),
                      {"no_longer_checks": "theorems of Props/C05.v", **pf}, no_input=True)
    return res.finish()
