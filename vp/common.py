"""Shared machinery for the /verif checks: Coq build + audit, harness build, model evaluation
inside Coq (vm_compute), evidence / replay / known-finding handling.

Every check is   ./check Cxx [--tier quick|thorough] [--replay file]   and follows the order in
DESIGN.md section 1: translate -> prove -> build harness -> correspond -> (search) -> evidence.
"""
import fcntl
import hashlib
import json
import os
import random
import re
import shutil
import subprocess
import sys
import time
from concurrent.futures import ThreadPoolExecutor

VERIF = os.path.dirname(os.path.dirname(os.path.abspath(__file__)))
REPO = os.path.realpath(os.environ.get("VERIF_REPO", "/repo"))
WORK = os.path.join(VERIF, ".work")
NCPU = os.cpu_count() or 4
# development aid: while many people share the machine (.work/BUSY exists) every check run is throttled
BUSY = os.path.exists(os.path.join(WORK, "BUSY"))
if os.environ.get("VERIF_NCPU"):
    NCPU = max(1, int(os.environ["VERIF_NCPU"]))
elif BUSY:
    NCPU = 5
ALT = REPO != "/repo"
if not ALT:
    # the registered checks: /repo itself, evidence and replays under /verif
    COQ = os.path.join(VERIF, "coq")
    TARGET = os.path.join(WORK, "target")
    EVID = os.path.join(VERIF, "evidence")
    REPLAYS = os.path.join(VERIF, "replays")
    LOCKS = WORK
else:
    # development aid (seeded-change experiments): VERIF_REPO=<scratch worktree> runs the same check
    # against another tree in complete isolation: own cargo target dir, own copy of the Coq tree
    # (translators write Generated/*.v), own evidence/replays.  Never used by a registered command.
    _tag = re.sub(r"[^A-Za-z0-9]+", "_", REPO).strip("_")
    WORKALT = os.path.join(WORK, "alt", _tag)
    COQ = os.path.join(WORKALT, "coq")
    # one cargo target dir shared by ALL alternative trees (a copy per tree costs ~10 GB each);
    # cargo keys artifacts by package path, so trees do not clash; the produced binaries are
    # copied to WORKALT/bin right after the build because the next tree's build overwrites them
    TARGET = os.environ.get("VERIF_ALT_TARGET") or os.path.join(WORK, "alt-target")
    EVID = os.path.join(WORKALT, "evidence")
    REPLAYS = os.path.join(WORKALT, "replays")
    LOCKS = WORKALT
HARNESS = os.path.join(VERIF, "harness")

GUARD_CFG = "--cfg veryl_verif"

FORBIDDEN = re.compile(
    r"\b(Admitted|admit|Axiom|Axioms|Parameter|Parameters|Conjecture|Conjectures|"
    r"Unset\s+Guard|Unset\s+Positivity|Unset\s+Universe|bypass_check|type-in-type|"
    r"impredicative-set|Admit\s+Obligations|native_compute)\b")

# axioms from the Coq standard library that a proof may use (each named in DESIGN.md section 3)
AXIOM_ALLOW = {
    "functional_extensionality_dep",
    "FunctionalExtensionality.functional_extensionality_dep",
    "Coq.Logic.FunctionalExtensionality.functional_extensionality_dep",
    "proof_irrelevance", "ProofIrrelevance.proof_irrelevance",
    "Eqdep.Eq_rect_eq.eq_rect_eq", "Coq.Logic.Eqdep.Eq_rect_eq.eq_rect_eq", "eq_rect_eq",
    "JMeq_eq", "JMeq.JMeq_eq", "Coq.Logic.JMeq.JMeq_eq",
    "classic", "Classical_Prop.classic", "Coq.Logic.Classical_Prop.classic",
}


_alt_ready = [False]


def ensure_dirs():
    for d in (WORK, EVID, REPLAYS, os.path.join(WORK, "cases"), os.path.join(WORK, "scratch")):
        os.makedirs(d, exist_ok=True)
    if ALT and not _alt_ready[0]:
        _alt_ready[0] = True
        os.makedirs(WORKALT, exist_ok=True)
        # copy of the Coq tree (sources + compiled files, timestamps kept so make rebuilds nothing)
        subprocess.run(["rsync", "-a", os.path.join(VERIF, "coq") + "/", COQ + "/"], check=True)
        # seed the cargo target dir with the registry crates already compiled for /repo
        with FileLock("cargo"):
            if not os.path.exists(TARGET) and os.path.exists(os.path.join(WORK, "target")):
                subprocess.run(["cp", "-a", os.path.join(WORK, "target"), TARGET + ".tmp"], check=False)
                os.rename(TARGET + ".tmp", TARGET)


def sh(cmd, timeout=None, cwd=None, env=None, inp=None):
    """Run a command; returns (rc, stdout, stderr). rc=124 on timeout."""
    e = dict(os.environ)
    e.setdefault("CARGO_NET_OFFLINE", "true")
    if BUSY:
        e.setdefault("CARGO_BUILD_JOBS", "6")
    if ALT:
        e.setdefault("CARGO_INCREMENTAL", "0")   # the shared alt target dir must stay small
    if env:
        e.update(env)
    try:
        p = subprocess.run(cmd, cwd=cwd, env=e, input=inp, capture_output=True, text=True,
                           timeout=timeout, shell=isinstance(cmd, str))
        return p.returncode, p.stdout, p.stderr
    except subprocess.TimeoutExpired as ex:
        def _s(b):
            if b is None:
                return ""
            return b if isinstance(b, str) else b.decode("utf8", "replace")
        return 124, _s(ex.stdout), _s(ex.stderr) + "\nTIMEOUT"


class FileLock:
    def __init__(self, name):
        ensure_dirs()
        if ALT and name == "cargo":
            self.path = TARGET.rstrip("/") + ".lock"
        else:
            self.path = os.path.join(LOCKS, name + ".lock")

    def __enter__(self):
        self.f = open(self.path, "w")
        fcntl.flock(self.f, fcntl.LOCK_EX)
        return self

    def __exit__(self, *a):
        fcntl.flock(self.f, fcntl.LOCK_UN)
        self.f.close()


# ------------------------------------------------------------------------------------ Coq

def coq_project_files():
    out = []
    for root, dirs, files in os.walk(COQ):
        dirs[:] = [d for d in dirs if not d.startswith(".")]
        for f in files:
            if f.endswith(".v") and not f.startswith("."):
                out.append(os.path.relpath(os.path.join(root, f), COQ))
    return sorted(out)


def coq_makefile():
    """_CoqProject is regenerated from the directory listing (every coq/**/*.v), so adding a file
    needs no edit; Makefile.coq is regenerated when the list changes."""
    mk = os.path.join(COQ, "Makefile.coq")
    proj = os.path.join(COQ, "_CoqProject")
    want = ("-Q . VV\n-arg -w -arg -notation-overridden,-deprecated-hint-without-locality,"
            "-deprecated-instance-without-locality\n" + "\n".join(coq_project_files()) + "\n")
    have = open(proj).read() if os.path.exists(proj) else ""
    if want != have:
        with open(proj, "w") as f:
            f.write(want)
    if (not os.path.exists(mk)) or want != have or os.path.getmtime(mk) < os.path.getmtime(proj):
        rc, o, e = sh(["coq_makefile", "-f", "_CoqProject", "-o", "Makefile.coq"], cwd=COQ, timeout=120)
        if rc != 0:
            raise RuntimeError("coq_makefile failed: " + o + e)


def coq_make(targets, timeout=1500):
    """Full .vo build of the given targets (relative to coq/). Returns (ok, log)."""
    with FileLock("coq"):
        coq_makefile()
        rc, o, e = sh(["make", "-f", "Makefile.coq", "-j", str(NCPU)] + list(targets),
                      cwd=COQ, timeout=timeout)
    return rc == 0, o + e


def coq_deps_of(vfile):
    """Transitive VV.* source files a Props file depends on (by scanning Require lines)."""
    seen = set()
    todo = [vfile]
    while todo:
        f = todo.pop()
        if f in seen or not os.path.exists(os.path.join(COQ, f)):
            continue
        seen.add(f)
        txt = open(os.path.join(COQ, f)).read()
        for m in re.finditer(r"From\s+VV\s+Require\s+(?:Import\s+|Export\s+)?((?:[A-Za-z_]\w*(?:\.[A-Za-z_]\w*)*\s*)+)\.(?:\s|$)", txt):
            for mod in m.group(1).split():
                todo.append(mod.replace(".", "/") + ".v")
    return sorted(seen)


def strip_coq_comments(txt):
    out = []
    depth = 0
    i = 0
    while i < len(txt):
        if txt.startswith("(*", i):
            depth += 1
            i += 2
        elif txt.startswith("*)", i) and depth > 0:
            depth -= 1
            i += 2
        else:
            if depth == 0:
                out.append(txt[i])
            i += 1
    return "".join(out)


def coq_forbidden_scan(files):
    """Return list of (file, word) for forbidden vernacular in the given coq/ files."""
    bad = []
    for f in files:
        txt = strip_coq_comments(open(os.path.join(COQ, f)).read())
        for m in FORBIDDEN.finditer(txt):
            bad.append((f, m.group(0)))
    return bad


def coq_theorems(props_file):
    txt = strip_coq_comments(open(os.path.join(COQ, props_file)).read())
    return re.findall(r"^\s*Theorem\s+([A-Za-z_][\w']*)", txt, re.M)


def coq_eval(name, body, timeout=600):
    """Compile a scratch .v file (under .work/cases) against the built development.
    Returns (rc, stdout+stderr)."""
    ensure_dirs()
    d = os.path.join(WORK, "cases")
    path = os.path.join(d, name + ".v")
    with open(path, "w") as f:
        f.write(body)
    rc, o, e = sh(["coqc", "-noglob", "-Q", COQ, "VV", "-w", "-all", path], cwd=d, timeout=timeout)
    for ext in (".vo", ".vok", ".vos", ".glob"):
        try:
            os.remove(os.path.join(d, name + ext))
        except OSError:
            pass
    return rc, o + e


def coq_assumptions(props_module, theorems):
    """Print Assumptions for each theorem. Returns dict name -> list of axioms ([] = closed)."""
    body = "From VV Require Import %s.\n" % props_module
    for t in theorems:
        body += 'Goal True. idtac "@@BEGIN %s". exact I. Qed.\nPrint Assumptions %s.\n' % (t, t)
    body += 'Goal True. idtac "@@END". exact I. Qed.\n'
    rc, out = coq_eval("audit_" + props_module.replace(".", "_"), body, timeout=600)
    res = {}
    if rc != 0:
        return None, out
    cur = None
    for line in out.splitlines():
        m = re.match(r"@@BEGIN (\S+)", line)
        if m:
            cur = m.group(1)
            res[cur] = []
            continue
        if line.startswith("@@END"):
            cur = None
            continue
        if cur is None:
            continue
        if "Closed under the global context" in line or line.strip() in ("", "Axioms:"):
            continue
        m = re.match(r"^([A-Za-z_][\w.']*)\s*:", line)
        if m:
            res[cur].append(m.group(1))
    return res, out


# --- parsing of values printed by Coq (Eval vm_compute) -------------------------------

_TOK = re.compile(r"\s*(\[|\]|\(|\)|;|,|-?\d+|[A-Za-z_][\w'.]*|\"(?:[^\"]|\"\")*\"|%[A-Za-z_]+)")


def parse_coq_value(s):
    """Parse a Coq-printed value made of lists, tuples, numbers, bools, constructors
    applied to arguments, strings. Returns nested python lists/tuples/ints/strs."""
    toks = [t for t in _TOK.findall(s) if not t.startswith("%")]
    pos = [0]

    def peek():
        return toks[pos[0]] if pos[0] < len(toks) else None

    def nxt():
        t = toks[pos[0]]
        pos[0] += 1
        return t

    def atom():
        t = nxt()
        if t == "[":
            items = []
            if peek() == "]":
                nxt()
                return items
            while True:
                items.append(expr())
                t2 = nxt()
                if t2 == "]":
                    return items
                assert t2 == ";", (t2, toks[max(0, pos[0] - 5):pos[0] + 5])
        if t == "(":
            items = [expr()]
            while peek() == ",":
                nxt()
                items.append(expr())
            assert nxt() == ")"
            return items[0] if len(items) == 1 else tuple(items)
        if re.fullmatch(r"-?\d+", t):
            return int(t)
        if t.startswith('"'):
            return t[1:-1].replace('""', '"')
        if t == "true":
            return True
        if t == "false":
            return False
        return ("@", t)

    def expr():
        a = atom()
        if isinstance(a, tuple) and len(a) == 2 and a[0] == "@":
            args = []
            while peek() is not None and peek() not in ("]", ")", ";", ","):
                args.append(atom())
            if not args:
                return a[1]
            return (a[1],) + tuple(args)
        return a

    return expr()


def coq_eval_values(name, preamble, exprs, timeout=900):
    """Evaluate Coq expressions with vm_compute; returns list of parsed values (or raises)."""
    body = preamble + "\nSet Printing Width 100000000.\nSet Printing Depth 100000000.\n"
    for i, ex in enumerate(exprs):
        body += 'Goal True. idtac "@@V %d". exact I. Qed.\nEval vm_compute in (%s).\n' % (i, ex)
    body += 'Goal True. idtac "@@E". exact I. Qed.\n'
    rc, out = coq_eval(name, body, timeout=timeout)
    if rc != 0:
        raise RuntimeError("coqc failed on %s: %s" % (name, out[-3000:]))
    vals = []
    chunks = re.split(r"@@V \d+\n|@@E\n", out)
    for ch in chunks[1:1 + len(exprs)]:
        m = re.search(r"=\s(.*)\n\s*:\s", ch, re.S)
        if not m:
            raise RuntimeError("cannot parse coq output: " + ch[:500])
        vals.append(parse_coq_value(m.group(1)))
    return vals


def coq_eval_sharded(name, preamble, case_terms, wrap, shard=250, timeout=900):
    """case_terms: list of Coq terms (strings); wrap(list_term) -> Coq expr yielding a list with one
    result per case. Runs shards in parallel; returns list of parsed per-case results."""
    shards = [case_terms[i:i + shard] for i in range(0, len(case_terms), shard)]
    results = [None] * len(shards)

    def work(i):
        lst = "[" + ";\n ".join(shards[i]) + "]"
        vals = coq_eval_values("%s_%d" % (name, i), preamble, [wrap(lst)], timeout=timeout)
        return i, vals[0]

    with ThreadPoolExecutor(max_workers=NCPU) as ex:
        for i, v in ex.map(work, range(len(shards))):
            results[i] = v
    flat = []
    for i, r in enumerate(results):
        if len(r) != len(shards[i]):
            raise RuntimeError("shard %d: %d results for %d cases" % (i, len(r), len(shards[i])))
        flat.extend(r)
    return flat


def cstr(codepoints):
    """python list of ints -> Coq list N term"""
    return "[" + ";".join(str(c) for c in codepoints) + "]"


# ------------------------------------------------------------------------------------ harness

def repo_fingerprint():
    """Identity of /repo's current working tree: HEAD, every tracked modification (content), every
    untracked non-ignored file (path, size, mtime).  Two equal fingerprints = same sources."""
    h = hashlib.sha256()
    for cmd in (["git", "rev-parse", "HEAD"], ["git", "diff", "HEAD", "--binary"],
                ["git", "ls-files", "--others", "--exclude-standard"]):
        rc, o, e = sh(cmd, cwd=REPO, timeout=300)
        if rc != 0:
            return None
        h.update(o.encode("utf8", "replace"))
        if cmd[1] == "ls-files":
            for f in o.splitlines():
                try:
                    st = os.stat(os.path.join(REPO, f))
                    h.update(("%s %d %d" % (f, st.st_size, st.st_mtime_ns)).encode())
                except OSError:
                    pass
    return h.hexdigest()


def _dir_fingerprint(d):
    h = hashlib.sha256()
    for root, dirs, files in os.walk(d):
        dirs[:] = sorted(x for x in dirs if x not in ("target", ".git"))
        for f in sorted(files):
            if f == "Cargo.lock":
                continue
            pth = os.path.join(root, f)
            try:
                h.update(pth.encode())
                h.update(open(pth, "rb").read())
            except OSError:
                pass
    return h.hexdigest()


def _stamp_path(tag):
    d = os.path.join(WORKALT if ALT else WORK, "stamps")
    os.makedirs(d, exist_ok=True)
    return os.path.join(d, re.sub(r"[^A-Za-z0-9_.-]+", "_", tag))


def _fresh(tag, fp, paths):
    """True when the last successful build of `tag` saw exactly these sources and its outputs exist."""
    if fp is None or os.environ.get("VERIF_FORCE_BUILD"):
        return False
    sp = _stamp_path(tag)
    try:
        return open(sp).read() == fp and all(os.path.exists(p) for p in paths)
    except OSError:
        return False


def _keep_binary(path, release):
    """alternative trees share one target dir: copy the fresh binary aside (caller holds the cargo lock)"""
    if not ALT or not os.path.exists(path):
        return path
    d = os.path.join(WORKALT, "bin", "release" if release else "debug")
    os.makedirs(d, exist_ok=True)
    dst = os.path.join(d, os.path.basename(path))
    tmp = dst + ".tmp%d" % os.getpid()
    shutil.copy2(path, tmp)
    os.replace(tmp, dst)
    return dst


def harness_dir(pkg):
    """package vh-foo lives in harness/foo (a standalone cargo workspace of its own).  For an
    alternative tree (VERIF_REPO) the package is copied with its /repo paths rewritten."""
    name = pkg[3:] if pkg.startswith("vh-") else pkg
    src = os.path.join(HARNESS, name)
    if not ALT:
        return src
    dst = os.path.join(WORKALT, "harness", name)
    os.makedirs(os.path.dirname(dst), exist_ok=True)
    subprocess.run(["rsync", "-a", "--delete", "--exclude", "Cargo.lock", src + "/", dst + "/"], check=True)
    for root, _, files in os.walk(dst):
        for f in files:
            if f == "Cargo.toml" or f.endswith(".rs"):
                pth = os.path.join(root, f)
                s = open(pth).read()
                s2 = s.replace('"/repo/', '"' + REPO + '/')
                if s2 != s:
                    open(pth, "w").write(s2)
    cfg = os.path.join(WORKALT, "harness", ".cargo")
    os.makedirs(cfg, exist_ok=True)
    open(os.path.join(cfg, "config.toml"), "w").write("[net]\noffline = true\n")
    return dst


def harness_build(pkg, release=False, features=None, timeout=3000, extra_cfg=True, bin_name=None):
    """cargo build of a harness package against /repo's working tree. Returns (ok, binary, log).
    Each package is its own workspace (harness/<name>/Cargo.toml with an empty [workspace]);
    Cargo.lock is copied from /repo so that only vendored/cached crate versions are used; all
    packages share one target dir (.work/target) so /repo crates are compiled once."""
    ensure_dirs()
    d = harness_dir(pkg)
    rf = repo_fingerprint()
    fp = None if rf is None else hashlib.sha256((rf + _dir_fingerprint(d) + str(release) + str(features) +
                                                  str(extra_cfg)).encode()).hexdigest()
    tag = "h-%s-%s-%s" % (pkg, "rel" if release else "dbg", bin_name or "")
    outp = os.path.join(TARGET, "release" if release else "debug", bin_name or pkg)
    if ALT:
        outp = os.path.join(WORKALT, "bin", "release" if release else "debug", bin_name or pkg)
    if _fresh(tag, fp, [outp]):
        # nothing changed since the last successful build of this package from these very sources:
        # skip cargo (and the long wait for the build-directory lock)
        return True, outp, "up to date (sources unchanged since last successful build)"
    with FileLock("cargo"):
        lock_src = os.path.join(REPO, "Cargo.lock")
        lock_dst = os.path.join(d, "Cargo.lock")
        if os.path.exists(lock_src) and not os.path.exists(lock_dst):
            shutil.copy(lock_src, lock_dst)
        cmd = ["cargo", "build", "--offline"]
        if release:
            cmd.append("--release")
        if features:
            cmd += ["--features", features]
        env = {"CARGO_TARGET_DIR": TARGET, "CARGO_NET_OFFLINE": "true"}
        if extra_cfg:
            env["RUSTFLAGS"] = GUARD_CFG
        rc, o, e = sh(cmd, cwd=d, env=env, timeout=timeout)
        if rc != 0 and ("lock file" in e or "Cargo.lock" in e) and os.path.exists(lock_src):
            shutil.copy(lock_src, lock_dst)
            rc, o, e = sh(cmd, cwd=d, env=env, timeout=timeout)
        binp = os.path.join(TARGET, "release" if release else "debug", bin_name or pkg)
        binp = _keep_binary(binp, release) if rc == 0 else binp
        if rc == 0 and fp is not None and repo_fingerprint() == rf:
            open(_stamp_path(tag), "w").write(fp)
    return rc == 0, binp, o + e


def cli_build(release=False, timeout=3600, bins=("veryl",)):
    """Build the real `veryl` CLI (and optionally veryl-ls) from /repo's working tree with hooks on,
    into the shared target dir.  Returns (ok, {bin: path}, log)."""
    ensure_dirs()
    rf = repo_fingerprint()
    fp = None if rf is None else hashlib.sha256((rf + str(release) + ",".join(bins)).encode()).hexdigest()
    tag = "cli-%s-%s" % ("rel" if release else "dbg", "+".join(sorted(bins)))
    dd = os.path.join(WORKALT, "bin", "release" if release else "debug") if ALT else \
        os.path.join(TARGET, "release" if release else "debug")
    outs = {b: os.path.join(dd, b) for b in bins}
    if _fresh(tag, fp, list(outs.values())):
        return True, outs, "up to date (sources unchanged since last successful build)"
    with FileLock("cargo"):
        cmd = ["cargo", "build", "--offline"]
        for b in bins:
            cmd += ["-p", "veryl-ls" if b == "veryl-ls" else "veryl", "--bin", b]
        if release:
            cmd.append("--release")
        env = {"CARGO_TARGET_DIR": TARGET, "CARGO_NET_OFFLINE": "true", "RUSTFLAGS": GUARD_CFG}
        rc, o, e = sh(cmd, cwd=REPO, env=env, timeout=timeout)
        d = os.path.join(TARGET, "release" if release else "debug")
        paths = {b: (_keep_binary(os.path.join(d, b), release) if rc == 0 else os.path.join(d, b)) for b in bins}
        if rc == 0 and fp is not None and repo_fingerprint() == rf:
            open(_stamp_path(tag), "w").write(fp)
    return rc == 0, paths, o + e


def scratch_dir(tag):
    """fresh scratch directory under .work/scratch (never /tmp); caller removes it with shutil.rmtree"""
    ensure_dirs()
    import tempfile
    return tempfile.mkdtemp(prefix=tag + "_", dir=os.path.join(WORK, "scratch"))


def ocaml_build(name, extract_v, driver_ml, timeout=900):
    """Extract a model to OCaml and build a driver.  extract_v: text of a .v file that Requires the
    development, `Require Extraction. Require Import ExtrOcamlBasic.` and ends with
    `Extraction "<name>_model.ml" f g h.` (written relative to the scratch dir); driver_ml: OCaml
    source using module <Name>_model.  Cached by content hash.  Returns (ok, binary, log)."""
    ensure_dirs()
    h = hashlib.sha256((extract_v + "\0" + driver_ml).encode()).hexdigest()[:16]
    d = os.path.join(WORK, "ocaml", name)
    binp = os.path.join(d, name + ".exe")
    stamp = os.path.join(d, "stamp")
    # the extracted code depends on the compiled development too: include mtimes of .vo deps is
    # overkill; callers rebuild the Coq targets first and pass text that names them, so hash the
    # .v sources the extraction file requires
    deps = ""
    for m in re.finditer(r"From\s+VV\s+Require\s+(?:Import\s+|Export\s+)?([^.]*(?:\.[A-Za-z_][\w.]*)*)\.", extract_v):
        for mod in m.group(1).split():
            for f in coq_deps_of(mod.replace(".", "/") + ".v"):
                deps += hashlib.sha256(open(os.path.join(COQ, f), "rb").read()).hexdigest()
    h = hashlib.sha256((h + deps).encode()).hexdigest()[:16]
    with FileLock("ocaml_" + name):
        if os.path.exists(binp) and os.path.exists(stamp) and open(stamp).read() == h:
            return True, binp, "cached"
        shutil.rmtree(d, ignore_errors=True)
        os.makedirs(d)
        with open(os.path.join(d, "extract.v"), "w") as f:
            f.write(extract_v)
        rc, o, e = sh(["coqc", "-noglob", "-Q", COQ, "VV", "-w", "-all", "extract.v"], cwd=d, timeout=timeout)
        if rc != 0:
            return False, binp, o + e
        with open(os.path.join(d, "driver.ml"), "w") as f:
            f.write(driver_ml)
        mls = sorted(x for x in os.listdir(d) if x.endswith("_model.ml"))
        for x in os.listdir(d):
            if x.endswith(".mli"):
                os.remove(os.path.join(d, x))
        rc, o2, e2 = sh(["ocamlfind", "ocamlopt", "-O2", "-w", "-a", "-package", "str", "-linkpkg"] + mls +
                        ["driver.ml", "-o", binp], cwd=d, timeout=timeout)
        if rc != 0:
            rc, o2, e2 = sh(["ocamlfind", "ocamlopt", "-w", "-a", "-package", "str", "-linkpkg"] + mls +
                            ["driver.ml", "-o", binp], cwd=d, timeout=timeout)
        if rc != 0:
            return False, binp, o + e + o2 + e2
        with open(stamp, "w") as f:
            f.write(h)
    return True, binp, o + e + o2 + e2


def run_lines(binary, lines, args=(), timeout=600, env=None, nshards=None):
    """Feed lines to a harness binary (one case per line), in parallel shards; returns output lines."""
    if not lines:
        return []
    n = nshards or min(NCPU, max(1, len(lines) // 50))
    size = (len(lines) + n - 1) // n
    shards = [lines[i:i + size] for i in range(0, len(lines), size)]

    def work(sh_lines):
        rc, o, e = sh([binary] + list(args), inp="\n".join(sh_lines) + "\n", timeout=timeout, env=env)
        outl = o.splitlines()
        if len(outl) != len(sh_lines):
            # the process died (abort / stack overflow): find the line by running one at a time
            outl = []
            for ln in sh_lines:
                rc1, o1, e1 = sh([binary] + list(args), inp=ln + "\n", timeout=60, env=env)
                ol = o1.splitlines()
                outl.append(ol[0] if ol else "CRASH rc=%d %s" % (rc1, e1.strip().splitlines()[-1] if e1.strip() else ""))
        return outl

    res = []
    with ThreadPoolExecutor(max_workers=NCPU) as ex:
        for r in ex.map(work, shards):
            res.extend(r)
    return res


# ------------------------------------------------------------------------------------ results

def known_findings():
    """Parse KNOWN_FINDINGS.txt: lines 'finding: property=Cxx key=<key> <text>' and 'fixed: ...'."""
    path = os.path.join(VERIF, "KNOWN_FINDINGS.txt")
    res = {}
    if not os.path.exists(path):
        return res
    for line in open(path):
        line = line.strip()
        m = re.match(r"finding:\s+property=(C\d+)\s+key=(\S+)\s+(.*)", line)
        if m:
            res.setdefault(m.group(1), {})[m.group(2)] = m.group(3)
    return res


class Result:
    """Collects what a check run covered and found; writes evidence; prints protocol lines."""

    def __init__(self, pid, level, tier, seed):
        self.pid = pid
        self.level = level
        self.tier = tier
        self.seed = seed
        self.t0 = time.time()
        self.coverage = {"samples": []}
        self.assumptions = []
        self.violations = []       # (key, description, replay dict)
        self.known_hits = {}       # key -> description
        self.obligations = 0
        self.discharged = 0
        self.notes = []
        self.known = known_findings().get(pid, {})

    # --- obligations (theorems, translator checks, correspondence streams)
    def obligation(self, name, ok, detail=""):
        self.obligations += 1
        if ok:
            self.discharged += 1
        self.coverage.setdefault("obligation_list", []).append(
            {"name": name, "ok": bool(ok), **({"detail": detail[:400]} if detail else {})})
        return ok

    def sample(self, s):
        if len(self.coverage["samples"]) < 6:
            self.coverage["samples"].append(s)

    def count(self, key, n=1):
        self.coverage[key] = self.coverage.get(key, 0) + n

    def hist(self, key, tag, n=1):
        h = self.coverage.setdefault(key, {})
        h[tag] = h.get(tag, 0) + n

    def violation(self, key, what, replay, no_input=False):
        """Record a violation. key identifies the failing input/class for KNOWN_FINDINGS."""
        if key in self.known:
            if key not in self.known_hits:
                self.known_hits[key] = self.known[key]
            return False
        self.violations.append((key, what, replay, no_input))
        return True

    def finish(self):
        ensure_dirs()
        wall = time.time() - self.t0
        cov = self.coverage
        cov.setdefault("evaluations", 0)
        cov.setdefault("distinct_nontrivial", 0)
        cov.setdefault("rule", "")
        cov["obligations"] = self.obligations
        cov["discharged"] = self.discharged
        cov.setdefault("checker_cmd", "make -f Makefile.coq Props/%s.vo (coqc 8.16.1, full .vo) + Print Assumptions audit" % self.pid)
        cov.setdefault("trusted_base", [])
        cov.setdefault("explanation", "")
        if not cov["samples"]:
            cov["samples"] = ["(no generated cases in this run)"]
        ev = {
            "property_id": self.pid, "tier": self.tier, "seed": self.seed, "level": self.level,
            "coverage": cov, "assumptions": self.assumptions, "wall_s": round(wall, 2),
            "violations": len(self.violations),
            "known_findings_reproduced": sorted(self.known_hits),
            "notes": self.notes,
        }
        with open(os.path.join(EVID, self.pid + ".json"), "w") as f:
            json.dump(ev, f, indent=1, default=str)
        for key, desc in sorted(self.known_hits.items()):
            print("KNOWN-FINDING: property=%s %s [%s]" % (self.pid, desc, key))
        # a listed finding that no longer reproduces is reported as a note, not an alarm
        if not self.violations:
            print("OK property=%s tier=%s obligations=%d/%d evaluations=%d wall=%.1fs" % (
                self.pid, self.tier, self.discharged, self.obligations, cov["evaluations"], wall))
            return 0
        seen = set()
        for i, (key, what, replay, no_input) in enumerate(self.violations):
            if key in seen:
                continue
            seen.add(key)
            rp = os.path.join(REPLAYS, "%s-%d-%d.json" % (self.pid, self.seed, i))
            replay = dict(replay)
            replay.update({"property": self.pid, "key": key, "what": what, "seed": self.seed,
                           "replay_cmd": "./check %s --replay %s" % (self.pid, rp)})
            with open(rp, "w") as f:
                json.dump(replay, f, indent=1, default=str)
            tail = " no-failing-input-found" if no_input else ""
            print("VIOLATION property=%s replay=%s%s" % (self.pid, rp, tail))
            print("  " + what[:300])
            if len(seen) >= 5:
                break
        return 1


def prove(res, pid, extra_targets=()):
    """Build Props/<pid>.vo, scan for forbidden vernacular, audit axioms.
    Returns True when every theorem of Props/<pid>.v is established."""
    props = "Props/%s.v" % pid
    ok, log = coq_make(["Props/%s.vo" % pid] + list(extra_targets))
    theorems = coq_theorems(props)
    if not ok:
        m = re.search(r'File "\./([^"]+)", line (\d+)', log)
        where = "%s:%s" % (m.group(1), m.group(2)) if m else "?"
        tail = "\n".join(log.strip().splitlines()[-15:])
        res.obligation("coq-build Props/%s.vo" % pid, False, tail)
        res.proof_failure = {"where": where, "log_tail": tail}
        for t in theorems:
            res.obligation("theorem " + t, False, "development does not compile (%s)" % where)
        return False
    res.obligation("coq-build Props/%s.vo" % pid, True)
    files = coq_deps_of(props)
    bad = coq_forbidden_scan(files)
    res.obligation("no Admitted/Axiom/Parameter/unsafe flags in %d files" % len(files), not bad, str(bad))
    ass, out = coq_assumptions("Props." + pid, theorems)
    allok = not bad
    if ass is None:
        res.obligation("Print Assumptions audit", False, out[-400:])
        return False
    axioms_seen = set()
    for t in theorems:
        extra = [a for a in ass.get(t, ["<missing>"]) if a not in AXIOM_ALLOW and a.split(".")[-1] not in AXIOM_ALLOW]
        axioms_seen.update(ass.get(t, []))
        good = t in ass and not extra
        res.obligation("theorem " + t, good, "" if good else "assumptions outside allow-list: %s" % extra)
        allok = allok and good
    res.coverage["theorems"] = theorems
    res.coverage["axioms_used"] = sorted(axioms_seen)
    res.coverage["coq_files"] = files
    return allok


def std_trusted_base(extra=()):
    return ["Coq 8.16.1 kernel (coqc; vm_compute used for closed finite computations; no native_compute)",
            "no axioms declared by the development; Print Assumptions audited per theorem on every run",
            "hand-written Gallina model tied to /repo by the correspondence harness (/verif/harness, rebuilt from the working tree each run)",
            "python orchestration (/verif/vp): case generation, parsing of Coq-printed values, diffing"] + list(extra)


def seed_from_env():
    try:
        return int(os.environ.get("VERIF_SEED", "1"))
    except ValueError:
        return 1
