"""Generators, parsers and INDEPENDENT reference evaluators for the gate-level properties C21 / C20.

Nothing in here is derived from the implementation's code: the NPN reference follows the textbook
definition (orbit of a function under input permutation, input complementation and output
complementation), the AIG / gate-netlist evaluators follow the documented meaning of the node and
cell kinds (crates/synthesizer/src/ir.rs doc comments).

Text formats are the ones printed by harness/npn and harness/synth (see their header comments).
"""
import json
import os
import random

# ------------------------------------------------------------------------------------------------ NPN reference

ALL_PERMS_REF = None


def all_perms():
    global ALL_PERMS_REF
    if ALL_PERMS_REF is None:
        import itertools
        ALL_PERMS_REF = [list(p) for p in itertools.permutations(range(4))]
    return ALL_PERMS_REF


def ref_apply(perm, in_neg, out_neg, tt):
    """NpnTransform::apply as documented: new(y) = out_neg ^ old(z) with z[perm[i]] = y[i] ^ in_neg[i]."""
    r = 0
    for y in range(16):
        z = 0
        for i in range(4):
            z |= (((y >> i) & 1) ^ ((in_neg >> i) & 1)) << perm[i]
        r |= (((tt >> z) & 1) ^ (1 if out_neg else 0)) << y
    return r


def ref_perm_tt(tt, perm):
    return ref_apply(perm, 0, 0, tt)


def ref_flip_inputs(tt, mask):
    return ref_apply([0, 1, 2, 3], mask & 15, 0, tt)


def _swapbits(m, i, j):
    bi, bj = (m >> i) & 1, (m >> j) & 1
    m &= ~((1 << i) | (1 << j))
    return m | (bi << j) | (bj << i)


def class_min_table(cache_dir=None):
    """cls[tt] = least truth table of tt's NPN class (textbook definition; 222 classes).  Cached: it is a
    mathematical constant, independent of /repo."""
    path = os.path.join(cache_dir, "npn4_class_min.json") if cache_dir else None
    if path and os.path.exists(path):
        try:
            t = json.load(open(path))
            if len(t) == 65536:
                return t
        except Exception:
            pass
    gens = []
    for (i, j) in ((0, 1), (1, 2), (2, 3)):
        gens.append(([_swapbits(m, i, j) for m in range(16)], 0))
    gens.append(([m ^ 1 for m in range(16)], 0))
    gens.append((list(range(16)), 0xFFFF))
    # byte-sliced application of an index map: precompute the contribution of each (position, bit)
    def img(tt, g):
        idx, neg = g
        r = 0
        for m in range(16):
            r |= ((tt >> idx[m]) & 1) << m
        return r ^ neg
    cls = [-1] * 65536
    for s in range(65536):
        if cls[s] != -1:
            continue
        cls[s] = s
        stack = [s]
        while stack:
            x = stack.pop()
            for g in gens:
                y = img(x, g)
                if cls[y] == -1:
                    cls[y] = s
                    stack.append(y)
    assert len(set(cls)) == 222, "reference NPN classification is wrong"
    if path:
        try:
            tmp = path + ".%d.tmp" % os.getpid()
            json.dump(cls, open(tmp, "w"))
            os.replace(tmp, path)
        except Exception:
            pass
    return cls


# ------------------------------------------------------------------------------------------------ patterns

VAR_TT_REF = [0xAAAA, 0xCCCC, 0xF0F0, 0xFF00]     # bit m of variable i = bit i of m


def parse_pattern(s):
    ands_s, out_s = s.split("/")
    ands = []
    if ands_s != "-":
        for a in ands_s.split(","):
            f = [int(x) for x in a.split(".")]
            ands.append(((f[0], f[1]), (f[2], f[3])))
    o = [int(x) for x in out_s.split(".")]
    return (ands, (o[0], o[1]))


def show_pattern(p):
    ands, o = p
    a = ",".join("%d.%d.%d.%d" % (x[0], x[1], y[0], y[1]) for x, y in ands) if ands else "-"
    return "%s/%d.%d" % (a, o[0], o[1])


def pattern_wf(p):
    ands, o = p
    for j, (a, b) in enumerate(ands):
        if a[0] >= 4 + j or b[0] >= 4 + j:
            return False
    return o[0] < 4 + len(ands)


def pattern_tt(p, vars_=None):
    """truth table of a pattern: AND gates over (possibly complemented) earlier nodes"""
    ands, o = p
    vals = list(vars_ or VAR_TT_REF)
    for a, b in ands:
        va = vals[a[0]] ^ (0xFFFF if a[1] else 0)
        vb = vals[b[0]] ^ (0xFFFF if b[1] else 0)
        vals.append(va & vb)
    return vals[o[0]] ^ (0xFFFF if o[1] else 0)


def gen_pattern(rng, max_ands=5):
    n = rng.choice([0, 1, 1, 2, 2, 3, 3, 3, 4, max_ands])
    ands = []
    for j in range(n):
        hi = 4 + j
        a = rng.randrange(hi)
        b = rng.randrange(hi)
        ands.append(((a, rng.randrange(2)), (b, rng.randrange(2))))
    o = (rng.randrange(4 + n) if rng.random() < 0.3 or n == 0 else 4 + n - 1, rng.randrange(2))
    return (ands, o)


# ------------------------------------------------------------------------------------------------ AIG text / evaluation

def parse_aig(text):
    nodes_s, sinks_s = text.strip().split(" ")
    nodes = []
    for n in nodes_s.split(","):
        if n == "c":
            nodes.append(("c",))
        elif n[0] == "i":
            nodes.append(("i", int(n[1:])))
        else:
            x, y = n[1:].split(".")
            nodes.append(("a", int(x), int(y)))
    sinks = []
    if sinks_s != "-":
        for s in sinks_s.split(","):
            t, e = s.split(":")
            sinks.append((int(t), int(e)))
    return nodes, sinks


def show_aig(nodes, sinks):
    ns = []
    for n in nodes:
        ns.append("c" if n[0] == "c" else ("i%d" % n[1] if n[0] == "i" else "a%d.%d" % (n[1], n[2])))
    return ",".join(ns) + " " + (",".join("%d:%d" % s for s in sinks) if sinks else "-")


def aig_wf(nodes, sinks):
    for i, n in enumerate(nodes):
        if n[0] == "a" and ((n[1] >> 1) >= i or (n[2] >> 1) >= i):
            return False
    return all((e >> 1) < len(nodes) for _, e in sinks)


def aig_origins(nodes):
    seen = []
    for n in nodes:
        if n[0] == "i" and n[1] not in seen:
            seen.append(n[1])
    return seen


def aig_eval(nodes, sinks, invals, mask):
    """bit-parallel: invals[origin] = integer whose bit k is the input's value in assignment k"""
    vals = []
    for n in nodes:
        if n[0] == "c":
            vals.append(0)
        elif n[0] == "i":
            vals.append(invals.get(n[1], 0))
        else:
            a = vals[n[1] >> 1] ^ (mask if n[1] & 1 else 0)
            b = vals[n[2] >> 1] ^ (mask if n[2] & 1 else 0)
            vals.append(a & b)
    return [(t, vals[e >> 1] ^ (mask if e & 1 else 0)) for t, e in sinks]


def patterns_for(keys, rng, max_exh=14, nrand=4096):
    """assignment patterns for a set of input keys: exhaustive when few, else `nrand` random vectors.
    Returns (dict key -> int, mask, exhaustive?)"""
    keys = list(keys)
    k = len(keys)
    if k <= max_exh:
        n = 1 << k
        mask = (1 << n) - 1
        vals = {}
        for i, key in enumerate(keys):
            # bit m of the pattern = bit i of m
            blk = ((1 << (1 << i)) - 1) << (1 << i)
            per = 1 << (i + 1)
            v = 0
            for off in range(0, n, per):
                v |= blk << off
            vals[key] = v & mask
        return vals, mask, True
    mask = (1 << nrand) - 1
    vals = {key: rng.getrandbits(nrand) for key in keys}
    # make sure the all-zero / all-one assignments are present
    for key in keys:
        vals[key] = (vals[key] & ~3) | 2
    return vals, mask, False


# ---- AIG generators ---------------------------------------------------------------------------

def gen_api_aig(rng, shape=None):
    """program for `rw api`: ops list + sinks; returns (ops_text, sinks_text, tags)"""
    shape = shape or rng.choice(["random", "random", "redundant", "xormux", "chain", "reconv", "wide"])
    nin = rng.randint(2, 9) if shape != "wide" else rng.randint(8, 14)
    ops = ["i%d" % (10 + i) for i in range(nin)]
    if rng.random() < 0.15:
        ops.append("i%d" % 10)             # duplicate origin: add_input dedups
    def ref(lo=0):
        if rng.random() < 0.04:
            return "z" + ("~" if rng.random() < 0.5 else "")
        return "%d%s" % (rng.randrange(lo, len(ops)), "~" if rng.random() < 0.4 else "")
    nops = {"random": rng.randint(3, 40), "redundant": rng.randint(4, 25), "xormux": rng.randint(3, 20),
            "chain": rng.randint(5, 30), "reconv": rng.randint(6, 30), "wide": rng.randint(10, 60)}[shape]
    for k in range(nops):
        r = rng.random()
        if shape == "chain":
            ops.append("a%d%s.%s" % (len(ops) - 1, "~" if rng.random() < 0.3 else "", ref()))
        elif shape == "xormux" and r < 0.7:
            if r < 0.4:
                ops.append("x%s.%s" % (ref(), ref()))
            else:
                ops.append("m%s.%s.%s" % (ref(), ref(), ref()))
        elif shape == "redundant" and r < 0.5 and len(ops) > nin + 1:
            # combine two recent gates that share inputs: (a&b)&(a&c) style
            x = rng.randrange(nin, len(ops))
            y = rng.randrange(nin, len(ops))
            ops.append("%s%d%s.%d%s" % (rng.choice("aao"), x, "~" if rng.random() < 0.3 else "", y, "~" if rng.random() < 0.3 else ""))
        elif shape == "reconv" and r < 0.6:
            lo = max(0, len(ops) - 5)
            ops.append("%s%s.%s" % (rng.choice("aaox"), ref(lo), ref(lo)))
        else:
            kind = rng.choice("aaaaooxxm")
            if kind == "m":
                ops.append("m%s.%s.%s" % (ref(), ref(), ref()))
            else:
                ops.append("%s%s.%s" % (kind, ref(), ref()))
    ns = rng.randint(1, 4)
    sinks = []
    for s in range(ns):
        if rng.random() < 0.7:
            src = "%d%s" % (rng.randrange(max(nin, len(ops) - 6), len(ops)), "~" if rng.random() < 0.4 else "")
        else:
            src = ref()
        sinks.append("%d:%s" % (100 + s, src))
    return ",".join(ops), ",".join(sinks), [shape, "in=%d" % nin, "ops=%d" % nops]


def gen_raw_aig(rng, extra_const=True):
    """node list pushed directly (not hash-consed): duplicates, constant fanins, And(x,x) allowed.
    extra_const: also put a second Const node at an index other than 0 (rewrite maps every Const node to
    CONST0; the AigModule invariant "index 0 is the only Const" is what the other passes rely on)"""
    nin = rng.randint(1, 7)
    nodes = [("c",)] + [("i", 10 + (i if rng.random() < 0.9 else 0)) for i in range(nin)]
    if extra_const and rng.random() < 0.1:
        nodes.insert(rng.randrange(1, len(nodes) + 1), ("c",))
    nand = rng.randint(1, 30)
    for _ in range(nand):
        n = len(nodes)
        lo = 0 if rng.random() < 0.1 else 1
        if rng.random() < 0.5:
            a = rng.randrange(max(lo, n - 6), n)
            b = rng.randrange(max(lo, n - 6), n)
        else:
            a = rng.randrange(lo, n)
            b = rng.randrange(lo, n)
        nodes.append(("a", 2 * a + rng.randrange(2), 2 * b + rng.randrange(2)))
    ns = rng.randint(1, 4)
    sinks = [(100 + s, 2 * rng.randrange(max(0, len(nodes) - 8), len(nodes)) + rng.randrange(2)) for s in range(ns)]
    return nodes, sinks


# ------------------------------------------------------------------------------------------------ gate netlists

CELL_FUN = {
    # kind symbol -> (arity, function on bit-parallel ints; m = all-ones mask)
    "buf": (1, lambda m, a: a),
    "not": (1, lambda m, a: a ^ m),
    "and2": (2, lambda m, a, b: a & b),
    "or2": (2, lambda m, a, b: a | b),
    "nand2": (2, lambda m, a, b: (a & b) ^ m),
    "nor2": (2, lambda m, a, b: (a | b) ^ m),
    "xor2": (2, lambda m, a, b: a ^ b),
    "xnor2": (2, lambda m, a, b: a ^ b ^ m),
    "and3": (3, lambda m, a, b, c: a & b & c),
    "or3": (3, lambda m, a, b, c: a | b | c),
    "nand3": (3, lambda m, a, b, c: (a & b & c) ^ m),
    "nor3": (3, lambda m, a, b, c: (a | b | c) ^ m),
    "ao21": (3, lambda m, a, b, c: (a & b) | c),
    "aoi21": (3, lambda m, a, b, c: ((a & b) | c) ^ m),
    "oa21": (3, lambda m, a, b, c: (a | b) & c),
    "oai21": (3, lambda m, a, b, c: ((a | b) & c) ^ m),
    "ao31": (4, lambda m, a, b, c, d: (a & b & c) | d),
    "aoi31": (4, lambda m, a, b, c, d: ((a & b & c) | d) ^ m),
    "ao22": (4, lambda m, a, b, c, d: (a & b) | (c & d)),
    "aoi22": (4, lambda m, a, b, c, d: ((a & b) | (c & d)) ^ m),
    "oai22": (4, lambda m, a, b, c, d: ((a | b) & (c | d)) ^ m),
    # inputs = [sel, d_when_sel_0, d_when_sel_1]
    "mux2": (3, lambda m, s, d0, d1: (s & d1) | ((s ^ m) & d0)),
}


class Gate:
    """parsed netlist (harness text format)"""

    def __init__(self):
        self.nnets = 0
        self.drivers = {}      # net -> driver text (the NetDriver bookkeeping)
        self.ports = []        # (dir, [nets])
        self.cells = []        # (kind, out, [ins])
        self.ffs = []          # dict clock, edge, d, q, rv, reset (None | (net, pol, sync))
        self.rams = []         # dict depth width clock edge writes [ {enable, addr, data, mask|None} ] reads [ {sync, addr, data} ]


def parse_gate(text):
    g = Gate()
    cur = None
    for rec in text.strip().split(";"):
        f = rec.split(" ")
        k = f[0]
        if k == "N":
            g.nnets = int(f[1])
        elif k == "D":
            g.drivers[int(f[1])] = f[2]
        elif k == "P":
            n = int(f[2])
            g.ports.append((f[1], [int(x) for x in f[3:3 + n]]))
        elif k == "C":
            g.cells.append((f[1], int(f[2]), [int(x) for x in f[3:]]))
        elif k == "F":
            ff = {"clock": int(f[1]), "edge": f[2], "d": int(f[3]), "q": int(f[4]), "rv": int(f[5]),
                  "reset": None if f[6] == "-" else (int(f[6]), f[7], f[8])}
            g.ffs.append(ff)
        elif k == "R":
            cur = {"depth": int(f[1]), "width": int(f[2]), "clock": int(f[3]), "edge": f[4], "writes": [], "reads": []}
            g.rams.append(cur)
        elif k == "W":
            p = 2
            na = int(f[p]); addr = [int(x) for x in f[p + 1:p + 1 + na]]; p += 1 + na
            nd = int(f[p]); data = [int(x) for x in f[p + 1:p + 1 + nd]]; p += 1 + nd
            nm = int(f[p]); mask = None if nm < 0 else [int(x) for x in f[p + 1:p + 1 + nm]]
            cur["writes"].append({"enable": int(f[1]), "addr": addr, "data": data, "mask": mask})
        elif k == "E":
            p = 2
            na = int(f[p]); addr = [int(x) for x in f[p + 1:p + 1 + na]]; p += 1 + na
            nd = int(f[p]); data = [int(x) for x in f[p + 1:p + 1 + nd]]
            cur["reads"].append({"sync": f[1] == "1", "addr": addr, "data": data})
    return g


def ram_input_nets(g):
    """GateModule::for_each_ram_input_net order: clock, per write port addr/data/enable/mask, per read port addr"""
    out = []
    for r in g.rams:
        out.append(r["clock"])
        for w in r["writes"]:
            out += w["addr"] + w["data"] + [w["enable"]] + (w["mask"] or [])
        for p in r["reads"]:
            out += p["addr"]
    return out


def gate_sink_nets(g):
    """sinks in aigify order: output/inout port bits, FF D inputs, RAM consumed nets, then FF by FF clock and reset"""
    s = []
    for d, nets in g.ports:
        if d in ("o", "x"):
            s += nets
    s += [ff["d"] for ff in g.ffs]
    s += ram_input_nets(g)
    s += gate_aux_nets(g)
    return s


def gate_aux_nets(g):
    """other consumed nets that must keep their function: FF clock / reset pins"""
    s = []
    for ff in g.ffs:
        s.append(ff["clock"])
        if ff["reset"]:
            s.append(ff["reset"][0])
    return s


def gate_eval(g, invals, mask):
    """value of every net: nets driven by a cell are computed from the cell (recomputed from `cells`, not from
    the NetDriver table); nets 0/1 are the constants; every other net is a primary input (invals, default 0).
    Returns (val function, errors, multi) where multi lists the nets driven by more than one cell; a multiply
    driven net takes the value of its first driver and `conflict(net)` tells whether its drivers disagree."""
    drv = {}
    for i, (kind, out, ins) in enumerate(g.cells):
        drv.setdefault(out, []).append(i)
    multi = sorted(n for n, l in drv.items() if len(l) > 1)
    memo = {0: 0, 1: mask}
    onstack = set()
    err = []

    def cell_value(ci):
        kind, out, ins = g.cells[ci]
        ar, fn = CELL_FUN[kind]
        if len(ins) != ar:
            err.append("cell %s has %d inputs" % (kind, len(ins)))
            return 0
        return fn(mask, *[memo[x] for x in ins]) & mask

    def val(net):
        # iterative DFS to stay clear of the recursion limit
        stack = [(net, 0)]
        while stack:
            n, st = stack.pop()
            if n in memo:
                continue
            if n not in drv:
                memo[n] = invals.get(n, 0)
                continue
            if st == 0:
                if n in onstack:
                    err.append("combinational cycle through net %d" % n)
                    memo[n] = 0
                    continue
                onstack.add(n)
                stack.append((n, 1))
                for ci in drv[n]:
                    for x in g.cells[ci][2]:
                        if x not in memo:
                            if x in onstack and x in drv:
                                err.append("combinational cycle through net %d" % x)
                                memo[x] = 0
                            else:
                                stack.append((x, 0))
            else:
                onstack.discard(n)
                vs = [cell_value(ci) for ci in drv[n]]
                memo[n] = vs[0]
                if any(v != vs[0] for v in vs[1:]):
                    err.append("net %d has %d drivers that compute different functions" % (n, len(vs)))
        return memo[net]

    return val, err, multi


def gate_primary_inputs(g):
    """nets that are not driven by a cell and are referenced somewhere (excluding the constants)"""
    driven = set(out for _, out, _ in g.cells)
    used = set()
    for _, _, ins in g.cells:
        used.update(ins)
    used.update(gate_sink_nets(g))
    used.update(gate_aux_nets(g))
    return sorted(n for n in used if n not in driven and n > 1)


# ------------------------------------------------------------------------------------------------ small Veryl designs

RESET_TY = ["reset", "reset_async_high", "reset_async_low", "reset_sync_high", "reset_sync_low"]
CLOCK_TY = ["clock", "clock_posedge", "clock_negedge"]


def ty(w):
    return "logic<%d>" % w if w > 1 else "logic"


def lit(w, v):
    return "%d'h%x" % (w, v & ((1 << w) - 1))


BIN = ["+", "-", "&", "|", "^", "~^", "&", "|", "^"]
CMP = ["==", "!=", "<:", "<=", ">:", ">="]


def _expr(rng, depth, names, ws):
    if depth == 0 or rng.random() < 0.15:
        if rng.random() < 0.75:
            return rng.choice(names)
        i = rng.randrange(len(names))
        w = ws[i]
        return rng.choice([lit(w, 0), lit(w, (1 << w) - 1), lit(w, rng.getrandbits(w)), lit(w, 1)])
    r = rng.random()
    a = _expr(rng, depth - 1, names, ws)
    b = _expr(rng, depth - 1, names, ws)
    if r < 0.42:
        return "(%s %s %s)" % (a, rng.choice(BIN), b)
    if r < 0.47:
        return "(%s * %s)" % (a, rng.choice(names))
    if r < 0.62:
        return "(if %s %s %s ? %s : %s)" % (a, rng.choice(CMP), b, _expr(rng, depth - 1, names, ws), _expr(rng, depth - 1, names, ws))
    if r < 0.72:
        return "(%s%s)" % (rng.choice(["~", "-", "~"]), a)
    if r < 0.79:
        return "(%s %s %d)" % (a, rng.choice(["<<", ">>"]), rng.randint(0, 3))
    if r < 0.86:
        return "{%s, %s}" % (a, b)
    if r < 0.93:
        return "((%s != 0) %s !(%s == %s))" % (a, rng.choice(["&&", "||"]), b, a)
    return "(%s%s)" % (rng.choice(["&", "|", "^"]), a)


def d_expr(rng):
    n = rng.randint(2, 3)
    ws = [rng.choice([1, 1, 2, 2, 3, 4]) for _ in range(n)]
    while sum(ws) > 9:
        ws[ws.index(max(ws))] -= 1
    names = ["i%d" % i for i in range(n)]
    wo = max(ws + [rng.choice([1, 2, 3, 4, 5, 6])])
    ports = ["    %s: input %s," % (nm, ty(w)) for nm, w in zip(names, ws)]
    body = []
    for k in range(rng.randint(1, 3)):
        ports.append("    y%d: output %s," % (k, ty(wo)))
        body.append("    assign y%d = %s;" % (k, _expr(rng, rng.randint(2, 4), names, ws)))
    return "module Top (\n%s\n) {\n%s\n}\n" % ("\n".join(ports), "\n".join(body)), ["expr"]


def d_arith(rng):
    w = rng.randint(2, 6)
    wo = rng.choice([w, w, w + 1, max(1, w - 1)])
    ops = rng.sample(["a + b", "a - b", "a <: b", "a >= b", "a == b", "a != b", "-a", "a + b + 1'd1", "a * b", "a & ~b"],
                     rng.randint(2, 4))
    ports = ["    a: input %s," % ty(w), "    b: input %s," % ty(w)]
    body = []
    for i, e in enumerate(ops):
        cmp_ = any(x in e for x in ("<", ">", "==", "!="))
        ports.append("    y%d: output %s," % (i, ty(1 if cmp_ else wo)))
        body.append("    assign y%d = %s;" % (i, e))
    return "module Top (\n%s\n) {\n%s\n}\n" % ("\n".join(ports), "\n".join(body)), ["arith", "w=%d" % w]


def d_mux(rng):
    ws = rng.randint(1, 3)
    w = rng.randint(1, 3)
    n = min(1 << ws, rng.randint(2, 8))
    st = rng.choice(["case_expr", "case_stmt", "if_chain", "switch", "index", "ternary"])
    ports = ["    sel: input %s," % ty(ws)] + ["    d%d: input %s," % (i, ty(w)) for i in range(3)] + ["    y: output %s," % ty(w)]

    def val(i):
        if i % 3 == 2:
            return lit(w, rng.getrandbits(w))
        if i % 5 == 4:
            return "(d%d ^ d%d)" % (i % 3, (i + 1) % 3)
        return "d%d" % (i % 3)
    if st == "case_expr":
        arms = "".join("        %s: %s,\n" % (lit(ws, i), val(i)) for i in range(n))
        body = "    assign y = case sel {\n%s        default: %s,\n    };" % (arms, val(n))
    elif st == "case_stmt":
        arms = "".join("            %s: y = %s;\n" % (lit(ws, i), val(i)) for i in range(n))
        body = "    always_comb {\n        case sel {\n%s            default: y = %s;\n        }\n    }" % (arms, val(n))
    elif st == "if_chain":
        t = "        if sel == %s {\n            y = %s;\n        }" % (lit(ws, 0), val(0))
        for i in range(1, n):
            t += " else if sel == %s {\n            y = %s;\n        }" % (lit(ws, i), val(i))
        t += " else {\n            y = %s;\n        }" % val(n)
        body = "    always_comb {\n%s\n    }" % t
    elif st == "switch":
        arms = "".join("            sel == %s: y = %s;\n" % (lit(ws, i), val(i)) for i in range(n))
        body = "    always_comb {\n        switch {\n%s            default: y = %s;\n        }\n    }" % (arms, val(n))
    elif st == "index":
        nn = 1 << ws
        body = ("    var arr: %s [%d];\n    always_comb {\n%s    }\n    assign y = arr[sel];" %
                (ty(w), nn, "".join("        arr[%d] = %s;\n" % (i, val(i)) for i in range(nn))))
    else:
        e = val(n)
        for i in reversed(range(n)):
            e = "if sel == %s ? %s : (%s)" % (lit(ws, i), val(i), e)
        body = "    assign y = %s;" % e
    return "module Top (\n%s\n) {\n%s\n}\n" % ("\n".join(ports), body), ["mux", st]


def d_regs(rng):
    w = rng.randint(1, 5)
    clk_ty = rng.choice(CLOCK_TY)
    rst_ty = rng.choice(RESET_TY)
    st = rng.choice(["counter_en", "counter_load", "updown", "acc", "shiftreg", "two_blocks", "slices", "sat", "lfsr", "noreset"])
    rv = lit(w, rng.getrandbits(w))
    ports = ["    clk: input %s," % clk_ty, "    rst: input %s," % rst_ty, "    en: input logic,", "    ld: input logic,",
             "    d: input %s," % ty(w), "    q: output %s," % ty(w)]
    hdr = "    var r: %s;\n    assign q = r;\n" % ty(w)
    if st == "counter_en":
        body = "if_reset {\n            r = %s;\n        } else if en {\n            r = r + 1;\n        }" % rv
    elif st == "counter_load":
        body = "if_reset {\n            r = %s;\n        } else if ld {\n            r = d;\n        } else if en {\n            r = r + 1;\n        }" % rv
    elif st == "updown":
        body = "if_reset {\n            r = %s;\n        } else if en {\n            if ld {\n                r = r - 1;\n            } else {\n                r = r + 1;\n            }\n        }" % rv
    elif st == "acc":
        body = "if_reset {\n            r = %s;\n        } else {\n            if en {\n                r = r + d;\n            }\n            if ld {\n                r = ~d;\n            }\n        }" % rv
    elif st == "shiftreg":
        sh = "{r[%d:0], d[0]}" % (w - 2) if w > 1 else "d[0]"
        body = "if_reset {\n            r = %s;\n        } else if en {\n            r = %s;\n        }" % (rv, sh)
    elif st == "sat":
        body = "if_reset {\n            r = %s;\n        } else if en && r != '1 {\n            r = r + 1;\n        } else if ld && r != '0 {\n            r = r - 1;\n        }" % rv
    elif st == "lfsr":
        fb = "r[%d] ^ r[0] ^ d[0]" % (w - 1)
        sh = "{r[%d:0], %s}" % (w - 2, fb) if w > 1 else fb
        body = "if_reset {\n            r = %s;\n        } else {\n            r = %s;\n        }" % (rv, sh)
    elif st == "noreset":
        ports = [p for p in ports if "rst" not in p]
        src = ("module Top (\n%s\n) {\n    var r: %s;\n    var r2: %s;\n    assign q = r2;\n    always_ff (clk) {\n        r = if en ? d : ~d;\n    }\n"
               "    always_ff (clk) {\n        r2 = r + d;\n    }\n}\n" % ("\n".join(ports), ty(w), ty(w)))
        return src, ["regs", st, clk_ty]
    elif st == "two_blocks":
        ports.append("    q2: output %s," % ty(w))
        hdr += ("    var r2: %s;\n    assign q2 = r2;\n    always_ff (clk, rst) {\n        if_reset {\n            r2 = %s;\n        } else if ld {\n"
                "            r2 = r + d;\n        }\n    }\n" % (ty(w), lit(w, rng.getrandbits(w))))
        body = "if_reset {\n            r = %s;\n        } else if en {\n            r = r2 ^ d;\n        }" % rv
    else:
        if w < 2:
            body = "if_reset {\n            r = %s;\n        } else {\n            r = d;\n        }" % rv
        else:
            h = w // 2
            body = ("if_reset {\n            r = %s;\n        } else {\n            if ld {\n                r[%d:%d] = d[%d:%d];\n            }\n"
                    "            if en {\n                r[%d:0] = d[%d:0] + 1;\n            }\n        }" % (rv, w - 1, h, w - 1, h, h - 1, h - 1))
    src = "module Top (\n%s\n) {\n%s    always_ff (clk, rst) {\n        %s\n    }\n}\n" % ("\n".join(ports), hdr, body)
    return src, ["regs", st, clk_ty, rst_ty]


def d_array(rng):
    """memory arrays below / at / above the RAM-inference threshold (default ram_min_bits = 1024)"""
    big = rng.random() < 0.55
    if big:
        w = rng.choice([4, 8, 8, 16, 32])
        depth = max(2, rng.choice([1024 // w, 1024 // w + 1, 2048 // w]))
    else:
        w = rng.choice([1, 2, 3, 4])
        depth = rng.choice([2, 3, 4, 5, 8]) if rng.random() < 0.8 else max(2, 1024 // w - 1)
    depth = min(depth, 512)
    aw = max(1, (depth - 1).bit_length())
    st = rng.choice(["1r1w", "1r1w", "2r1w", "rreg", "rmw", "wlogic"])
    ports = ["    clk: input clock,", "    we: input logic,", "    waddr: input %s," % ty(aw), "    wdata: input %s," % ty(w),
             "    raddr: input %s," % ty(aw), "    rdata: output %s," % ty(w)]
    decl = "    var mem: %s [%d];\n" % (ty(w), depth)
    wr = "if we {\n            mem[waddr] = wdata;\n        }"
    rd = "    assign rdata = mem[raddr];"
    if st == "2r1w":
        ports += ["    raddr2: input %s," % ty(aw), "    rdata2: output %s," % ty(w)]
        rd += "\n    assign rdata2 = mem[raddr2] ^ mem[raddr];"
    elif st == "rreg":
        ports.append("    rst: input reset,")
        rd = ("    var rq: %s;\n    always_ff (clk, rst) {\n        if_reset {\n            rq = '0;\n        } else {\n            rq = mem[raddr];\n"
              "        }\n    }\n    assign rdata = rq;" % ty(w))
    elif st == "rmw":
        ports.append("    wmask: input %s," % ty(w))
        wr = "if we {\n            mem[waddr] = (mem[waddr] & ~wmask) | (wdata & wmask);\n        }"
    elif st == "wlogic":
        # logic in front of every RAM pin: write enable, address and data are all computed
        ports.append("    k: input %s," % ty(w))
        wr = "if we & (k != 0) {\n            mem[waddr ^ %s] = (wdata + k) ^ {k[0] repeat %d};\n        }" % (lit(aw, 1), w)
        rd = "    assign rdata = mem[raddr + %s] & ~k;" % lit(aw, 1)
    src = "module Top (\n%s\n) {\n%s    always_ff (clk) {\n        %s\n    }\n%s\n}\n" % ("\n".join(ports), decl, wr, rd)
    return src, ["array", st, "bits=%d" % (w * depth), "ram" if w * depth >= 1024 else "ff"]


def d_hier(rng):
    w = rng.randint(1, 4)
    n = rng.randint(1, 3)
    st = rng.choice(["comb", "reg", "chain"])
    seq = st != "comb"
    rst_ty = rng.choice(RESET_TY[1:])
    sp = (["    clk: input clock,", "    rst: input %s," % rst_ty] if seq else []) + \
        ["    x: input %s," % ty(w), "    k: input %s," % ty(w), "    z: output %s," % ty(w)]
    if seq:
        sb = ("    var r: %s;\n    always_ff (clk, rst) {\n        if_reset {\n            r = %s;\n        } else {\n            r = (r + x) ^ k;\n"
              "        }\n    }\n    assign z = r;" % (ty(w), lit(w, 5)))
    else:
        sb = "    assign z = (x + k) ^ (x & ~k);"
    sub = "module Sub (\n%s\n) {\n%s\n}\n" % ("\n".join(sp), sb)
    tp = (["    clk: input clock,", "    rst: input %s," % rst_ty] if seq else []) + \
        ["    a: input %s," % ty(w), "    b: input %s," % ty(w), "    y: output %s," % ty(w)]
    decl = "".join("    var t%d: %s;\n" % (i, ty(w)) for i in range(n))
    insts = ""
    for i in range(n):
        x = "a" if (i == 0 or st != "chain") else "t%d" % (i - 1)
        kk = "b + %s" % lit(w, i) if i % 2 == 0 else "b"
        conn = ("clk, rst, " if seq else "") + "x: %s, k: %s, z: t%d," % (x, kk, i)
        insts += "    inst u%d: Sub (\n        %s\n    );\n" % (i, conn)
    top = "module Top (\n%s\n) {\n%s%s    assign y = %s;\n}\n" % ("\n".join(tp), decl, insts, " ^ ".join("t%d" % i for i in range(n)))
    return sub + top, ["hier", st, "n=%d" % n]


def d_gated(rng):
    """logic on a clock / reset pin: a gated clock or a combined reset"""
    w = rng.randint(1, 3)
    st = rng.choice(["gclk", "rstor"])
    if st == "gclk":
        src = ("module Top (\n    clk: input clock,\n    rst: input reset,\n    en: input logic,\n    d: input %s,\n    q: output %s,\n) {\n"
               "    var gclk: clock;\n    assign gclk = clk & en;\n    var r: %s;\n    assign q = r;\n"
               "    always_ff (gclk, rst) {\n        if_reset {\n            r = '0;\n        } else {\n            r = d;\n        }\n    }\n}\n"
               % (ty(w), ty(w), ty(w)))
    else:
        src = ("module Top (\n    clk: input clock,\n    rst: input reset_async_high,\n    clr: input logic,\n    d: input %s,\n    q: output %s,\n) {\n"
               "    var rr: reset_async_high;\n    assign rr = rst | clr;\n    var r: %s;\n    assign q = r;\n"
               "    always_ff (clk, rr) {\n        if_reset {\n            r = '0;\n        } else {\n            r = d + 1;\n        }\n    }\n}\n"
               % (ty(w), ty(w), ty(w)))
    return src, ["gated", st]


def d_rampins(rng, force=None):
    """inferred RAM (at / above the threshold of both RamConfigs) whose pins are fed DIRECTLY by things the
    post-passes eliminate or alias: a hold-forever register with reset (never reassigned), a constant, a plain
    register, or by a deep cone (mask logic deeper than the data path)."""
    w = rng.choice([4, 8, 8, 16])
    depth = rng.choice([1024 // w, 1024 // w + 2, 2048 // w])
    aw = max(1, (depth - 1).bit_length())
    kinds = ["hold", "const", "reg", "deep", "port"]
    pick = force or {p_: rng.choice(kinds) for p_ in ("en", "addr", "data", "mask")}
    masked = pick["mask"] != "port" or rng.random() < 0.5
    style = rng.choice(["rmw", "bytes"]) if masked else "plain"
    ports = ["    clk: input clock,", "    rst: input reset,", "    we: input logic,", "    waddr: input %s," % ty(aw),
             "    wdata: input %s," % ty(w), "    raddr: input %s," % ty(aw), "    k: input %s," % ty(w), "    rdata: output %s," % ty(w)]
    decl = ["    var mem: %s [%d];" % (ty(w), depth)]
    ffs = []

    def hold(name, width, val):
        decl.append("    var %s: %s;" % (name, ty(width)))
        ffs.append("    always_ff (clk, rst) {\n        if_reset {\n            %s = %s;\n        }\n    }" % (name, lit(width, val)))
        return name

    def reg(name, width, src):
        decl.append("    var %s: %s;" % (name, ty(width)))
        ffs.append("    always_ff (clk, rst) {\n        if_reset {\n            %s = '0;\n        } else {\n            %s = %s;\n        }\n    }" % (name, name, src))
        return name
    deep1 = "(^((k + wdata) ^ ((k & wdata) + {k[0] repeat %d})))" % w
    deepw = "(((k + wdata) ^ (k - wdata)) + ((k & wdata) + (k | wdata)))"
    en = {"hold": lambda: hold("h_en", 1, 1), "const": lambda: "1'b1", "reg": lambda: reg("q_en", 1, "we"),
          "deep": lambda: "(we & %s)" % deep1, "port": lambda: "we"}[pick["en"]]()
    abit = {"hold": lambda: hold("h_a", 1, rng.randrange(2)), "const": lambda: "1'b%d" % rng.randrange(2), "reg": lambda: reg("q_a", 1, "waddr[0]"),
            "deep": lambda: deep1, "port": lambda: "waddr[0]"}[pick["addr"]]()
    addr = "{waddr[%d:1], %s}" % (aw - 1, abit) if aw > 1 else abit
    dbit = {"hold": lambda: hold("h_d", 1, 1), "const": lambda: "1'b1", "reg": lambda: reg("q_d", 1, "wdata[0]"),
            "deep": lambda: deep1, "port": lambda: "wdata[0]"}[pick["data"]]()
    data = "{wdata[%d:1], %s}" % (w - 1, dbit)
    if style == "rmw":
        m = {"hold": lambda: hold("h_m", w, (1 << w) - 2), "const": lambda: lit(w, 0x5a5a), "reg": lambda: reg("q_m", w, "k"),
             "deep": lambda: deepw, "port": lambda: "k"}[pick["mask"]]()
        wr = "if %s {\n            mem[%s] = (mem[%s] & ~%s) | (%s & %s);\n        }" % (en, addr, addr, m, data, m)
    elif style == "bytes":
        h = w // 2
        b = {"hold": lambda: hold("h_b", 1, 1), "const": lambda: "1'b1", "reg": lambda: reg("q_b", 1, "k[0]"),
             "deep": lambda: "(^%s)" % deepw, "port": lambda: "k[0]"}[pick["mask"]]()
        decl.append("    var wa: %s;\n    assign wa = %s;\n    var wd: %s;\n    assign wd = %s;" % (ty(aw), addr, ty(w), data))
        wr = ("if %s {\n            if %s {\n                mem[wa][%d:0] = wd[%d:0];\n            }\n            if k[1] {\n"
              "                mem[wa][%d:%d] = wd[%d:%d];\n            }\n        }" % (en, b, h - 1, h - 1, w - 1, h, w - 1, h))
    else:
        wr = "if %s {\n            mem[%s] = %s;\n        }" % (en, addr, data)
    body = "\n".join(decl) + "\n" + "\n".join(ffs) + ("\n" if ffs else "") + \
        "    always_ff (clk) {\n        %s\n    }\n    assign rdata = mem[raddr];" % wr
    src = "module Top (\n%s\n) {\n%s\n}\n" % ("\n".join(ports), body)
    return src, ["rampins", style, "en=%s addr=%s data=%s mask=%s" % (pick["en"], pick["addr"], pick["data"], pick["mask"]), "bits=%d" % (w * depth)]


DESIGN_FAMILIES = [(d_expr, 5), (d_arith, 3), (d_mux, 3), (d_regs, 4), (d_array, 4), (d_hier, 2), (d_gated, 1), (d_rampins, 5)]


def gen_design(rng, family=None):
    fams = [f for f, _ in DESIGN_FAMILIES]
    f = family or rng.choices(fams, [w for _, w in DESIGN_FAMILIES])[0]
    src, tags = f(rng)
    return {"src": src, "top": "Top", "tags": tags}


def gen_designs(rng, n):
    fams = [f for f, _ in DESIGN_FAMILIES]
    out = []
    for i in range(n):
        out.append(gen_design(rng, fams[i] if i < len(fams) else None))
    return out


def hexsrc(src):
    return src.encode("utf8").hex()
