"""µSV generator for C22: SystemVerilog modules printed from the µRTL AST of vp/gen/rtl.py.

The AST (expressions / statements / items / declarations) and its reference semantics (coq/Rtl,
extracted, vp/rtl_ref.py) are shared with the µRTL layer: for the constructs used here IEEE 1800
gives the SystemVerilog text printed below exactly the meaning the reference gives the AST
(self-/context-determined widths and signedness of clause 11.6/11.8, 4-state operators of 11.4).
What differs between SystemVerilog and Veryl is only the SPELLING (`<` vs `<:`, `c ? a : b` vs
`if c ? a : b`, `{n{e}}` vs `{e repeat n}`, `w'(e)` vs `e as w`, `<=` vs `=`, begin/end, the
always_ff sensitivity list and reset idiom) — which is precisely what `veryl translate` has to bridge.

  to_sv(m, style)      SystemVerilog text of module m
  style                dict: reset kind / names / idiom spelling / parameters / declaration forms
  gen_case(rng, ...)   (module, style, stimulus, construct tags)
"""
from collections import Counter

from . import rtl as G

SV_BINOPS = dict(G.BINOPS)
SV_BINOPS.update({"lt": "<", "gt": ">"})

RESET_KINDS = ["async_low", "async_high", "sync_low", "sync_high"]
# spellings of the reset test in `if (<cond>)`; %s = reset name.  The first three of each polarity
# are the shapes convert.rs recognises.
COND_LOW = ["!%s", "~%s", "(!%s)", "(~%s)", "%s == 1'b0", "! %s", "!(%s)"]
COND_HIGH = ["%s", "(%s)", "%s == 1'b1", "%s != 1'b0"]


def default_style():
    return {"reset": "async_low", "clk": "clk", "rst": "rst_n", "cond": "!%s", "params": [],
            "scalar_as_vector": False, "localparams": [], "block_single": True}


def lit_sv(w, sg, p, mk):
    return G.lit_text(w, sg, p, mk)


def expr_sv(m, e, st):
    k = e[0]
    N = lambda x: m["decls"][x][0]
    if k == "lit":
        key = (e[1], e[2], e[3], e[4])
        for (name, lit) in st.get("params", []) + st.get("localparams", []):
            if lit == key:
                return name
        return lit_sv(e[1], e[2], e[3], e[4])
    if k == "var":
        return N(e[1])
    if k == "sel":
        return "%s[%d]" % (N(e[1]), e[2]) if e[2] == e[3] else "%s[%d:%d]" % (N(e[1]), e[2], e[3])
    if k == "un":
        return "(%s%s)" % (G.UNOPS[e[1]], expr_sv(m, e[2], st))
    if k == "bin":
        return "(%s %s %s)" % (expr_sv(m, e[2], st), SV_BINOPS[e[1]], expr_sv(m, e[3], st))
    if k == "tern":
        return "(%s ? %s : %s)" % (expr_sv(m, e[1], st), expr_sv(m, e[2], st), expr_sv(m, e[3], st))
    if k == "cat":
        parts = []
        for a, n in e[1]:
            t = expr_sv(m, a, st)
            parts.append(t if n == 1 else "{%d{%s}}" % (n, t))
        return "{%s}" % ", ".join(parts)
    if k == "cast":
        return "%d'(%s)" % (e[1], expr_sv(m, e[2], st))
    if k == "sign":
        return "%s(%s)" % ("$signed" if e[1] else "$unsigned", expr_sv(m, e[2], st))
    raise ValueError(k)


def stmt_sv(m, s, ind, st, nb):
    pad = "    " * ind
    N = lambda x: m["decls"][x][0]
    op = "<=" if nb else "="
    k = s[0]
    if k == "assign":
        return ["%s%s %s %s;" % (pad, N(s[1]), op, expr_sv(m, s[2], st))]
    if k == "asel":
        t = "%s[%d]" % (N(s[1]), s[2]) if s[2] == s[3] else "%s[%d:%d]" % (N(s[1]), s[2], s[3])
        return ["%s%s %s %s;" % (pad, t, op, expr_sv(m, s[4], st))]
    if k == "if":
        out = ["%sif (%s) begin" % (pad, expr_sv(m, s[1], st))]
        for x in s[2]:
            out += stmt_sv(m, x, ind + 1, st, nb)
        if s[3]:
            out.append("%send else begin" % pad)
            for x in s[3]:
                out += stmt_sv(m, x, ind + 1, st, nb)
        out.append("%send" % pad)
        return out
    if k == "case":
        out = ["%scase (%s)" % (pad, expr_sv(m, s[1], st))]
        for pats, body in s[2]:
            out.append("%s    %s: begin" % (pad, ", ".join(expr_sv(m, p, st) for p in pats)))
            for x in body:
                out += stmt_sv(m, x, ind + 2, st, nb)
            out.append("%s    end" % pad)
        out.append("%s    default: begin" % pad)
        for x in s[3]:
            out += stmt_sv(m, x, ind + 2, st, nb)
        out.append("%s    end" % pad)
        out.append("%sendcase" % pad)
        return out
    raise ValueError(k)


def type_sv(w, sg, two, st):
    base = "bit" if two else "logic"
    s = " signed" if sg else ""
    if w == 1 and not st.get("scalar_as_vector"):
        return "%s%s" % (base, s)
    return "%s%s [%d:0]" % (base, s, w - 1)


def has_ff(m):
    return any(it[0] == "ff" for it in m["items"])


def has_reset(m):
    return any(it[0] == "ff" and it[1] is not None for it in m["items"])


def to_sv(m, st, top="Top"):
    D = m["decls"]
    clk, rst = st["clk"], st["rst"]
    head = "module %s" % top
    if st.get("params"):
        ps = []
        for (name, (w, sg, p, mk)) in st["params"]:
            ps.append("    parameter %s %s = %s" % (type_sv(w, sg, False, {"scalar_as_vector": True}), name, lit_sv(w, sg, p, mk)))
        head += " #(\n" + ",\n".join(ps) + "\n)"
    ports = []
    if has_ff(m):
        ports.append("    input  logic %s" % clk)
        if has_reset(m):
            ports.append("    input  logic %s" % rst)
    for (n, w, sg, two, kind) in D:
        if kind in ("in", "out"):
            ports.append("    %s %s %s" % ("input " if kind == "in" else "output", type_sv(w, sg, two, st), n))
    lines = [head + " (", ",\n".join(ports), ");"]
    for (name, (w, sg, p, mk)) in st.get("localparams", []):
        lines.append("    localparam %s %s = %s;" % (type_sv(w, sg, False, {"scalar_as_vector": True}), name, lit_sv(w, sg, p, mk)))
    for (n, w, sg, two, kind) in D:
        if kind == "var":
            lines.append("    %s %s;" % (type_sv(w, sg, two, st), n))
    kind = st["reset"]
    for it in m["items"]:
        if it[0] == "assign":
            lines.append("    assign %s = %s;" % (D[it[1]][0], expr_sv(m, it[2], st)))
        elif it[0] == "comb":
            lines.append("    always_comb begin")
            for s in it[1]:
                lines += stmt_sv(m, s, 2, st, False)
            lines.append("    end")
        else:
            if it[1] is None:
                lines.append("    always_ff @(posedge %s) begin" % clk)
                for s in it[2]:
                    lines += stmt_sv(m, s, 2, st, True)
                lines.append("    end")
                continue
            if kind == "async_low":
                sens = "posedge %s or negedge %s" % (clk, rst)
            elif kind == "async_high":
                sens = "posedge %s or posedge %s" % (clk, rst)
            else:
                sens = "posedge %s" % clk
            lines.append("    always_ff @(%s) begin" % sens)
            lines.append("        if (%s) begin" % (st["cond"] % rst))
            for s in it[1]:
                lines += stmt_sv(m, s, 3, st, True)
            lines.append("        end else begin")
            for s in it[2]:
                lines += stmt_sv(m, s, 3, st, True)
            lines.append("        end")
            lines.append("    end")
    lines.append("endmodule")
    return "\n".join(lines) + "\n"


def rst_active_level(st):
    return 0 if st["reset"].endswith("low") else 1


# ------------------------------------------------------------------------------------ construct tags

def has_case(stmts):
    for x in stmts:
        if x[0] == "case":
            return True
        if x[0] == "if" and (has_case(x[2]) or has_case(x[3])):
            return True
    return False


def tags(m, st):
    """construct tags of a program: which SV spellings (that differ from Veryl) it contains"""
    t = Counter()

    def we(e):
        k = e[0]
        if k == "un":
            we(e[2])
        elif k == "bin":
            if e[1] in ("lt", "gt"):
                t["rel-" + e[1]] += 1
            if e[1] == "pow":
                t["pow"] += 1
            if e[1] in ("weq", "wne"):
                t["wildcard-eq"] += 1
            we(e[2])
            we(e[3])
        elif k == "tern":
            t["ternary"] += 1
            we(e[1]); we(e[2]); we(e[3])
        elif k == "cat":
            t["concat"] += 1
            for a, n in e[1]:
                if n != 1:
                    t["replication"] += 1
                we(a)
        elif k == "cast":
            t["size-cast"] += 1
            we(e[2])
        elif k == "sign":
            t["signed-call"] += 1
            we(e[2])
        elif k == "lit":
            if e[4]:
                t["xz-literal"] += 1
            if e[2]:
                t["signed-literal"] += 1
        elif k == "sel":
            t["select"] += 1

    def ws(s):
        k = s[0]
        if k == "assign":
            we(s[2])
        elif k == "asel":
            t["lhs-select"] += 1
            we(s[4])
        elif k == "if":
            t["if"] += 1
            we(s[1])
            for x in s[2] + s[3]:
                ws(x)
        elif k == "case":
            t["case"] += 1
            we(s[1])
            if len(s[3]) != 1 or any(len(body) != 1 for _, body in s[2]):
                t["case-block"] += 1
            if any(has_case(body) for _, body in s[2]):
                t["nested-case"] += 1
            for pats, body in s[2]:
                for p in pats:
                    we(p)
                for x in body:
                    ws(x)
            for x in s[3]:
                ws(x)

    low = st["reset"].endswith("low")
    rec = (COND_LOW[:4] if low else COND_HIGH[:2])
    if has_reset(m) and st["reset"].startswith("async") and st["cond"] not in rec:
        t["async-unrecognised"] += 1
    for it in m["items"]:
        if it[0] == "assign":
            t["assign"] += 1
            we(it[2])
        elif it[0] == "comb":
            t["always_comb"] += 1
            if len(it[1]) != 1:
                t["comb-block"] += 1
            for s in it[1]:
                ws(s)
        else:
            t["always_ff"] += 1
            if it[1] is not None:
                t["ff-reset-" + st["reset"]] += 1
                for s in it[1]:
                    ws(s)
            else:
                t["ff-noreset"] += 1
            for s in it[2]:
                ws(s)
    for d in m["decls"]:
        if d[2]:
            t["signed-decl"] += 1
        if d[3]:
            t["bit-decl"] += 1
        if d[1] > 64:
            t["wide"] += 1
    if st["rst"] in ("reset", "clock") and has_reset(m):
        t["keyword-ident"] += 1
    if st.get("params"):
        t["parameter"] += len(st["params"])
    if st.get("localparams"):
        t["localparam"] += len(st["localparams"])
    return t


# ------------------------------------------------------------------------------------ generation

def collect_lits(m):
    out = []

    def we(e):
        k = e[0]
        if k == "lit":
            # unsigned literals only: veryl's simulator (the behavioural proxy of C22) reads a typed `signed` param /
            # const as unsigned, which is not the translator's doing
            if e[4] == 0 and not e[2]:
                out.append((e[1], e[2], e[3], e[4]))
        elif k == "un":
            we(e[2])
        elif k == "bin":
            we(e[2]); we(e[3])
        elif k == "tern":
            we(e[1]); we(e[2]); we(e[3])
        elif k == "cat":
            for a, n in e[1]:
                we(a)
        elif k in ("cast", "sign"):
            we(e[2])

    def ws(s):
        k = s[0]
        if k == "assign":
            we(s[2])
        elif k == "asel":
            we(s[4])
        elif k == "if":
            we(s[1])
            for x in s[2] + s[3]:
                ws(x)
        elif k == "case":
            we(s[1])
            for pats, body in s[2]:
                for x in body:
                    ws(x)
            for x in s[3]:
                ws(x)

    for it in m["items"]:
        if it[0] == "assign":
            we(it[2])
        elif it[0] == "comb":
            for s in it[1]:
                ws(s)
        else:
            for s in (it[1] or []) + it[2]:
                ws(s)
    return out


def gen_style(rng, m, params=True, unrecognised_async=False):
    st = default_style()
    st["reset"] = rng.choice(RESET_KINDS)
    low = st["reset"].endswith("low")
    st["rst"] = rng.choice(["rst_n", "rstn", "reset_n", "i_rst_n"] if low else ["rst", "rst_i", "i_rst", "arst"])
    st["clk"] = rng.choice(["clk", "clk", "i_clk", "clk_i"])
    forms = COND_LOW if low else COND_HIGH
    rec = forms[:4] if low else forms[:2]
    # asynchronous styles use the recognised spellings (an unrecognised one leaves `always_ff (clk, rst)` without
    # if_reset, a recorded finding); synchronous styles use any equivalent spelling
    if st["reset"].startswith("async") and not unrecognised_async:
        st["cond"] = rng.choice(rec)
    elif st["reset"].startswith("async"):
        st["cond"] = rng.choice([f for f in forms if f not in rec])
    else:
        st["cond"] = rng.choice(rec) if rng.random() < 0.5 else rng.choice(forms)
    st["scalar_as_vector"] = rng.random() < 0.2
    if params:
        lits = collect_lits(m)
        rng.shuffle(lits)
        seen = set()
        for lit in lits[:3]:
            if lit in seen or lit[0] > 64:
                continue
            seen.add(lit)
            if rng.random() < 0.5:
                st["params"].append(("P%d" % len(st["params"]), lit))
            else:
                st["localparams"].append(("LP%d" % len(st["localparams"]), lit))
    return st


# profile of constructs whose SystemVerilog spelling the translator is expected to carry over
CORE_PROFILE = dict(tern=False, cast=False, xz_lit=False, pow=False, ff_noreset=True)


def gen_case(rng, cycles=12, profile=None, params=True, unrecognised_async=False):
    p = dict(CORE_PROFILE)
    if profile:
        p.update(profile)
    m = G.gen_program(rng, **p)
    st = gen_style(rng, m, params=params, unrecognised_async=unrecognised_async)
    stim = G.gen_stimulus(rng, m, cycles, p_reset=0.08)
    return m, st, stim
