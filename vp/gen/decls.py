"""Generator of Veryl sources that cover every declaration kind, and of small multi-file projects.

Reusable:  gen_file(rng, uid, imports) -> FileSrc,   gen_project(rng, nfiles) -> Project,
           testcase_sources(repo) -> [(name, path)],  testcase_project(rng, sources, n) -> Project.

Every generated top-level name carries the file's unique id, so any set of generated files (and any
set of /repo/testcases/veryl files) can be analysed together in one project without duplicate
definitions.  A file may reference the *exports* of files generated before it (packages with
constants / structs / enums / functions / typedefs, modules with known ports, interfaces with
modports, proto modules, generic packages / modules): that is how multi-file projects get
cross-file imports, instances, type references, generic instantiations and modport ports.
Each snippet records the declaration kinds it contains (tags) so that a check can report shape
coverage.  All randomness comes from the rng passed in.
"""
import os
import random

WIDTHS = [1, 2, 3, 7, 8, 16, 31, 32, 33, 63, 64]
DOC_WORDS = ["data", "width", "clock", "état", "日本語", "reset", "wave", "`code`", "*bold*", "x<y>", "a/b", "\\n"]


class FileSrc:
    def __init__(self, name, text, exports, tags):
        self.name = name
        self.text = text
        self.exports = exports      # dict kind -> list of descriptors usable by later files
        self.tags = tags            # set of declaration kinds contained


class Project:
    def __init__(self, files, origin="generated"):
        self.files = files          # list of (name, text-or-@path)
        self.origin = origin
        self.tags = set()

    def wire(self):
        return [[n, t] for (n, t) in self.files]


def _doc(rng, indent=""):
    if rng.random() < 0.5:
        return ""
    n = rng.choice([1, 1, 2, 3])
    out = ""
    for _ in range(n):
        k = rng.randint(0, 4)
        out += indent + "///" + ("" if k == 0 else " " + " ".join(rng.choice(DOC_WORDS) for _ in range(k))) + "\n"
    return out


def _comment(rng, indent=""):
    r = rng.random()
    if r < 0.6:
        return ""
    if r < 0.8:
        return indent + "// " + rng.choice(DOC_WORDS) + "\n"
    return indent + "/* " + rng.choice(DOC_WORDS) + "\n" + indent + "   " + rng.choice(DOC_WORDS) + " */\n"


def _w(rng):
    return rng.choice(WIDTHS)


# ------------------------------------------------------------------------------------------------
# exporting declarations

def snip_package(rng, u, k, tags):
    """package with const / struct / enum / union / typedef / function (all exported)"""
    name = "Pkg%s_%d" % (u, k)
    w = _w(rng)
    nconst = rng.randint(1, 3)
    q = "%s_%d" % (u, k)          # every exported name is unique project-wide (wildcard imports never clash)
    consts = ["C%s_%d" % (q, i) for i in range(nconst)]
    body = ""
    for i, c in enumerate(consts):
        body += _doc(rng, "    ") + "    const %s: u32 = %d;\n" % (c, rng.choice([1, 2, 3, 8, w]))
    tags.update(["package", "const"])
    exp = {"name": name, "u": u, "consts": consts, "struct": None, "enum": None, "func": None, "type": None, "union": None}
    if rng.random() < 0.8:
        exp["struct"] = ("St%s" % q, ["fa", "fb"])
        body += _doc(rng, "    ") + "    struct St%s {\n        fa: logic<%s>,\n%s        fb: logic<%d>,\n    }\n" % (
            q, consts[0], _comment(rng, "        "), _w(rng))
        tags.update(["struct", "struct_member"])
    if rng.random() < 0.8:
        mem = ["M%s_%d" % (q, i) for i in range(rng.randint(1, 4))]
        exp["enum"] = ("En%s" % q, mem)
        enc = rng.choice(["", "    #[enum_encoding(onehot)]\n", "    #[enum_encoding(gray)]\n"]) if rng.random() < 0.3 else ""
        explicit = rng.random() < 0.3 and not enc
        body += enc + "    enum En%s%s {\n" % (q, ": logic<%d>" % max(2, len(mem)) if rng.random() < 0.5 or explicit else "")
        for i, m in enumerate(mem):
            body += _doc(rng, "        ") + "        %s%s,\n" % (m, " = %d" % i if explicit else "")
        body += "    }\n"
        tags.update(["enum", "enum_member"] + (["attribute"] if enc else []))
    if rng.random() < 0.4:
        exp["union"] = "Un%s" % q
        body += "    union Un%s {\n        ua: logic<8>,\n        ub: logic<8>,\n    }\n" % q
        tags.update(["union", "union_member"])
    if rng.random() < 0.7:
        exp["type"] = "Ty%s" % q
        body += "    type Ty%s = %s;\n" % (q, rng.choice(["logic<%d>" % _w(rng), "bit<%s>" % consts[0], "logic<4, 2>", "logic<8> [2]"]))
        tags.add("typedef")
    if rng.random() < 0.7:
        fw = _w(rng)
        exp["func"] = ("fn%s" % q, fw)
        body += _doc(rng, "    ") + "    function fn%s (\n        a: input logic<%d>,\n    ) -> logic<%d> {\n        return a + %s;\n    }\n" % (
            q, fw, fw, consts[0])
        tags.update(["function", "function_arg"])
    text = _doc(rng) + "%spackage %s {\n%s}\n" % (rng.choice(["", "pub "]), name, body)
    return text, ("package", exp)


def snip_module(rng, u, k, tags):
    """module with parameters and ports, always_ff / always_comb / assign (exported for instances)"""
    name = "Mod%s_%d" % (u, k)
    w = _w(rng)
    has_clk = rng.random() < 0.7
    params = [("PW", "u32", str(w))]
    if rng.random() < 0.4:
        params.append(("PB", "bit<4>", "4'd3"))
    ptxt = "".join(_doc(rng, "    ") + "    %s %s: %s = %s,\n" % (rng.choice(["param", "param", "const"]), n, t, v) for (n, t, v) in params)
    ports = []
    if has_clk:
        ports += [("i_clk", "input", "clock"), ("i_rst", "input", "reset")]
    ports += [("i_d", "input", "logic<PW>"), ("o_d", "output", "logic<PW>")]
    pt = "".join("    %s: %s %s,%s\n" % (n, d, t, " /// " + rng.choice(DOC_WORDS) if rng.random() < 0.3 else "") for (n, d, t) in ports)
    body = ""
    if has_clk:
        body += "    var r: logic<PW>;\n"
        body += "    always_ff {\n        if_reset {\n            r = 0;\n        } else {\n            r = i_d;\n        }\n    }\n"
        body += "    assign o_d = r;\n"
        tags.update(["always_ff", "var"])
    else:
        body += rng.choice([
            "    assign o_d = i_d;\n",
            "    always_comb {\n        o_d = ~i_d;\n    }\n",
            "    let t: logic<PW> = i_d + 1;\n    assign o_d = t;\n"])
        tags.add("comb")
    if rng.random() < 0.4:
        body += "    #[allow(unused_variable)]\n    let _unused%d: logic = 1;\n" % k
        tags.add("attribute")
    text = _doc(rng) + "%smodule %s #(\n%s) (\n%s) {\n%s}\n" % (rng.choice(["", "pub "]), name, ptxt, pt, body)
    tags.update(["module", "parameter", "port"])
    return text, ("module", {"name": name, "clk": has_clk, "params": [p[0] for p in params]})


def snip_interface(rng, u, k, tags):
    name = "If%s_%d" % (u, k)
    w = _w(rng)
    body = "    var req: logic;\n    var dat: logic<W>;\n"
    if rng.random() < 0.5:
        body += "    function get_dat () -> logic<W> {\n        return dat;\n    }\n"
        fimp = "        get_dat: import,\n"
        tags.add("function")
    else:
        fimp = ""
    body += _doc(rng, "    ") + "    modport mst {\n        req: output,\n        dat: output,\n    }\n"
    body += "    modport slv {\n        req: input,\n        dat: input,\n%s    }\n" % fimp
    if rng.random() < 0.3:
        body += "    modport mon {\n        ..input\n    }\n"
        tags.add("modport_default")
    text = _doc(rng) + "interface %s #(\n    param W: u32 = %d,\n) {\n%s}\n" % (name, w, body)
    tags.update(["interface", "modport", "modport_member", "parameter", "var"])
    return text, ("interface", {"name": name})


def snip_proto(rng, u, k, tags):
    pname = "Proto%s_%d" % (u, k)
    impl = "PImpl%s_%d" % (u, k)
    text = "proto module %s (\n    a: input logic,\n    b: output logic,\n);\n" % pname
    text += "module %s for %s (\n    a: input logic,\n    b: output logic,\n) {\n    assign b = a;\n}\n" % (impl, pname)
    tags.update(["proto_module", "module", "port"])
    pk = "ProtoPkg%s_%d" % (u, k)
    text += "proto package %s {\n    const PC: u32;\n    type PT;\n}\n" % pk
    text += "package %sImpl for %s {\n    const PC: u32 = %d;\n    type PT = logic<PC>;\n}\n" % (pk, pk, rng.choice([2, 4, 8]))
    tags.update(["proto_package", "package", "proto_const", "proto_typedef"])
    return text, ("proto", {"proto": pname, "impl": impl, "ppkg": pk, "ppkg_impl": pk + "Impl"})


def snip_generic(rng, u, k, tags):
    gp = "GPkg%s_%d" % (u, k)
    gm = "GMod%s_%d" % (u, k)
    text = _doc(rng) + "package %s::<T: u32%s> {\n    const X: u32 = T;\n    struct GS {\n        g: logic<T>,\n    }\n}\n" % (
        gp, rng.choice(["", " = 4"]))
    text += "module %s::<W: u32> (\n    o: output logic<W>,\n) {\n    function gf::<N: u32> (\n        a: input logic<N>,\n    ) -> logic<N> {\n        return a + 1;\n    }\n    assign o = gf::<W>(1);\n}\n" % gm
    tags.update(["generic_package", "generic_module", "generic_function", "generic_parameter", "struct", "const"])
    return text, ("generic", {"pkg": gp, "mod": gm})


# ------------------------------------------------------------------------------------------------
# consuming declarations (may reference exports of this or earlier files)

def snip_user(rng, u, k, avail, tags):
    """a module that uses exported declarations: imports, instances, struct/enum vars, function calls,
    generic instantiations, modport ports, aliases, blocks, generate-for, $sv references, unsafe"""
    name = "Use%s_%d" % (u, k)
    ports = ["    i_clk: input clock,\n", "    i_rst: input reset,\n"]
    head = ""
    body = ""
    pkgs = avail.get("package", [])
    mods = avail.get("module", [])
    ifs = avail.get("interface", [])
    protos = avail.get("proto", [])
    gens = avail.get("generic", [])
    n = 0

    def fresh(p):
        nonlocal n
        n += 1
        return "%s_%d" % (p, n)       # the underscore keeps clear of keywords (i8, u32, f64 ...)

    for p in rng.sample(pkgs, min(len(pkgs), rng.randint(0, 2))):
        style = rng.choice(["wild", "item", "qualified", "header"])
        if style == "header" and p.get("u") == u:
            style = "wild"      # a file-scope import may not precede the package's definition in the same file
        if style == "wild":
            body += "    import %s::*;\n" % p["name"]
            c = p["consts"][0]
            tags.add("import_wildcard")
        elif style == "item":
            body += "    import %s::%s;\n" % (p["name"], p["consts"][0])
            c = p["consts"][0]
            tags.add("import_item")
        elif style == "header":
            head += "import %s::*;\n" % p["name"]
            c = p["consts"][0]
            tags.add("import_file_scope")
        else:
            c = "%s::%s" % (p["name"], p["consts"][0])
        v = fresh("v")
        body += "    let %s: logic<%s> = 0;\n" % (v, c)
        if p["struct"]:
            s = fresh("s")
            body += "    var %s: %s::%s;\n    assign %s.%s = 0;\n    assign %s.%s = 1;\n" % (
                s, p["name"], p["struct"][0], s, p["struct"][1][0], s, p["struct"][1][1])
            tags.add("struct_use")
        if p["enum"]:
            e = fresh("e")
            body += "    let %s: %s::%s = %s::%s::%s;\n" % (e, p["name"], p["enum"][0], p["name"], p["enum"][0], rng.choice(p["enum"][1]))
            tags.add("enum_use")
        if p["func"]:
            f = fresh("f")
            body += "    let %s: logic<%d> = %s::%s(%d);\n" % (f, p["func"][1], p["name"], p["func"][0], rng.randint(0, 1))
            tags.add("function_call")
        if p["type"]:
            t = fresh("t")
            body += "    #[allow(unassign_variable)]\n    var %s: %s::%s;\n" % (t, p["name"], p["type"])
            tags.update(["typedef_use", "attribute"])
        if p["union"]:
            x = fresh("x")
            body += "    var %s: %s::%s;\n    assign %s.ua = 0;\n" % (x, p["name"], p["union"], x)
            tags.add("union_use")
    for m in rng.sample(mods, min(len(mods), rng.randint(0, 2))):
        w = _w(rng)
        i, o = fresh("i"), fresh("o")
        body += "    let %s: logic<%d> = 1;\n    var %s: logic<%d>;\n" % (i, w, o, w)
        conn = ("        i_clk,\n        i_rst,\n" if m["clk"] else "") + "        i_d: %s,\n        o_d: %s,\n" % (i, o)
        body += _doc(rng, "    ") + "    inst %s: %s #(\n        PW: %d,\n    ) (\n%s    );\n" % (fresh("u_m"), m["name"], w, conn)
        tags.update(["instance", "instance_param"])
    for f in rng.sample(ifs, min(len(ifs), rng.randint(0, 1))):
        b = fresh("bus")
        body += "    inst %s: %s #( W: %d );\n    assign %s.req = 0;\n    assign %s.dat = 0;\n" % (b, f["name"], _w(rng), b, b)
        if rng.random() < 0.5:
            ports.append("    %s: modport %s::slv,\n" % (fresh("p_if"), f["name"]))
            tags.add("modport_port")
        tags.add("interface_instance")
    for p in rng.sample(protos, min(len(protos), rng.randint(0, 1))):
        a, b = fresh("pa"), fresh("pb")
        body += "    let %s: logic = 0;\n    var %s: logic;\n    inst %s: %s ( a: %s, b: %s );\n" % (a, b, fresh("u_p"), p["impl"], a, b)
        body += "    let %s: %s::PT = 0;\n" % (fresh("pt"), p["ppkg_impl"])
        tags.update(["proto_impl_instance"])
    for g in rng.sample(gens, min(len(gens), rng.randint(0, 1))):
        w = rng.choice([2, 4, 8])
        body += "    const %s: u32 = %s::<%d>::X;\n" % (fresh("GC"), g["pkg"], w)
        s = fresh("gs")
        body += "    var %s: %s::<%d>::GS;\n    assign %s.g = 0;\n" % (s, g["pkg"], w, s)
        o = fresh("go")
        body += "    var %s: logic<%d>;\n    inst %s: %s::<%d> ( o: %s );\n" % (o, w, fresh("u_g"), g["mod"], w, o)
        if rng.random() < 0.5:
            ap, ga = fresh("AP"), fresh("GA")
            body += "    alias package %s = %s::<%d>;\n    const %s: u32 = %s::X;\n" % (ap, g["pkg"], w + 1, ga, ap)
            tags.add("alias_package")
        if rng.random() < 0.4:
            body += "    alias module %s = %s::<%d>;\n" % (fresh("AM"), g["mod"], w)
            tags.add("alias_module")
        tags.update(["generic_instance"])
    # local declarations of every remaining kind
    r = rng.random
    if r() < 0.6:
        lbl = fresh("blk")
        body += "    :%s {\n        let _b: logic = 1;\n    }\n" % lbl
        tags.add("block")
    if r() < 0.6:
        body += "    for gi in 0..%d :%s {\n        var ga: logic;\n        always_ff {\n            ga = gi;\n        }\n    }\n" % (rng.randint(1, 3), fresh("gen"))
        tags.update(["genvar", "generate_for", "block"])
    if r() < 0.4:
        body += "    const LC: u32 = 1;\n    if LC == 1 :%s {\n        let _gi: logic = 1;\n    } else {\n        let _gi: logic = 0;\n    }\n" % fresh("gif")
        tags.update(["generate_if", "block"])
    if r() < 0.4:
        body += "    inst %s: $sv::SvMod%d (\n        clk: i_clk,\n    );\n" % (fresh("u_sv"), rng.randint(0, 2))
        tags.add("sv_instance")
    if r() < 0.3:
        body += "    const %s: u32 = $sv::sv_pkg::SV_PARAM%d;\n" % (fresh("SVC"), rng.randint(0, 1))
        tags.add("sv_reference")
    if r() < 0.3:
        body += "    #[allow(unassign_variable)]\n    var %s: $sv::SvStruct;\n" % fresh("svs")
        tags.update(["sv_type", "attribute"])
    if r() < 0.3:
        ports.append("    i_a: input 'a logic,\n")
        ports.append("    o_b: output 'b logic,\n")
        body += "    unsafe (cdc) {\n        assign o_b = i_a;\n    }\n"
        tags.update(["unsafe", "clock_domain"])
    if r() < 0.3:
        body += "    #[ifdef(VH_DEF)]\n    let _ifd: logic = 1;\n    #[ifndef(VH_DEF)]\n    let _ifn: logic = 0;\n"
        tags.update(["ifdef", "attribute"])
    if r() < 0.3:
        body += "    embed (inline) sv{{{\n        initial begin $display(\"x\"); end\n    }}}\n"
        tags.add("embed")
    if r() < 0.3:
        body += "    function lf (\n        a: input logic<4>,\n        b: output logic<4>,\n    ) {\n        b = a;\n    }\n"
        body += "    var lfo: logic<4>;\n    always_comb {\n        lf(1, lfo);\n    }\n"
        tags.update(["function", "function_arg", "function_call"])
    if r() < 0.3:
        body += "    struct LS {\n        la: logic,\n    }\n    enum LE {\n        LX,\n        LY,\n    }\n    var ls: LS;\n    assign ls.la = 0;\n    let le: LE = LE::LX;\n"
        tags.update(["struct", "enum", "struct_member", "enum_member"])
    if r() < 0.25:
        body += "    type LT = logic<3>;\n    let lt: LT = 0;\n    let lt_msb: logic = lt[msb];\n"
        tags.update(["typedef", "msb"])
    if r() < 0.25:
        body += "    let cx: logic = 1;\n    let sw: logic<2> = case cx {\n        1'b0: 1,\n        default: 0,\n    };\n"
        tags.add("case_expr")
    text = head + _doc(rng) + "module %s (\n%s) {\n%s}\n" % (name, "".join(ports), body)
    tags.update(["module", "port"])
    return text


def snip_toplevel_misc(rng, u, k, tags):
    """file-level embed, test modules, include-free extras"""
    t = ""
    r = rng.random
    if r() < 0.4:
        t += "#[test(test%s_%d)]\nembed (inline) sv{{{\nmodule test%s_%d;\n    initial begin $finish(); end\nendmodule\n}}}\n" % (u, k, u, k)
        tags.update(["test", "embed", "attribute"])
    if r() < 0.3:
        t += "#[test(tb%s_%d)]\nmodule tb%s_%d {\n    initial {\n        $display(\"tb\");\n    }\n}\n" % (u, k, u, k)
        tags.update(["test", "module", "initial"])
    if r() < 0.3 and str(u).endswith("0"):
        # anonymous file-level embeds are named embed@<n> per file: two files with one each collide
        # (duplicated_identifier), so only the first file of a project gets one
        t += "embed (inline) sv{{{\nmodule raw%s_%d; endmodule\n}}}\n" % (u, k)
        tags.add("embed")
    return t


SV_NAMESPACES = ["sv_ns_a", "sv_ns_b", "sv_ns_c"]
SV_MEMBERS = ["WIDTH", "DEPTH"]


def snip_sv_shared(rng, u, k, tags, pairs=None):
    """module referring to members of shared `$sv::` namespaces.  The (namespace, member) names come
    from a small fixed pool, so several files of one project mention the SAME `$sv::ns::member` and
    same-named members of DIFFERENT namespaces: only the first file registers the symbol, the others'
    inserts are shadowed (symbol_table sv_shadows) - which file that is depends on the build."""
    if pairs is None:
        allp = [(n, m) for n in SV_NAMESPACES for m in SV_MEMBERS]
        pairs = rng.sample(allp, rng.randint(2, 4))
        # make sure one member name occurs under two namespaces
        m = rng.choice(SV_MEMBERS)
        for n in rng.sample(SV_NAMESPACES, 2):
            if (n, m) not in pairs:
                pairs.append((n, m))
    body = ""
    for i, (n, m) in enumerate(pairs):
        body += "    const SV_%d: u32 = $sv::%s::%s;\n" % (i, n, m)
    body += "    #[allow(unused_variable)]\n    let _sv_sum: logic<32> = %s;\n" % " + ".join("SV_%d" % i for i in range(len(pairs)))
    if rng.random() < 0.5:
        body += "    inst u_svm: $sv::%s::SvLeaf;\n" % rng.choice(SV_NAMESPACES) if False else "    inst u_svm: $sv::SvShared%d;\n" % rng.randint(0, 1)
    tags.update(["sv_shared_member", "sv_reference", "module", "const"])
    return "module SvUse%s_%d {\n%s}\n" % (u, k, body)


def snip_ifdef(rng, u, k, tags):
    """conditional attributes around parameters, ports, declarations and statements
    (#[ifdef] / #[ifndef] / #[elsif] / #[else], nested and grouped), defines VH_A / VH_B"""
    d1, d2 = rng.choice([("VH_A", "VH_B"), ("VH_B", "VH_A")])
    name = "Ifd%s_%d" % (u, k)
    t = "module %s #(\n" % name
    t += "    #[ifdef(%s)]\n    param PA: u32 = 1,\n" % d1
    t += "    #[ifdef(%s)]\n    {\n        param PB: u32 = 2,\n    },\n" % d2 if rng.random() < 0.5 else ""
    t += "    param PC: u32 = 3,\n) (\n"
    t += "    #[ifdef(%s)]\n    port_x: input logic,\n    #[elsif(%s)]\n    port_y: input logic,\n    #[else]\n    port_z: input logic,\n" % (d1, d2)
    t += "    #[ifndef(%s)]\n    port_p: input logic,\n" % d1 if rng.random() < 0.5 else ""
    t += "    #[ifdef(%s)]\n    port_a: input logic,\n    #[ifndef(%s)]\n    port_a: input logic<2>,\n" % (d2, d2) if rng.random() < 0.5 else ""
    t += "    port_d: input logic,\n) {\n"
    t += "    #[ifdef(%s)]\n    #[ifdef(%s)]\n    let _a: logic<10> = 1;\n" % (d1, d2)
    t += "    #[ifdef(%s)]\n    {\n        let _b: logic<10> = 1;\n        let _c: logic<10> = PC;\n    }\n" % d1
    t += "    var _d: logic;\n    always_comb {\n        #[ifdef(%s)]\n        block {\n            _d = 0;\n        }\n    }\n" % d2
    t += "    #[ifndef(%s)]\n    assign _d = 1;\n" % d2
    if rng.random() < 0.5:
        t += "    #[ifdef(%s)]\n    let _v: logic = 0;\n    #[ifndef(%s)]\n    let _v: logic<2> = 1;\n" % (d1, d1)
    t += "}\n"
    tags.update(["ifdef", "ifndef", "elsif", "else", "attribute", "module", "parameter", "port"])
    return t


def sv_shared_project(rng, nfiles, prefix="S"):
    """files that share `$sv::` namespace members (and, half of the time, ordinary generated content)"""
    files, tags = [], set()
    avail = {}
    for i in range(nfiles):
        u = "%s%d" % (prefix, i)
        text = ""
        if rng.random() < 0.4:
            f = gen_file(rng, u, avail, nitems=2)
            for kind, exps in f.exports.items():
                avail.setdefault(kind, []).extend(exps)
            text = f.text.replace("\r\n", "\n") + "\n"
            tags |= f.tags
        for k in range(rng.randint(1, 2)):
            text += snip_sv_shared(rng, u, 90 + k, tags)
        if rng.random() < 0.3:
            text += snip_ifdef(rng, u, 95, tags)
        files.append(("s%s.veryl" % u, text))
    p = Project(files, origin="sv-shared")
    p.tags = tags
    return p


def ifdef_project(rng, nfiles, prefix="I"):
    files, tags = [], set()
    avail = {}
    for i in range(nfiles):
        u = "%s%d" % (prefix, i)
        f = gen_file(rng, u, avail, nitems=2)
        for kind, exps in f.exports.items():
            avail.setdefault(kind, []).extend(exps)
        text = f.text.replace("\r\n", "\n") + "\n" + snip_ifdef(rng, u, 95, tags)
        if rng.random() < 0.5:
            text += snip_ifdef(rng, u, 96, tags)
        tags |= f.tags
        files.append(("i%s.veryl" % u, text))
    p = Project(files, origin="ifdef")
    p.tags = tags
    return p


EXPORTERS = [snip_package, snip_package, snip_module, snip_module, snip_interface, snip_proto, snip_generic]


def gen_file(rng, uid, avail=None, nitems=None):
    """One source file.  `avail`: exports of earlier files ({kind: [descriptor]}); the file's own
    exports are added to a copy of it for its own consumers."""
    avail = {k: list(v) for k, v in (avail or {}).items()}
    tags = set()
    exports = {}
    parts = []
    users = []
    nitems = nitems or rng.randint(2, 5)
    k = 0
    for _ in range(nitems):
        k += 1
        if rng.random() < 0.55:
            text, (kind, exp) = rng.choice(EXPORTERS)(rng, uid, k, tags)
            exports.setdefault(kind, []).append(exp)
            avail.setdefault(kind, []).append(exp)
            parts.append(text)
        else:
            users.append(snip_user(rng, uid, k, avail, tags))
    if rng.random() < 0.5:
        k += 1
        users.append(snip_toplevel_misc(rng, uid, k, tags))
    if rng.random() < 0.3:
        k += 1
        users.append(snip_sv_shared(rng, uid, k, tags))
    if rng.random() < 0.3:
        k += 1
        users.append(snip_ifdef(rng, uid, k, tags))
    # inside one file a package / module must be defined before it is referred to
    # (referring_before_definition); across files there is no such rule
    rng.shuffle(parts)
    rng.shuffle(users)
    parts = parts + users
    # file-scope imports must come first
    heads = []
    rest = []
    for p in parts:
        lines = p.split("\n")
        h = [l for l in lines if l.startswith("import ")]
        heads += h
        rest.append("\n".join(l for l in lines if not l.startswith("import ")))
    nl = rng.choice(["\n", "\n", "\n\n"])
    text = ("\n".join(heads) + "\n" if heads else "") + nl.join(rest)
    if rng.random() < 0.15:
        text = text.replace("\n", "\r\n")
        tags.add("crlf")
    return FileSrc("g%s.veryl" % uid, text, exports, tags)


def gen_project(rng, nfiles, prefix="P"):
    """nfiles generated files; later files may use the exports of earlier ones.  The file list is
    returned in generation order (= a dependency order); callers permute it as they like."""
    avail = {}
    files = []
    tags = set()
    for i in range(nfiles):
        f = gen_file(rng, "%s%d" % (prefix, i), avail)
        for kind, exps in f.exports.items():
            avail.setdefault(kind, []).extend(exps)
        files.append((f.name, f.text))
        tags |= f.tags
    p = Project(files)
    p.tags = tags
    return p


# ------------------------------------------------------------------------------------------------
# the repository's own test cases as a corpus

# files that need other projects / std / include files and therefore do not analyse alone
TESTCASE_SKIP = {"25_dependency_1", "25_dependency_2", "68_std_1", "68_std_2", "52_include", "67_cocotb"}


def testcase_sources(repo):
    d = os.path.join(repo, "testcases", "veryl")
    out = []
    for f in sorted(os.listdir(d)):
        if f.endswith(".veryl") and f[:-6] not in TESTCASE_SKIP:
            out.append((f, os.path.join(d, f)))
    return out


def testcase_project(rng, sources, n):
    """n distinct test case files as one project (referenced by path: '@/abs/path')"""
    pick = rng.sample(sources, min(n, len(sources)))
    p = Project([(name, "@" + path) for (name, path) in pick], origin="testcases")
    return p


def mixed_project(rng, sources, ngen, ntc, prefix="X"):
    g = gen_project(rng, ngen, prefix)
    t = testcase_project(rng, sources, ntc)
    files = g.files + t.files
    p = Project(files, origin="mixed")
    p.tags = g.tags
    return p
