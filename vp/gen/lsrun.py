"""Drive the real veryl-ls through a history and observe it (C07 end-to-end oracle).

run_case(binary, hist, workdir) applies the history to server A, waits for quiescence, observes it; then starts
fresh servers on the final state (same workspace directory: disk = final saved contents, open buffers re-opened
with their final text) and observes them the same way.  Observation = what an editor can see:
  * diagnostics published for every open buffer when it is re-sent unchanged (two rounds, fixed order),
  * workspace/symbol (all symbols the analyzer still holds),
  * textDocument/references + definition on identifier occurrences of the open buffers.
All waits are message-driven (see lsclient); nothing is compared before both servers are quiescent.
"""
import json
import os
import re
import shutil

from . import lsclient as L

TOML = """[project]
name = "prj"
version = "0.1.0"
[build]
sources = ["src"]
target = {type = "directory", path = "target"}
exclude_std = true
incremental = %s
"""

_IDENT = re.compile(r"[A-Za-z_][A-Za-z0-9_]*")
_KW = {"module", "package", "interface", "const", "var", "let", "assign", "input", "output", "logic", "clock", "reset",
       "struct", "enum", "type", "function", "return", "import", "inst", "modport", "always_ff", "always_comb",
       "if_reset", "else", "if", "pub", "u32", "u64", "bit", "bind", "alias", "embed", "inline", "sv", "msb", "lsb",
       "for", "in", "param", "inout", "ref", "i32", "i64", "f32", "f64", "true", "false", "case", "switch", "default",
       "initial", "final", "unsafe", "proto", "union", "string", "signed", "tri", "step", "repeat", "inside", "outside",
       "break", "as", "converse", "same", "connect", "lbool", "bbool", "p8", "p16", "p32", "p64", "i8", "i16", "u8", "u16",
       "clock_posedge", "clock_negedge", "reset_async_high", "reset_async_low", "reset_sync_high", "reset_sync_low"}


def setup_workspace(root, files, incremental):
    os.makedirs(os.path.join(root, "src"), exist_ok=True)
    with open(os.path.join(root, "Veryl.toml"), "w") as f:
        f.write(TOML % ("true" if incremental else "false"))
    for rel, text in files.items():
        with open(os.path.join(root, "src", rel), "w") as f:
            f.write(text)


class Session:
    """one server + the client-side truth (disk is the real directory; open buffers here)"""

    def __init__(self, binary, root, home, timeout=180.0, close_handled=False):
        self.root = root
        self.c = L.LsClient(binary, root, home, timeout=timeout, close_handled=close_handled)
        self.c.initialize()
        self.open = {}
        self.skipped = 0
        self.discarded = set()     # closed with unsaved edits (server keeps the discarded buffer: known class)
        self.applied = []

    def path(self, rel):
        return os.path.join(self.root, "src", rel)

    def exists(self, rel):
        return os.path.exists(self.path(rel))

    def disk_text(self, rel):
        try:
            return open(self.path(rel)).read()
        except OSError:
            return None

    def step(self, st):
        k = st[0]
        c = self.c
        ok = True
        if k == "open":
            rel, text = st[1], st[2]
            if rel in self.open or not self.exists(rel):
                ok = False
            else:
                # an editor opens the file with its on-disk text; the history's text is informative only
                text = self.disk_text(rel)
                self.open[rel] = text       # before sending: if the server dies on it, this is the state it died on
                self.discarded.discard(rel)
                c.did_open(self.path(rel), text)
                c.quiesce()
        elif k == "change":
            rel, text = st[1], st[2]
            if rel not in self.open:
                ok = False
            else:
                self.open[rel] = text
                c.did_change(self.path(rel), text)
        elif k == "save":
            rel = st[1]
            if rel not in self.open:
                ok = False
            else:
                with open(self.path(rel), "w") as f:
                    f.write(self.open[rel])
                c.did_save(self.path(rel))
        elif k == "close":
            rel = st[1]
            if rel not in self.open:
                ok = False
            else:
                if self.disk_text(rel) != self.open[rel]:
                    self.discarded.add(rel)
                c.did_close(self.path(rel))
                del self.open[rel]
                if c.close_handled:
                    c.quiesce()
        elif k == "rename":
            old, new = st[1], st[2]
            if not self.exists(old) or self.exists(new):
                ok = False
            else:
                c.quiesce()
                was_open = old in self.open
                if was_open and self.disk_text(old) != self.open[old]:
                    # editors save (or keep the dirty buffer under the new name); keep it simple: save first
                    with open(self.path(old), "w") as f:
                        f.write(self.open[old])
                    c.did_save(self.path(old))
                c.will_rename(self.path(old), self.path(new))
                os.rename(self.path(old), self.path(new))
                c.did_rename(self.path(old), self.path(new))
                c.quiesce()
                self.discarded.discard(new)
                if old in self.discarded:
                    self.discarded.discard(old)
                if was_open:
                    text = self.open.pop(old)
                    self.open[new] = text
                    c.did_close(self.path(old))
                    c.did_open(self.path(new), text)
                    c.quiesce()
        elif k == "delete":
            rel = st[1]
            if not self.exists(rel):
                ok = False
            else:
                c.quiesce()
                c.will_delete(self.path(rel))
                os.remove(self.path(rel))
                if rel in self.open:
                    c.did_close(self.path(rel))
                    del self.open[rel]
                self.discarded.discard(rel)
        elif k == "open_bg":
            # ["open_bg", trigger, g]: open `trigger`; while its background task runs - right after it has analysed g
            # from disk - open g as well.  If the second didOpen arrives too late the step degenerates to two
            # ordinary opens (never a false alarm, only a missed interleaving).
            trig, g = st[1], st[2]
            if trig in self.open or g in self.open or not self.exists(trig) or not self.exists(g) or trig == g:
                ok = False
            else:
                tt, tg = self.disk_text(trig), self.disk_text(g)
                u, v = c.open_nowait(self.path(trig), tt)
                self.open[trig] = tt
                seen = c.wait_report(g)
                c.did_open(self.path(g), tg)
                self.open[g] = tg
                c.wait_published(u, v)
                self.interleaved = getattr(self, "interleaved", 0) + (1 if seen and c.ends < c.tasks - 1 else 0)
                c.quiesce()
        elif k == "wait":
            c.quiesce()
        else:
            ok = False
        if not ok:
            self.skipped += 1
        else:
            self.applied.append(st)
        return ok

    def observe(self, open_files, probe_refs=True):
        """open_files: {rel: text} in the order to refresh. Returns a canonical observation dict."""
        c = self.c
        c.quiesce()
        obs = {}
        for rnd in (1, 2):
            d = {}
            for rel in sorted(open_files):
                ds = c.did_change(self.path(rel), open_files[rel])
                d[rel] = L.canon_diags(ds, self.root)
            obs["diags%d" % rnd] = d
        c.quiesce()
        syms = []
        for s in c.symbols():
            loc = s.get("location", {})
            r = loc.get("range", {})
            syms.append((s.get("name"), s.get("kind"), loc.get("uri", "").replace("file://" + self.root, ""),
                         r.get("start", {}).get("line"), r.get("start", {}).get("character"),
                         r.get("end", {}).get("character")))
        obs["symbols"] = sorted(syms, key=repr)
        if probe_refs:
            refs = {}
            for rel in sorted(open_files):
                out = []
                seen = 0
                for ln, line in enumerate(open_files[rel].split("\n")):
                    if line.lstrip().startswith("//") or "$" in line:
                        continue      # `$sv::..`/`$clog2` resolve to builtin symbols: to_location panics on them in debug builds
                    for m in _IDENT.finditer(line):
                        if m.group(0) in _KW or seen >= 60:
                            continue
                        seen += 1
                        pos = {"textDocument": {"uri": L.uri_of(self.path(rel))}, "position": {"line": ln, "character": m.start()}}
                        r1 = c.request("textDocument/definition", pos)
                        p2 = dict(pos)
                        p2["context"] = {"includeDeclaration": True}
                        r2 = c.request("textDocument/references", p2)
                        out.append((ln, m.start(), m.group(0), self._loc(r1.get("result")), self._locs(r2.get("result"))))
                refs[rel] = out
            obs["refs"] = refs
        return obs

    def _loc(self, l):
        if not l:
            return None
        if isinstance(l, list):
            return self._locs(l)
        r = l.get("range", {})
        return (l.get("uri", "").replace("file://" + self.root, ""), r.get("start", {}).get("line"),
                r.get("start", {}).get("character"), r.get("end", {}).get("character"))

    def _locs(self, ls):
        return sorted((self._loc(x) for x in (ls or [])), key=repr)

    def close(self):
        self.c.close()


def fresh_observe(binary, root, home, open_files, timeout=180.0, probe_refs=True, close_handled=False):
    s = Session(binary, root, home, timeout=timeout, close_handled=close_handled)
    try:
        for rel in sorted(open_files):
            s.c.did_open(s.path(rel), open_files[rel])
            s.open[rel] = open_files[rel]
            s.c.quiesce()
        return s.observe(open_files, probe_refs=probe_refs)
    finally:
        s.close()


def outcome(fn):
    """run fn() -> ('ok', obs) | ('panic', text) | ('timeout', text)"""
    try:
        return ("ok", fn())
    except L.ServerPanic as e:
        return ("panic", re.sub(r"/verif/\.work/\S*/(ws|home)", "<ws>", str(e))[:300])
    except L.Timeout as e:
        return ("timeout", str(e))


def run_case(binary, hist, workdir, timeout=180.0, probe_refs=True, cold=True, close_handled=False):
    """returns dict: old / fresh (warm) / cold outcomes + bookkeeping"""
    shutil.rmtree(workdir, ignore_errors=True)
    root = os.path.join(workdir, "ws")
    home = os.path.join(workdir, "home")
    os.makedirs(home, exist_ok=True)
    setup_workspace(root, hist["files"], hist.get("incremental", False))
    res = {"skipped": 0}
    state = {}

    def old():
        s = Session(binary, root, home, timeout=timeout, close_handled=close_handled)
        try:
            for st in hist["steps"]:
                s.step(st)
            state["open"] = dict(s.open)
            state["discarded"] = sorted(s.discarded)
            state["skipped"] = s.skipped
            state["applied"] = len(s.applied)
            state["interleaved"] = getattr(s, "interleaved", 0)
            return s.observe(s.open, probe_refs=probe_refs)
        finally:
            state.setdefault("open", dict(s.open))
            state.setdefault("discarded", sorted(s.discarded))
            s.close()

    res["old"] = outcome(old)
    res.update({k: state.get(k) for k in ("discarded", "skipped", "applied", "interleaved")})
    res["open"] = sorted(state.get("open", {}))
    opened = state.get("open", {})
    res["fresh"] = outcome(lambda: fresh_observe(binary, root, home, opened, timeout, probe_refs, close_handled))
    if cold and hist.get("incremental", False):
        shutil.rmtree(os.path.join(root, ".build"), ignore_errors=True)
        res["cold"] = outcome(lambda: fresh_observe(binary, root, home, opened, timeout, probe_refs, close_handled))
    res["final_disk"] = {}
    try:
        for f in sorted(os.listdir(os.path.join(root, "src"))):
            res["final_disk"][f] = open(os.path.join(root, "src", f)).read()
    except OSError:
        pass
    res["final_open"] = opened
    return res


def diff_obs(a, b):
    """list of (aspect, rel, detail) where two observations differ"""
    out = []
    for rnd in ("diags1", "diags2"):
        for rel in sorted(set(a[rnd]) | set(b[rnd])):
            x, y = a[rnd].get(rel), b[rnd].get(rel)
            if x != y:
                xs, ys = set(map(repr, x or [])), set(map(repr, y or []))
                out.append((rnd, rel, {"only_history": sorted(xs - ys)[:4], "only_fresh": sorted(ys - xs)[:4]}))
    if a.get("symbols") != b.get("symbols"):
        xs, ys = set(map(repr, a["symbols"])), set(map(repr, b["symbols"]))
        if xs != ys:
            out.append(("symbols", "", {"only_history": sorted(xs - ys)[:6], "only_fresh": sorted(ys - xs)[:6]}))
        else:
            out.append(("symbols-multiplicity", "", {"history": len(a["symbols"]), "fresh": len(b["symbols"])}))
    ra, rb = a.get("refs"), b.get("refs")
    if ra is not None and rb is not None and ra != rb:
        for rel in sorted(set(ra) | set(rb)):
            x, y = ra.get(rel) or [], rb.get(rel) or []
            for p, q in zip(x, y):
                if p != q:
                    out.append(("refs", rel, {"history": repr(p)[:400], "fresh": repr(q)[:400]}))
                    break
    return out
