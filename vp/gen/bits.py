"""G-bits: operator x width x signedness x 4-state value cases for the analyzer's Value / Op layer
(C17, C36, C11) with boundary bias."""
import itertools

UNARY = ["Add", "Sub", "BitNot", "BitAnd", "BitNand", "BitOr", "BitNor", "BitXor", "BitXnor", "LogicNot"]
CTX2 = ["Add", "Sub", "Mul", "Div", "Rem", "BitAnd", "BitOr", "BitXor", "BitXnor"]
REL2 = ["Eq", "Ne", "EqWildcard", "NeWildcard", "Greater", "GreaterEq", "Less", "LessEq", "LogicAnd", "LogicOr"]
SH2 = ["LogicShiftL", "LogicShiftR", "ArithShiftL", "ArithShiftR", "Pow"]
BINARY = CTX2 + REL2 + SH2
BOUNDARY_W = [1, 2, 3, 7, 8, 16, 31, 32, 33, 63, 64, 65, 100, 127, 128, 129, 200, 255, 256]


def val(p, m, w, s):
    """value tuple (rep, payload, mask, width, signed)"""
    return ("U" if w <= 64 else "B", p, m, w, 1 if s else 0)


def wire(v):
    return "%s %d %d %d %d" % v


def coq(v):
    return "(mkV %s %d %d %d %s)" % ("RU" if v[0] == "U" else "RB", v[1], v[2], v[3], "true" if v[4] else "false")


def rand_payload(rng, w):
    if w == 0:
        return rng.choice([0, 1])
    r = rng.random()
    top = (1 << w) - 1
    if r < 0.12:
        return 0
    if r < 0.22:
        return top
    if r < 0.30:
        return 1
    if r < 0.38:
        return 1 << (w - 1)            # MIN
    if r < 0.46:
        return (1 << (w - 1)) - 1      # MAX
    if r < 0.52:
        return 1 << rng.randrange(w)
    if r < 0.58:
        return top - 1
    return rng.getrandbits(w)


def rand_value(rng, w, four_state=0.3, signed=None):
    p = rand_payload(rng, w)
    m = 0
    if w > 0 and rng.random() < four_state:
        r = rng.random()
        top = (1 << w) - 1
        if r < 0.25:
            m = top
        elif r < 0.45:
            m = 1 << (w - 1)
        elif r < 0.6:
            m = 1
        else:
            m = rng.getrandbits(w)
    if w == 0:
        m = 1 if rng.random() < 0.3 else 0
    s = rng.random() < 0.5 if signed is None else signed
    if w == 0:
        s = False
    return val(p, m, w, s)


def rand_width(rng):
    r = rng.random()
    if r < 0.45:
        return rng.choice(BOUNDARY_W)
    if r < 0.8:
        return rng.randint(1, 70)
    return rng.randint(1, 256)


def rand_amount(rng, w):
    """shift amount / exponent value"""
    r = rng.random()
    cands = [0, 1, max(w - 1, 0), w, w + 1, 63, 64, 65, 2 ** 32, 2 ** 64 - 1, 2 ** 63, 2 ** 64, 2 ** 64 + 1]
    if r < 0.6:
        a = rng.choice(cands)
    else:
        a = rng.randint(0, 2 * w + 2)
    wy = max(a.bit_length(), 1)
    wy = rng.choice([wy, wy, wy + 1, 32, 64, 65, 128]) if rng.random() < 0.5 else wy
    wy = max(wy, a.bit_length(), 1)
    return a, wy


def sig_for(kind, x, y):
    if kind in ("ctx", "rel"):
        return 1 if (x[4] and y[4]) else 0
    return x[4]


def binary_case(op, x, y, W):
    if op in CTX2:
        s = sig_for("ctx", x, y)
    elif op in SH2:
        s = x[4]
    else:
        s = sig_for("rel", x, y)
    return ("B", op, W, s, x, y)


def case_wire(c):
    if c[0] == "U":
        return "U %s %d %d %s" % (c[1], c[2], c[3], wire(c[4]))
    return "B %s %d %d %s %s" % (c[1], c[2], c[3], wire(c[4]), wire(c[5]))


def case_coq(c):
    if c[0] == "U":
        return "(CU %s %s %d %s)" % (c[1], coq(c[4]), c[2], "true" if c[3] else "false")
    return "(CB %s %s %s %d %s)" % (c[1], coq(c[4]), coq(c[5]), c[2], "true" if c[3] else "false")


def all_values(w, four_state=True):
    top = 1 << w
    for s in (0, 1):
        for p in range(top):
            for m in (range(top) if four_state else [0]):
                yield val(p, m, w, s)


def exhaustive(maxw):
    """all ops x operand widths 1..maxw x all 4-state values x context widths {max, max+1}"""
    out = []
    for wx in range(1, maxw + 1):
        for x in all_values(wx):
            for op in UNARY:
                for W in ({wx, wx + 1} if op in ("Add", "Sub", "BitNot") else {1, 2}):
                    out.append(("U", op, W, x[4], x))
    for wx, wy in itertools.product(range(1, maxw + 1), repeat=2):
        for x in all_values(wx):
            for y in all_values(wy):
                for op in BINARY:
                    if op in CTX2:
                        Ws = {max(wx, wy), max(wx, wy) + 1}
                    elif op in SH2:
                        Ws = {wx, wx + 1}
                    else:
                        Ws = {1}
                    for W in Ws:
                        out.append(binary_case(op, x, y, W))
    return out


def random_cases(rng, n):
    out = []
    for _ in range(n):
        if rng.random() < 0.2:
            op = rng.choice(UNARY)
            wx = rand_width(rng)
            x = rand_value(rng, wx)
            if op in ("Add", "Sub", "BitNot"):
                W = rng.choice([wx, wx, wx + 1, max(wx, 64), max(wx, 65), wx + rng.randint(0, 70)])
            else:
                W = rng.choice([1, 1, 2, 8, 64, 65])
            out.append(("U", op, W, x[4], x))
            continue
        op = rng.choice(BINARY)
        wx = rand_width(rng)
        if op in SH2:
            x = rand_value(rng, wx)
            a, wy = rand_amount(rng, wx)
            if op == "Pow" and rng.random() < 0.5:
                a = rng.choice([0, 1, 2, 3, 5, 64, 65, (1 << wy) - 1, 1 << (wy - 1)])
                a &= (1 << wy) - 1
            y = val(a, rng.choice([0, 0, 0, 0, 1, (1 << wy) - 1]) if rng.random() < 0.15 else 0, wy,
                    rng.random() < (0.5 if op == "Pow" else 0.2))
            W = rng.choice([wx, wx, wx + 1, max(wx, 64), max(wx, 65), wx + rng.randint(0, 70)])
            out.append(binary_case(op, x, y, W))
            continue
        wy = wx if rng.random() < 0.4 else rand_width(rng)
        same_sign = rng.random() < 0.6
        x = rand_value(rng, wx)
        y = rand_value(rng, wy, signed=(bool(x[4]) if same_sign else None))
        if rng.random() < 0.02:
            y = rand_value(rng, 0)
        if op in CTX2:
            mw = max(wx, wy)
            W = rng.choice([mw, mw, mw + 1, max(mw, 64), max(mw, 65), mw + rng.randint(0, 70)])
            if op in ("Div", "Rem") and rng.random() < 0.3:
                y = val(rng.choice([0, 1, (1 << wy) - 1]), 0, wy, y[4])
            if op in ("Div", "Rem") and rng.random() < 0.15 and wx == wy:
                x = val(1 << (wx - 1), 0, wx, 1)
                y = val((1 << wy) - 1, 0, wy, 1)
        else:
            W = rng.choice([1, 1, 1, 2, 32, 64, 65])
        out.append(binary_case(op, x, y, W))
    return out


def parse_wire(line):
    """inverse of case_wire (decimal numbers)"""
    t = line.split()

    def v(i):
        return (t[i], int(t[i + 1]), int(t[i + 2]), int(t[i + 3]), int(t[i + 4]))
    if t[0] == "U":
        return ("U", t[1], int(t[2]), int(t[3]), v(4))
    return ("B", t[1], int(t[2]), int(t[3]), v(4), v(9))


def as_big(v):
    return ("B",) + tuple(v[1:])


def both_reps(rng, n):
    """pairs (case with U64 operands, the same case with the operands held as BigUint): operand
    width = context width <= 64 so that neither representation is converted on the way in.  The
    second case of a pair carries the marker "pairB" at index 6."""
    out = []
    for _ in range(n // 2):
        w = rng.choice([1, 2, 3, 7, 8, 31, 32, 33, 63, 64, rng.randint(1, 64)])
        if rng.random() < 0.25:
            op = rng.choice(UNARY)
            x = rand_value(rng, w)
            W = w if op in ("Add", "Sub", "BitNot") else rng.choice([1, 1, 8, 64])
            out.append(("U", op, W, x[4], x))
            out.append(("U", op, W, x[4], as_big(x), None, "pairB"))
            continue
        op = rng.choice(BINARY)
        x = rand_value(rng, w)
        if op in SH2:
            a, wy = rand_amount(rng, w)
            y = val(a, 0, wy, rng.random() < 0.3)
            c = binary_case(op, x, y, w)
            out.append(c)
            out.append(c[:4] + (as_big(x), y, "pairB"))
            continue
        y = rand_value(rng, w, signed=(bool(x[4]) if rng.random() < 0.6 else None))
        if op in ("Div", "Rem") and rng.random() < 0.3:
            y = val(rng.choice([0, 1, (1 << w) - 1]), 0, w, y[4])
        W = w if op in CTX2 else rng.choice([1, 1, 8, 64])
        c = binary_case(op, x, y, W)
        out.append(c)
        out.append(c[:4] + (as_big(x), as_big(y), "pairB"))
    return out


def ooc_cases(rng, n):
    """out-of-contract calls (context width 0 or narrower than an operand, unsized literals on both
    sides): only used to compare the implementation with the model, panics included (marker "ooc"
    at index 6); the IEEE oracle is not applied to them"""
    out = []
    for _ in range(n):
        if rng.random() < 0.25:
            op = rng.choice(UNARY)
            wx = rng.choice([0, 1, 2, 8, 64, 65])
            x = rand_value(rng, wx)
            out.append(("U", op, rng.choice([0, 0, 1, wx // 2, 64, 65]), rng.randint(0, 1), x, None, "ooc"))
            continue
        op = rng.choice(BINARY)
        wx = rng.choice([0, 1, 2, 8, 64, 65])
        wy = rng.choice([0, 1, 2, 8, 64, 65])
        x = rand_value(rng, wx)
        y = rand_value(rng, wy)
        W = rng.choice([0, 0, 1, max(wx, wy) // 2, 64, 65])
        out.append(("B", op, W, rng.randint(0, 1), x, y, "ooc"))
    return out
