"""G-designs: small Veryl designs for the analyzer checks.

Part 1 (shared): running designs through the vh-analysis harness and parsing its diagnostics.
Part 2 (C16):    multi-clock-domain designs.  One python AST is printed twice: as Veryl source
                 text (concrete forms: operators, calls, selects, instances, ...) and as the
                 abstract design term of coq/Analysis/CdcDesign.v (what takes part in which data
                 movement).  Every item occupies its own source lines so that diagnostics can be
                 attributed to items.
(The C15 generators live in vp/gen/assigns.py and reuse part 1.)
"""
from .. import common as C

# ------------------------------------------------------------------------------------------
# part 1: harness access


class Diag:
    """one analyzer diagnostic: code, [(line, col)...], fields {name: text}"""

    def __init__(self, code, locs, fields):
        self.code = code
        self.locs = locs
        self.fields = fields

    def __repr__(self):
        return "%s@%s%s" % (self.code, ",".join("%d:%d" % l for l in self.locs),
                            "".join(" %s=%s" % kv for kv in sorted(self.fields.items())))


def parse_result(line):
    """harness output line -> ('OK', [Diag]) | ('PARSE-ERROR', []) | ('PANIC', text)"""
    t = line.split()
    if not t:
        return ("PANIC", "empty output")
    if t[0] == "PARSE-ERROR":
        return ("PARSE-ERROR", [])
    if t[0] != "OK":
        return ("PANIC", line)
    out = []
    for it in t[2:]:
        parts = it.split("~")
        head = parts[0].split("@")
        locs = []
        for l in head[1:]:
            a, b = l.split(":")
            locs.append((int(a), int(b)))
        fields = {}
        for p in parts[1:]:
            k, v = p.split("=", 1)
            fields[k] = bytes.fromhex(v).decode("utf8", "replace")
        out.append(Diag(head[0], locs, fields))
    return ("OK", out)


def analyze(binary, sources, timeout=900):
    """run the real analyzer (parse, pass1, post_pass1, pass2, post_pass2) on each source text"""
    lines = ["A " + s.encode("utf8").hex() for s in sources]
    return [parse_result(o) for o in C.run_lines(binary, lines, timeout=timeout)]


# ------------------------------------------------------------------------------------------
# part 2: clock-domain designs (C16)
#
# signals: dict(name, dom, kind) with dom in {"a","b","c"} (explicit), None (unannotated),
#          kind in in/out/var/win (2-bit input used as select base)/ifm (interface member)/
#          arr (array output)/st (struct output)/clk/rst
# expressions (every expression is 1 bit wide):
#   ("sig", i) ("const", text) ("un", op, e) ("bin", op, x, y) ("tern", c, x, y)
#   ("cat", [e...])  -> (|{...})      ("call", [e...]) -> Fn(...)    ("idx", w, e) -> w[e]
#   ("tbl", e) -> TBL[e]              ("sys", fn, e) -> $signed(e)    ("cat2", [e, e]) -> {e, e} (2 bit)
# statements: ("assign", [(dst, idx_expr|None)...], rhs, form) form in scalar/concat/arr/struct
#   ("if", c, then, [(c, blk)...], else|None) ("case", tgt, [blk...]) ("switch", [(c, blk)...], dflt)
#   ("call", [e...], [dst...])
# items: ("comb", guard, [stmt], style) style in assign/let/always
#        ("ff", guard, clk, rst|None, [stmt]) ("inst", guard, child, [(port, key, dir, expr)])
#        ("sv", guard, [sig])

DOMS = ["a", "b", "c"]


def dom_coq(d, ids):
    if d is None:
        return "Implicit"
    if d == "-":
        return "DNone"
    return "(Explicit %d)" % ids[d]


class CdcDesign:
    def __init__(self):
        self.sigs = []          # list of dict
        self.items = []
        self.children = []      # child module texts
        self.tags = set()
        self.nfun = 0           # largest function arity needed
        self.need_tbl = False
        self.need_outfn = False
        self.need_ifc = False
        self.need_struct = False
        self.item_lines = []    # filled by veryl(): [(first, last)] per item
        self.item_spans = []    # filled by veryl(): [((line, col), (line, col))] per item
        self.layout_seed = 0    # 0 = one item per line; else seed of the layout variation
        self.join_prob = 0.5    # probability that a chunk continues the previous line (layout variation)
        self.decl_line = {}     # filled by veryl(): source line -> signal declared there
        self.text = None

    # --- construction helpers
    def add(self, name, dom, kind):
        self.sigs.append({"name": name, "dom": dom, "kind": kind})
        return len(self.sigs) - 1

    def by_kind(self, *kinds):
        return [i for i, s in enumerate(self.sigs) if s["kind"] in kinds]

    # --- Coq term
    def expr_coq(self, e):
        k = e[0]
        if k == "sig":
            return "(SSig %d)" % e[1]
        if k == "const":
            return "SConst"
        if k in ("un", "sys"):
            return "(SUn %s)" % self.expr_coq(e[2])
        if k == "bin":
            return "(SBin %s %s)" % (self.expr_coq(e[2]), self.expr_coq(e[3]))
        if k == "tern":
            return "(STern %s %s %s)" % tuple(self.expr_coq(x) for x in e[1:4])
        if k == "cat":
            return "(SUn (SFold [%s]))" % "; ".join(self.expr_coq(x) for x in e[1])
        if k == "cat2":     # unreduced concatenation (2-bit right-hand side of a concatenation LHS)
            return "(SFold [%s])" % "; ".join(self.expr_coq(x) for x in e[1])
        if k == "call":
            return "(SFold [%s])" % "; ".join(self.expr_coq(x) for x in e[1])
        if k == "idx":
            return "(SFold [SSig %d; %s])" % (e[1], self.expr_coq(e[2]))
        if k == "tbl":
            return "(SFold [SConst; %s])" % self.expr_coq(e[1])
        raise ValueError(k)

    def stmt_coq(self, s):
        k = s[0]
        if k == "assign":
            ds = "; ".join("(%d, [%s])" % (d, self.expr_coq(ix) if ix is not None else "") for d, ix in s[1])
            rhs = s[2]
            if s[3] in ("arr", "struct"):
                r = "(SFold [%s])" % "; ".join(self.expr_coq(x) for x in rhs)
            else:
                r = self.expr_coq(rhs)
            return "(SAssign [%s] %s)" % (ds, r)
        if k == "if":
            return "(SIf %s %s [%s] %s)" % (
                self.expr_coq(s[1]), self.block_coq(s[2]),
                "; ".join("(%s, %s)" % (self.expr_coq(c), self.block_coq(b)) for c, b in s[3]),
                self.block_coq(s[4] or []))
        if k == "case":
            return "(SCase %s [%s])" % (self.expr_coq(s[1]), "; ".join(self.block_coq(b) for b in s[2]))
        if k == "switch":
            return "(SSwitch [%s] %s)" % (
                "; ".join("(%s, %s)" % (self.expr_coq(c), self.block_coq(b)) for c, b in s[1]),
                self.block_coq(s[2] or []))
        if k == "call":
            return "(SCall [%s] [%s])" % ("; ".join(self.expr_coq(x) for x in s[1]),
                                          "; ".join(str(d) for d in s[2]))
        raise ValueError(k)

    def block_coq(self, b):
        return "[%s]" % "; ".join(self.stmt_coq(s) for s in b)

    def item_coq(self, it):
        g = "true" if it[1] else "false"
        if it[0] == "comb":
            return "(IComb %s %s)" % (g, self.block_coq(it[2]))
        if it[0] == "ff":
            return "(IFf %s %d %s %s)" % (g, it[2], "(Some %d)" % it[3] if it[3] is not None else "None",
                                          self.block_coq(it[4]))
        if it[0] == "inst":
            return "(IInst %s [%s])" % (g, "; ".join("(%d, %s)" % (key, self.expr_coq(e))
                                                     for (_, key, _, e) in it[3]))
        if it[0] == "sv":
            return "(ISv %s [%s])" % (g, "; ".join(str(s) for s in it[2]))
        raise ValueError(it[0])

    def coq(self):
        ids = {"a": 1, "b": 2, "c": 3}
        env = "[%s]" % "; ".join(dom_coq(s["dom"], ids) for s in self.sigs)
        return "(%s, [%s])" % (env, ";\n   ".join(self.item_coq(it) for it in self.items))

    # --- Veryl text
    def expr_v(self, e):
        k = e[0]
        if k == "sig":
            return self.sigs[e[1]]["name"]
        if k == "const":
            return e[1]
        if k == "un":
            return "(%s%s)" % (e[1], self.expr_v(e[2]))
        if k == "sys":
            return "%s(%s)" % (e[1], self.expr_v(e[2]))
        if k == "bin":
            return "(%s %s %s)" % (self.expr_v(e[2]), e[1], self.expr_v(e[3]))
        if k == "tern":
            return "(if %s ? %s : %s)" % tuple(self.expr_v(x) for x in e[1:4])
        if k == "cat":
            return "(|{%s})" % ", ".join(self.expr_v(x) for x in e[1])
        if k == "cat2":
            return "{%s}" % ", ".join(self.expr_v(x) for x in e[1])
        if k == "call":
            return "Fn%d(%s)" % (len(e[1]), ", ".join(self.expr_v(x) for x in e[1]))
        if k == "idx":
            return "%s[%s]" % (self.sigs[e[1]]["name"], self.expr_v(e[2]))
        if k == "tbl":
            return "TBL[%s]" % self.expr_v(e[1])
        raise ValueError(k)

    def dst_v(self, d, ix):
        n = self.sigs[d]["name"]
        return n if ix is None else "%s[%s]" % (n, self.expr_v(ix))

    def stmt_v(self, s, ind, out):
        k = s[0]
        p = "    " * ind
        if k == "assign":
            form = s[3]
            if form == "arr":
                rhs = "'{%s}" % ", ".join(self.expr_v(x) for x in s[2])
            elif form == "struct":
                rhs = "PkgS::S'{%s}" % ", ".join("f%d: %s" % (i, self.expr_v(x)) for i, x in enumerate(s[2]))
            else:
                rhs = self.expr_v(s[2])
            if form == "concat":
                lhs = "{%s}" % ", ".join(self.dst_v(d, ix) for d, ix in s[1])
            else:
                lhs = self.dst_v(*s[1][0])
            out.append("%s%s = %s;" % (p, lhs, rhs))
        elif k == "if":
            out.append("%sif %s {" % (p, self.expr_v(s[1])))
            for x in s[2]:
                self.stmt_v(x, ind + 1, out)
            for c, b in s[3]:
                out.append("%s} else if %s {" % (p, self.expr_v(c)))
                for x in b:
                    self.stmt_v(x, ind + 1, out)
            if s[4] is not None:
                out.append("%s} else {" % p)
                for x in s[4]:
                    self.stmt_v(x, ind + 1, out)
            out.append("%s}" % p)
        elif k == "case":
            out.append("%scase %s {" % (p, self.expr_v(s[1])))
            n = len(s[2])
            for i, b in enumerate(s[2]):
                lab = "default" if i == n - 1 else "1'b%d" % i
                out.append("%s    %s: {" % (p, lab))
                for x in b:
                    self.stmt_v(x, ind + 2, out)
                out.append("%s    }" % p)
            out.append("%s}" % p)
        elif k == "switch":
            out.append("%sswitch {" % p)
            for c, b in s[1]:
                out.append("%s    %s: {" % (p, self.expr_v(c)))
                for x in b:
                    self.stmt_v(x, ind + 2, out)
                out.append("%s    }" % p)
            out.append("%s    default: {" % p)
            for x in (s[2] or []):
                self.stmt_v(x, ind + 2, out)
            out.append("%s    }" % p)
            out.append("%s}" % p)
        elif k == "call":
            out.append("%sGn%d(%s);" % (p, len(s[1]), ", ".join([self.expr_v(x) for x in s[1]] +
                                                              [self.sigs[d]["name"] for d in s[2]])))
        else:
            raise ValueError(k)

    def item_text(self, it, idx):
        """lines of one item, first line unindented, following lines indented relative to it"""
        out = []
        if it[0] == "comb":
            style = it[3]
            if style == "assign":
                tmp = []
                self.stmt_v(it[2][0], 0, tmp)
                out.append("assign %s" % tmp[0])
            elif style == "let":
                s = it[2][0]
                d = self.sigs[s[1][0][0]]
                ann = "'%s " % d["dom"] if d["dom"] else ""
                out.append("let %s: %slogic = %s;" % (d["name"], ann, self.expr_v(s[2])))
            else:
                out.append("always_comb {")
                for s in it[2]:
                    self.stmt_v(s, 1, out)
                out.append("}")
        elif it[0] == "ff":
            clk = self.sigs[it[2]]["name"]
            if it[3] is not None:
                out.append("always_ff (%s, %s) {" % (clk, self.sigs[it[3]]["name"]))
                out.append("    if_reset {")
                for d in sorted(set(self.assigned(it[4]))):
                    out.append("        %s = 1'b0;" % self.sigs[d]["name"])
                out.append("    } else {")
                for s in it[4]:
                    self.stmt_v(s, 2, out)
                out.append("    }")
            else:
                out.append("always_ff (%s) {" % clk)
                for s in it[4]:
                    self.stmt_v(s, 1, out)
            out.append("}")
        elif it[0] == "inst":
            out.append("inst ui%d: %s (" % (idx, it[2]))
            for (port, _, _, e) in it[3]:
                out.append("    %s: %s," % (port, self.expr_v(e)))
            out.append(");")
        elif it[0] == "sv":
            out.append("inst ui%d: $sv::Blk%d (" % (idx, len(it[2])))
            for i, s in enumerate(it[2]):
                out.append("    p%d: %s," % (i, self.sigs[s]["name"]))
            out.append(");")
        else:
            raise ValueError(it[0])
        return out

    def decl_v(self, s):
        ann = "'%s " % s["dom"] if s["dom"] else ""
        k = s["kind"]
        n = s["name"]
        if k == "in":
            return ("port", "%s: input %slogic" % (n, ann))
        if k == "win":
            return ("port", "%s: input %slogic<2>" % (n, ann))
        if k == "out":
            return ("port", "%s: output %slogic" % (n, ann))
        if k == "wout":
            return ("port", "%s: output %slogic<2>" % (n, ann))
        if k == "arr":
            return ("port", "%s: output %slogic [2]" % (n, ann))
        if k == "st":
            return ("port", "%s: output %sPkgS::S" % (n, ann))
        if k == "clk":
            return ("port", "%s: input %sclock" % (n, ann))
        if k == "rst":
            return ("port", "%s: input %sreset" % (n, ann))
        if k == "var":
            return ("var", "var %s: %slogic;" % (n, ann))
        if k == "ifm":
            return ("var", "inst %s: %sIfcD;" % (n.split(".")[0], ann))
        if k == "mpo":
            return ("port", "%s: modport %sIfcD::mo" % (n.split(".")[0], ann))
        if k == "mpi":
            return ("port", "%s: modport %sIfcD::mi" % (n.split(".")[0], ann))
        if k == "let":
            return ("none", "")
        raise ValueError(k)

    def veryl(self):
        out = []
        if self.need_struct:
            out += ["package PkgS {", "    struct S {", "        f0: logic,", "        f1: logic,", "    }", "}"]
        if self.need_ifc:
            out += ["interface IfcD {", "    var d: logic;", "    modport mo {", "        d: output,", "    }",
                    "    modport mi {", "        d: input,", "    }", "}"]
        for ch in self.children:
            out += ch
        out.append("module Top (")
        decls = [self.decl_v(s) for s in self.sigs]
        self.decl_line = {}
        for i, (kind, txt) in enumerate(decls):
            if kind == "port":
                out.append("    %s," % txt)
                self.decl_line[len(out)] = i
        out.append(") {")
        for i, (kind, txt) in enumerate(decls):
            if kind == "var":
                out.append("    " + txt)
                self.decl_line[len(out)] = i
        if self.need_tbl:
            out.append("    const TBL: logic [2] = '{1'b0, 1'b1};")
        for n in range(1, self.nfun + 1):
            args = ", ".join("x%d: input logic" % i for i in range(n))
            body = " & ".join("x%d" % i for i in range(n))
            out.append("    function Fn%d (%s) -> logic { return %s; }" % (n, args, body))
        if self.need_outfn:
            for n in (1, 2):
                args = ", ".join("x%d: input logic" % i for i in range(n))
                body = " ^ ".join("x%d" % i for i in range(n))
                out.append("    function Gn%d (%s, y: output logic) { y = %s; }" % (n, args, body))
        # ---- items: rendered one by one, then laid out.  layout_seed = 0: every item (and every
        # unsafe brace) on lines of its own; otherwise chunks are randomly joined onto one line
        # (item right after the `}` of an unsafe (cdc) block, right before `unsafe (cdc) {`,
        # several items per line) and runs of guarded items share / nest / repeat blocks.
        import random as _random
        lrng = _random.Random(self.layout_seed) if self.layout_seed else None
        chunks = []     # (kind, lines, item index)  kind: open / close / item
        i = 0
        n = len(self.items)
        while i < n:
            it = self.items[i]
            if not it[1]:
                chunks.append(("item", self.item_text(it, i), i))
                i += 1
                continue
            j = i
            while j < n and self.items[j][1]:
                j += 1
            run = list(range(i, j))
            mode = lrng.choice(["each", "shared", "nested"]) if (lrng and len(run) >= 2) else "each"
            if mode == "each":
                for k in run:
                    chunks += [("open", ["unsafe (cdc) {"], None), ("item", self.item_text(self.items[k], k), k),
                               ("close", ["}"], None)]
            elif mode == "shared":
                chunks.append(("open", ["unsafe (cdc) {"], None))
                for k in run:
                    chunks.append(("item", self.item_text(self.items[k], k), k))
                chunks.append(("close", ["}"], None))
            else:
                chunks += [("open", ["unsafe (cdc) {"], None), ("open", ["unsafe (cdc) {"], None),
                           ("item", self.item_text(self.items[run[0]], run[0]), run[0]), ("close", ["}"], None)]
                for k in run[1:]:
                    chunks.append(("item", self.item_text(self.items[k], k), k))
                chunks.append(("close", ["}"], None))
            i = j
        spans = {}
        self.unsafe_close = []      # (line, col) of every `}` closing an unsafe (cdc) block
        depth = 1
        first_chunk = True
        for kind, lines, idx in chunks:
            if kind == "close":
                depth -= 1
            join = bool(lrng) and not first_chunk and lrng.random() < self.join_prob
            first_chunk = False
            pad = "    " * depth
            if join:
                col0 = len(out[-1]) + 2
                out[-1] = out[-1] + " " + lines[0]
            else:
                col0 = len(pad) + 1
                out.append(pad + lines[0])
            start = (len(out), col0)
            for ln in lines[1:]:
                out.append(pad + ln)
            end = (len(out), len(out[-1]))
            if kind == "item":
                spans[idx] = (start, end)
            if kind == "open":
                depth += 1
            if kind == "close":
                self.unsafe_close.append(start)
        self.item_spans = [spans[k] for k in range(n)]
        self.item_lines = [(sp[0][0], sp[1][0]) for sp in self.item_spans]
        out.append("}")
        self.text = "\n".join(out) + "\n"
        return self.text

    def assigned(self, block):
        r = []
        for s in block:
            if s[0] == "assign":
                r += [d for d, _ in s[1]]
            elif s[0] == "if":
                r += self.assigned(s[2])
                for _, b in s[3]:
                    r += self.assigned(b)
                r += self.assigned(s[4] or [])
            elif s[0] == "case":
                for b in s[2]:
                    r += self.assigned(b)
            elif s[0] == "switch":
                for _, b in s[1]:
                    r += self.assigned(b)
                r += self.assigned(s[2] or [])
            elif s[0] == "call":
                r += list(s[2])
        return r

    # attribution of diagnostics to items
    def flagged_items(self, diags):
        """set of item indices that own a label of a mismatch_clock_domain diagnostic; second
        result: diagnostics that touch no item"""
        hit = set()
        stray = []
        for d in diags:
            if d.code != "mismatch_clock_domain":
                continue
            owners = set()
            for (ln, col) in d.locs:
                for i, (a, b) in enumerate(self.item_spans):
                    if (ln, col) >= a and (ln, col) <= b:
                        owners.add(i)
            if not owners:
                # $sv instance connections are reported at the declarations of the two variables
                sigs = [self.decl_line.get(ln) for (ln, _) in d.locs]
                if sigs and all(x is not None for x in sigs):
                    for i, it in enumerate(self.items):
                        if it[0] == "sv" and all(x in it[2] for x in sigs):
                            owners.add(i)
                        # clock vs reset of an always_ff is reported at the two port declarations
                        if it[0] == "ff" and it[3] is not None and set(sigs) == {it[2], it[3]}:
                            owners.add(i)
            if owners:
                hit |= owners
            else:
                stray.append(d)
        return hit, stray


class CdcGen:
    """random multi-domain designs.

    style 'inorder': every unannotated signal is driven before it is read;
    style 'reversed': one unannotated signal is read by an earlier item than its driver.
    Every item is generated in one of three modes:
      clean   all signals of the item are in one domain (or constants)
      single  clean, then exactly ONE read position is replaced by a signal of another domain, so
              that each place where the analyzer must check is exercised by an isolated crossing
      wild    domains drawn at random (several crossings per item possible)"""

    def __init__(self, rng):
        self.rng = rng

    def design(self, style="inorder"):
        rng = self.rng
        d = CdcDesign()
        self.d = d
        ndom = rng.choice([1, 2, 2, 2, 3, 3])
        doms = DOMS[:ndom]
        self.doms = doms
        self.clk = {}
        self.rst = {}
        for x in doms:
            self.clk[x] = d.add("clk_%s" % x, x, "clk")
        for x in doms:
            if rng.random() < 0.5 or len(doms) == 1:
                self.rst[x] = d.add("rst_%s" % x, x, "rst")
        for x in doms:
            for k in range(rng.choice([2, 2, 3])):
                d.add("i_%s%d" % (x, k), x, "in")
            if rng.random() < 0.6:
                d.add("w_%s" % x, x, "win")
            if rng.random() < 0.2:
                d.add("mi_%s.d" % x, x, "mpi")
                d.need_ifc = True
                d.tags.add("modport-input")
        if rng.random() < 0.15:
            d.add("i_u0", None, "in")
            d.tags.add("unannotated-input")
        self.eff = {i: s["dom"] for i, s in enumerate(d.sigs)}   # effective (possibly inferred) domain
        self.readable = d.by_kind("in", "mpi")
        self.wide = d.by_kind("win")
        nit = rng.choice([1, 2, 3, 3, 4, 5, 6])
        items = []
        for _ in range(nit):
            it = self.item()
            if it is not None:
                items.append(it)
        if style == "reversed":
            items = self.reverse_one(items)
        if style == "layout":
            items = self.layout_probe(items)
            d.layout_seed = rng.randint(1, 10 ** 9)
            d.join_prob = 0.85
            d.tags.add("layout-probe")
        elif rng.random() < 0.35:
            d.layout_seed = rng.randint(1, 10 ** 9)
            d.tags.add("layout-compact")
        d.items = items
        return d

    # --- pools
    def pool(self, dom):
        return [i for i in self.readable if self.eff.get(i) == dom and dom is not None]

    def wpool(self, dom):
        return [i for i in self.wide if self.d.sigs[i]["dom"] == dom]

    # --- destinations
    def new_dst(self, dom="item", kind=None, allow_unann=True):
        """dom: 'item' = the item's domain (in wild mode sometimes another one)"""
        d, rng = self.d, self.rng
        if dom == "item":
            dom = self.idom
            if self.mode == "wild" and rng.random() < 0.3:
                dom = rng.choice(self.doms)
            if allow_unann and rng.random() < 0.2:
                dom = None
        kind = kind or rng.choice(["out", "var", "ifm", "mpo"] if rng.random() < 0.3 else ["out", "var"])
        n = len(d.sigs)
        if kind == "ifm":
            d.need_ifc = True
            i = d.add("bus%d.d" % n, dom, "ifm")
            d.tags.add("interface-member")
        elif kind == "mpo":
            d.need_ifc = True
            i = d.add("mo%d.d" % n, dom, "mpo")
            d.tags.add("modport-output")
        else:
            pre = {"out": "o", "var": "v", "arr": "oa", "st": "os", "wout": "ow", "let": "l"}[kind]
            i = d.add("%s_%s%d" % (pre, dom or "u", n), dom, kind)
        if dom is None:
            d.tags.add("unannotated-dst-" + kind)
        self.eff[i] = dom
        return i

    def ddom(self, dst):
        """domain expressions for this destination are drawn from"""
        x = self.d.sigs[dst]["dom"]
        return x if x is not None else self.idom

    # --- expressions
    def leaf(self, dom):
        rng = self.rng
        if rng.random() < 0.12:
            return ("const", rng.choice(["1'b0", "1'b1"]))
        if self.mode == "wild" and rng.random() < 0.3:
            return ("sig", rng.choice(self.readable))
        p = self.pool(dom)
        if p:
            return ("sig", rng.choice(p))
        return ("const", "1'b0")

    def expr(self, depth, dom):
        rng, d = self.rng, self.d
        if depth <= 0 or rng.random() < 0.3:
            return self.leaf(dom)
        r = rng.random()
        if r < 0.12:
            d.tags.add("unary")
            return ("un", rng.choice(["~", "!", "-"]), self.expr(depth - 1, dom))
        if r < 0.20:
            d.tags.add("sysfn")
            return ("sys", rng.choice(["$signed", "$unsigned"]), self.expr(depth - 1, dom))
        if r < 0.42:
            d.tags.add("binary")
            return ("bin", rng.choice(["&", "|", "^", "==", "&&", "+"]), self.expr(depth - 1, dom), self.expr(depth - 1, dom))
        if r < 0.54:
            d.tags.add("ternary")
            c = self.expr(depth - 1, dom)
            if rng.random() < 0.3:
                c = ("const", "1'b1")
                d.tags.add("ternary-const-cond")
            return ("tern", c, self.expr(depth - 1, dom), self.expr(depth - 1, dom))
        if r < 0.66:
            d.tags.add("concat")
            n = rng.choice([2, 2, 3])
            es = [self.expr(depth - 1, dom) for _ in range(n)]
            if rng.random() < 0.4:
                es[rng.randrange(n)] = ("const", "1'b0")
                d.tags.add("concat-const")
            return ("cat", es)
        if r < 0.78:
            d.tags.add("call")
            n = rng.choice([1, 2, 2, 3])
            d.nfun = max(d.nfun, n)
            return ("call", [self.expr(depth - 1, dom) for _ in range(n)])
        if r < 0.90:
            ws = self.wpool(dom)
            if self.mode == "wild" and rng.random() < 0.3:
                ws = self.wide
            if ws:
                d.tags.add("index")
                return ("idx", rng.choice(ws), self.expr(depth - 1, dom))
        if r < 0.96:
            d.tags.add("const-table-index")
            d.need_tbl = True
            return ("tbl", self.expr(depth - 1, dom))
        return self.leaf(dom)

    def rhs_for(self, dst):
        return self.expr(self.rng.choice([0, 1, 1, 2, 2, 3]), self.ddom(dst))

    def cond_for(self, dom):
        """statement condition; contains no literal, so that it cannot fold to a compile-time
        constant (the converter drops statically dead branches without analysing them)"""
        rng = self.rng

        def has_const(e):
            if isinstance(e, tuple) and e and e[0] == "const":
                return True
            return isinstance(e, (tuple, list)) and any(has_const(x) for x in e)

        for _ in range(30):
            e = self.expr(rng.choice([0, 0, 1]), dom)
            if not has_const(e) and "SSig" in self.d.expr_coq(e):
                return e
        p = self.pool(dom) or self.readable
        return ("sig", rng.choice(p))

    # --- statements
    def assign_stmt(self, dsts_out, in_ff):
        rng, d = self.rng, self.d
        r = rng.random()
        if r < 0.08 and not in_ff:
            dst = self.new_dst(kind="arr", allow_unann=False)
            dsts_out.append(dst)
            d.tags.add("array-literal")
            return ("assign", [(dst, None)], [self.rhs_for(dst), self.rhs_for(dst) if rng.random() < 0.6 else ("const", "1'b0")], "arr")
        if r < 0.16 and not in_ff:
            dst = self.new_dst(kind="st", allow_unann=False)
            dsts_out.append(dst)
            d.tags.add("struct-constructor")
            d.need_struct = True
            return ("assign", [(dst, None)], [self.rhs_for(dst), self.rhs_for(dst) if rng.random() < 0.6 else ("const", "1'b1")], "struct")
        if r < 0.26:
            a = self.new_dst(kind=rng.choice(["out", "var"]), allow_unann=False)
            b = self.new_dst(kind=rng.choice(["out", "var"]), allow_unann=False)
            dsts_out += [a, b]
            d.tags.add("concat-lhs")
            return ("assign", [(a, None), (b, None)], ("cat2", [self.rhs_for(a), self.rhs_for(b)]), "concat")
        if r < 0.36:
            dst = self.new_dst(kind="wout", allow_unann=False)
            dsts_out.append(dst)
            d.tags.add("lhs-select")
            ix = self.expr(rng.choice([0, 1]), self.ddom(dst))
            return ("assign", [(dst, ix)], self.rhs_for(dst), "scalar")
        dst = self.new_dst()
        dsts_out.append(dst)
        return ("assign", [(dst, None)], self.rhs_for(dst), "scalar")

    def reassign(self, dst):
        return ("assign", [(dst, None)], self.rhs_for(dst), "scalar")

    def block(self, depth, in_ff, dsts, may_be_empty=False):
        """statements over the scalar destinations `dsts`"""
        rng, d = self.rng, self.d
        out = []
        if may_be_empty and rng.random() < 0.2:
            d.tags.add("empty-branch")
            return out
        for dst in dsts:
            dom = self.ddom(dst)
            r = rng.random()
            if depth <= 0 or r < 0.35:
                out.append(self.reassign(dst))
            elif r < 0.60:
                d.tags.add("if")
                nel = rng.choice([0, 0, 1, 2])
                if nel:
                    d.tags.add("else-if")
                els = self.block(depth - 1, in_ff, [dst]) if (rng.random() < 0.7 or not in_ff) else None
                out.append(("if", self.cond_for(dom), self.block(depth - 1, in_ff, [dst], True),
                            [(self.cond_for(dom), self.block(depth - 1, in_ff, [dst], True)) for _ in range(nel)], els))
            elif r < 0.80:
                d.tags.add("case")
                out.append(("case", self.cond_for(dom), [self.block(depth - 1, in_ff, [dst]) for _ in range(2)]))
            else:
                d.tags.add("switch")
                n = rng.choice([1, 2, 2])
                out.append(("switch", [(self.cond_for(dom), self.block(depth - 1, in_ff, [dst], True)) for _ in range(n)],
                            self.block(depth - 1, in_ff, [dst])))
        return out

    # --- items
    def item(self):
        rng, d = self.rng, self.d
        guard = rng.random() < 0.2
        if guard:
            d.tags.add("unsafe-cdc")
        self.idom = rng.choice(self.doms)
        self.mode = rng.choice(["clean"] * 9 + ["single"] * 8 + ["wild"] * 3)
        if len(self.doms) == 1 and self.mode == "single" and not any(self.eff.get(i) is None for i in self.readable):
            self.mode = "clean"
        r = rng.random()
        made = []
        infer = False       # does this item give its unannotated destinations the item's domain?
        if r < 0.30:
            s = self.assign_stmt(made, False)
            d.tags.add("assign-decl")
            it = ("comb", guard, [s], "assign")
        elif r < 0.38:
            dst = self.new_dst(kind="let")
            made.append(dst)
            d.tags.add("let-decl")
            it = ("comb", guard, [("assign", [(dst, None)], self.rhs_for(dst), "scalar")], "let")
        elif r < 0.58:
            d.tags.add("always_comb")
            n = rng.choice([1, 1, 2])
            dsts = [self.new_dst(kind=rng.choice(["out", "var"])) for _ in range(n)]
            made += dsts
            body = []
            if rng.random() < 0.25:
                # function call statement with an output argument (annotated destination)
                o = self.new_dst(kind="var", allow_unann=False)
                made.append(o)
                d.need_outfn = True
                d.tags.add("call-output-arg")
                k = rng.choice([1, 2])
                body.append(("call", [self.rhs_for(o) for _ in range(k)], [o]))
            # defaults first so that no branch leaves a destination unassigned
            for x in dsts:
                body.append(("assign", [(x, None)], ("const", "1'b0"), "scalar"))
            body += self.block(rng.choice([0, 1, 2]), False, dsts)
            it = ("comb", guard, body, "always")
        elif r < 0.78:
            d.tags.add("always_ff")
            clk = self.clk[self.idom]
            rst = None
            if self.rst and rng.random() < 0.5:
                rd = self.idom
                if self.mode == "wild" and rng.random() < 0.3:
                    rd = rng.choice(list(self.rst))
                if rd in self.rst:
                    rst = self.rst[rd]
                    d.tags.add("ff-reset")
            n = rng.choice([1, 1, 2])
            dsts = [self.new_dst(kind=rng.choice(["out", "var"])) for _ in range(n)]
            made += dsts
            body = self.block(rng.choice([0, 1, 2]), True, dsts)
            it = ("ff", guard, clk, rst, body)
            infer = True
        elif r < 0.93:
            it = self.inst_item(guard, made)
        else:
            d.tags.add("sv-instance")
            n = rng.choice([2, 3])
            sigs = []
            for _ in range(n):
                p = [i for i in self.pool(self.idom) if d.sigs[i]["kind"] == "in"]
                if rng.random() < 0.6 or not p:
                    o = self.new_dst(kind="var", allow_unann=False)
                    made.append(o)
                    sigs.append(o)
                else:
                    sigs.append(rng.choice(p))
            it = ("sv", guard, sigs)
        if self.mode == "single":
            it2 = self.inject(it)
            if it2 is not None:
                it = it2
                d.tags.add("single-foreign-read")
        # a driven 1-bit destination becomes readable by later items; an unannotated one counts as
        # the item's domain only when that is certain (clean always_ff: inferred from the clock)
        for m in made:
            if d.sigs[m]["kind"] in ("out", "var", "ifm", "let", "mpo"):
                if d.sigs[m]["dom"] is None:
                    self.eff[m] = self.idom if (infer and self.mode == "clean") else "?"
                self.readable.append(m)
        return it

    # --- exactly one foreign read
    def read_paths(self, node, path, out, it_kind):
        if isinstance(node, tuple) and len(node) == 2 and node[0] == "sig" and isinstance(node[1], int):
            out.append(path)
            return
        if isinstance(node, (tuple, list)):
            if isinstance(node, tuple) and len(node) == 4 and node[2] == "out" and isinstance(node[0], str):
                return      # instance output connection: a destination, not a read
            for k, x in enumerate(node):
                self.read_paths(x, path + [k], out, it_kind)

    def replace_at(self, node, path, new):
        if not path:
            return new
        k = path[0]
        lst = list(node)
        lst[k] = self.replace_at(node[k], path[1:], new)
        return tuple(lst) if isinstance(node, tuple) else lst

    def inject(self, it):
        rng = self.rng
        foreign = [i for i in self.readable if self.eff.get(i) not in (self.idom, "?")]
        if not foreign:
            return None
        paths = []
        self.read_paths(it, [], paths, it[0])
        if not paths:
            return None
        return self.replace_at(it, rng.choice(paths), ("sig", rng.choice(foreign)))

    def inst_item(self, guard, made):
        rng, d = self.rng, self.d
        d.tags.add("module-instance")
        annotated_child = rng.random() < 0.4
        ngroups = rng.choice([1, 2]) if annotated_child else 1
        if annotated_child:
            d.tags.add("child-annotated-ports")
        cname = "Child%d" % len(d.children)
        ports = []      # (port name, group, dir)
        conns = []
        gdom = [self.idom] + [rng.choice(self.doms) for _ in range(ngroups - 1)]
        for g in range(ngroups):
            nin = rng.choice([1, 2, 2, 3])
            for k in range(nin):
                ports.append(("p%d_%d" % (g, k), g, "in"))
            for k in range(rng.choice([1, 1, 2])):
                ports.append(("q%d_%d" % (g, k), g, "out"))
        save = self.idom
        for (pn, g, di) in ports:
            self.idom = gdom[g]
            if di == "in":
                if rng.random() < 0.2:
                    e = ("const", "1'b0")
                    d.tags.add("inst-const-connection")
                else:
                    e = self.expr(rng.choice([0, 0, 1, 2]), gdom[g])
            else:
                o = self.new_dst(kind=rng.choice(["out", "var"]), allow_unann=False)
                made.append(o)
                e = ("sig", o)
            conns.append((pn, g, di, e))
        self.idom = save
        if rng.random() < 0.5:
            rng.shuffle(conns)
            d.tags.add("inst-shuffled")
        # child module text: outputs of a group are driven from the inputs of that group
        txt = ["module %s (" % cname]
        gl = ["p", "q", "r"]
        for (pn, g, di) in ports:
            ann = "'%s " % gl[g] if annotated_child else ""
            txt.append("    %s: %s %slogic," % (pn, "input " if di == "in" else "output", ann))
        txt.append(") {")
        for (pn, g, di) in ports:
            if di == "out":
                ins = [p for (p, gg, dd) in ports if gg == g and dd == "in"]
                txt.append("    assign %s = %s;" % (pn, " ^ ".join(ins)))
        txt.append("}")
        d.children.append(txt)
        return ("inst", guard, cname, conns)

    def reverse_one(self, items):
        """append a reader of an unannotated variable BEFORE the assignment that drives it; both are
        in one domain, so an order-independent reading sees no crossing"""
        d, rng = self.d, self.rng
        self.idom = rng.choice(self.doms)
        self.mode = "clean"
        src = self.pool(self.idom)
        if not src:
            return items
        t = d.add("v_u%d" % len(d.sigs), None, "var")
        o = d.add("o_%s%d" % (self.idom, len(d.sigs)), self.idom, "out")
        d.tags.add("read-before-driver")
        reader = ("comb", False, [("assign", [(o, None)], ("sig", t), "scalar")], "assign")
        if rng.random() < 0.5:
            reader = ("comb", False, [("assign", [(o, None)], ("bin", "&", ("sig", t), ("sig", rng.choice(src))), "scalar")], "assign")
        driver = ("comb", False, [("assign", [(t, None)], ("sig", rng.choice(src)), "scalar")], "assign")
        k = rng.randint(0, len(items))
        return items[:k] + [reader] + items[k:] + [driver]

    def layout_probe(self, items):
        """unguarded crossing, guarded crossing, unguarded crossing in a row (printed mostly on one
        line): the items next to the braces of the unsafe (cdc) block must still be reported"""
        d, rng = self.d, self.rng
        new = []
        for guard in (False, True, False):
            self.idom = rng.choice(self.doms)
            self.mode = "clean"
            foreign = [i for i in self.readable if self.eff.get(i) not in (self.idom, "?", None)]
            src = foreign if foreign else self.pool(self.idom)
            if not src:
                continue
            o = self.new_dst(kind=rng.choice(["out", "var"]), allow_unann=False)
            e = ("sig", rng.choice(src))
            if rng.random() < 0.4:
                e = ("bin", "&", e, self.leaf(self.idom))
            new.append(("comb", guard, [("assign", [(o, None)], e, "scalar")], "assign"))
        if len(new) == 3 and rng.random() < 0.3:
            # two guarded items in a row: shared / nested / adjacent blocks
            new.insert(2, ("comb", True, new[1][2], "assign"))
            o2 = self.new_dst(kind="var", allow_unann=False)
            new[2] = ("comb", True, [("assign", [(o2, None)], new[1][2][0][2], "scalar")], "assign")
        k = rng.randint(0, len(items))
        return items[:k] + new + items[k:]

    def reads(self, it, s):
        return ("(SSig %d)" % s) in self.d.item_coq(it)
