"""Parser of the SystemVerilog subset the emitter prints for µRTL programs -> µSV AST (coq/Sv/Syntax.v).

    parse_module(text, names, clk="clk", rst="rst") -> {"name", "ports", "vars", "items"}
        names : {identifier: variable index}   (the µRTL declaration order; the clock and the reset port are
                                                the module's two signals and are not variables)
        ports / vars : [(name, "in"|"out"|"var", two_state, signed, width)]   in text order (clk / rst included)
        items : in text order
          ("comb", [stmt]) | ("assign", x, e) | ("ff", [(edge "pos"|"neg", sig "clk"|"rst")], [stmt])
        stmt  : ("b", x, e) | ("bsel", x, hi, lo, e) | ("nb", x, e) | ("nbsel", x, hi, lo, e)
              | ("if", c, [stmt], [stmt]) | ("case", inside, sel, [([pattern], [stmt])], [stmt])
        expr  : ("lit", w, signed, payload, mask) | ("var", x) | ("sig", "clk"|"rst") | ("sel", x, hi, lo)
              | ("un", op, e) | ("bin", op, a, b) | ("tern", c, a, b) | ("cat", [(e, n)]) | ("cast", w, e)
              | ("sign", signed, e)        operator names as in vp/gen/rtl.py (UNOPS / BINOPS keys)
    Normalisation: parentheses vanish, `x[i]` is ("sel", x, i, i), a concatenation item `{n{e}}` is (e, n),
    `{n{a, b}}` is (("cat", [(a,1),(b,1)]), n), a begin/end block is its statement list.
    Anything outside this grammar raises NotCovered (counted by the check, not a violation).

    sv_wire(items) -> token string read by the OCaml driver of vp/props/c01.py.
"""
import re


class NotCovered(Exception):
    pass


_TOKEN = re.compile(r"""
    (?P<ws>\s+|//[^\n]*|/\*.*?\*/)
  | (?P<cast>\d+\s*'\s*\()
  | (?P<lit>\d+\s*'\s*[sS]?[hHbBdDoO]\s*[0-9a-fA-F_xXzZ?]+)
  | (?P<num>\d+)
  | (?P<id>[$A-Za-z_][A-Za-z0-9_$]*)
  | (?P<op><<<|>>>|==\?|!=\?|===|!==|<<|>>|<=|>=|==|!=|&&|\|\||~\^|\^~|~&|~\||\*\*|[-+*/%&|^~!<>?:(){}\[\],;@=.\#'])
""", re.X | re.S)

BIN_LEVELS = [
    ["||"], ["&&"], ["|"], ["^", "~^", "^~"], ["&"], ["==", "!=", "==?", "!=?"], ["<", "<=", ">", ">="],
    ["<<", ">>", "<<<", ">>>"], ["+", "-"], ["*", "/", "%"], ["**"],
]
BIN_NAME = {"||": "lor", "&&": "land", "|": "or", "^": "xor", "~^": "xnor", "^~": "xnor", "&": "and", "==": "eq",
            "!=": "ne", "==?": "weq", "!=?": "wne", "<": "lt", "<=": "le", ">": "gt", ">=": "ge", "<<": "shl",
            ">>": "shr", "<<<": "ashl", ">>>": "ashr", "+": "add", "-": "sub", "*": "mul", "/": "div", "%": "rem",
            "**": "pow"}
UN_NAME = {"+": "plus", "-": "minus", "~": "bitnot", "!": "lognot", "&": "rand", "~&": "rnand", "|": "ror",
           "~|": "rnor", "^": "rxor", "~^": "rxnor", "^~": "rxnor"}


def tokenize(text):
    toks = []
    i = 0
    n = len(text)
    while i < n:
        m = _TOKEN.match(text, i)
        if not m:
            raise NotCovered("character %r at offset %d" % (text[i], i))
        i = m.end()
        k = m.lastgroup
        if k == "ws":
            continue
        toks.append((k, m.group(k)))
    toks.append(("eof", ""))
    return toks


def parse_literal(s):
    m = re.fullmatch(r"(\d+)\s*'\s*([sS]?)([hHbBdDoO])\s*([0-9a-fA-F_xXzZ?]+)", s)
    w = int(m.group(1))
    sg = m.group(2) != ""
    base = m.group(3).lower()
    digs = m.group(4).replace("_", "").lower()
    if w == 0:
        raise NotCovered("zero-width literal")
    if base == "d":
        if any(c in "xz?" for c in digs):
            raise NotCovered("decimal x/z literal")
        p, mk = int(digs), 0
    else:
        bits = {"h": 4, "o": 3, "b": 1}[base]
        p = mk = 0
        for c in digs:
            p <<= bits
            mk <<= bits
            full = (1 << bits) - 1
            if c == "x":
                mk |= full
            elif c in "z?":
                mk |= full
                p |= full
            else:
                d = int(c, 16)
                if d > full:
                    raise NotCovered("digit %r in base %s" % (c, base))
                p |= d
        nb = bits * len(digs)
        if nb < w and digs and digs[0] in "xz?":
            # 5.7.1: an x/z leftmost digit pads with x/z
            ext = ((1 << w) - 1) ^ ((1 << nb) - 1)
            mk |= ext
            if digs[0] != "x":
                p |= ext
    full = (1 << w) - 1
    return ("lit", w, sg, p & full, mk & full)


class P:
    def __init__(self, text, names, clk, rst):
        self.t = tokenize(text)
        self.i = 0
        self.names = names
        self.clk = clk
        self.rst = rst

    # --- token helpers
    def peek(self, k=0):
        return self.t[min(self.i + k, len(self.t) - 1)]

    def next(self):
        t = self.t[self.i]
        self.i += 1
        return t

    def at(self, s):
        return self.peek()[1] == s and self.peek()[0] in ("op", "id")

    def eat(self, s):
        if self.at(s):
            self.i += 1
            return True
        return False

    def expect(self, s):
        if not self.eat(s):
            raise NotCovered("expected %r, found %r" % (s, self.peek()[1]))

    def ident(self):
        k, v = self.next()
        if k != "id":
            raise NotCovered("expected identifier, found %r" % v)
        return v

    # --- constants (ranges, replication counts)
    def const(self, e):
        k = e[0]
        if k == "num":
            return e[1]
        if k == "lit" and e[4] == 0:
            return e[3]
        if k == "bin" and e[1] in ("add", "sub", "mul"):
            a, b = self.const(e[2]), self.const(e[3])
            return a + b if e[1] == "add" else a - b if e[1] == "sub" else a * b
        raise NotCovered("non-constant expression in a range / count")

    # --- expressions
    def expr(self):
        c = self.binary(0)
        if self.eat("?"):
            a = self.expr()
            self.expect(":")
            b = self.expr()
            return ("tern", c, a, b)
        return c

    def binary(self, lvl):
        if lvl >= len(BIN_LEVELS):
            return self.unary()
        ops = BIN_LEVELS[lvl]
        if ops == ["**"]:
            a = self.unary()
            while self.peek()[0] == "op" and self.peek()[1] in ops:
                o = self.next()[1]
                b = self.unary()
                a = ("bin", BIN_NAME[o], a, b)
            return a
        a = self.binary(lvl + 1)
        while self.peek()[0] == "op" and self.peek()[1] in ops:
            o = self.next()[1]
            b = self.binary(lvl + 1)
            a = ("bin", BIN_NAME[o], a, b)
        return a

    def unary(self):
        k, v = self.peek()
        if k == "op" and v in UN_NAME:
            self.next()
            return ("un", UN_NAME[v], self.unary())
        return self.primary()

    def select_suffix(self, name):
        """after an identifier: optional [hi:lo] / [i]; returns (hi, lo) or None"""
        if not self.eat("["):
            return None
        hi = self.const(self.expr())
        lo = hi
        if self.eat(":"):
            lo = self.const(self.expr())
        elif self.at("+") or self.at("-"):
            raise NotCovered("indexed part select")
        self.expect("]")
        if self.at("["):
            raise NotCovered("multi-dimensional select")
        return (hi, lo)

    def var_index(self, name):
        if name not in self.names:
            raise NotCovered("unknown identifier %s" % name)
        return self.names[name]

    def primary(self):
        k, v = self.next()
        if k == "lit":
            return parse_literal(v)
        if k == "num":
            return ("num", int(v))
        if k == "cast":
            w = int(re.match(r"\d+", v).group(0))
            e = self.expr()
            self.expect(")")
            return ("cast", w, e)
        if k == "id":
            if v in ("$signed", "$unsigned"):
                self.expect("(")
                e = self.expr()
                self.expect(")")
                return ("sign", v == "$signed", e)
            if v.startswith("$"):
                raise NotCovered("system function %s" % v)
            if self.at("(") or self.at(".") or self.at("'"):
                raise NotCovered("call / hierarchical / cast on %s" % v)
            if v == self.clk or v == self.rst:
                if self.at("["):
                    raise NotCovered("select of a clock/reset")
                return ("sig", "clk" if v == self.clk else "rst")
            x = self.var_index(v)
            sel = self.select_suffix(v)
            return ("sel", x, sel[0], sel[1]) if sel else ("var", x)
        if k == "op" and v == "(":
            e = self.expr()
            self.expect(")")
            return e
        if k == "op" and v == "{":
            return self.concat_tail()
        raise NotCovered("unexpected token %r in expression" % v)

    def concat_tail(self):
        """after '{': a concatenation, or a replication {n{...}}"""
        # replication: '{' count '{'
        if self.peek()[0] in ("num", "lit") and self.peek(1) == ("op", "{"):
            n = self.const(self.primary())
            self.expect("{")
            inner = self.concat_items()
            self.expect("}")
            e = inner[0][0] if len(inner) == 1 and inner[0][1] == 1 else ("cat", inner)
            return ("cat", [(e, n)])
        items = self.concat_items()
        return ("cat", items)

    def concat_items(self):
        """items up to and including the closing '}'"""
        items = []
        while True:
            if self.at("{") and self.peek(1)[0] in ("num", "lit") and self.peek(2) == ("op", "{"):
                self.next()
                n = self.const(self.primary())
                self.expect("{")
                inner = self.concat_items()
                self.expect("}")
                e = inner[0][0] if len(inner) == 1 and inner[0][1] == 1 else ("cat", inner)
                items.append((e, n))
            else:
                items.append((self.expr(), 1))
            if self.eat(","):
                continue
            self.expect("}")
            return items

    # --- statements
    def lhs(self):
        name = self.ident()
        if name in (self.clk, self.rst):
            raise NotCovered("assignment to a clock/reset")
        x = self.var_index(name)
        return x, self.select_suffix(name)

    def stmt_list(self):
        """one statement, or a begin/end block -> list"""
        if self.eat("begin"):
            if self.eat(":"):
                self.ident()
            out = []
            while not self.at("end"):
                out += self.stmt_list()
            self.expect("end")
            return out
        return [self.stmt()]

    def stmt(self):
        k, v = self.peek()
        if k == "id" and v in ("unique", "unique0", "priority"):
            raise NotCovered("%s if/case" % v)
        if self.eat("if"):
            self.expect("(")
            c = self.expr()
            self.expect(")")
            t = self.stmt_list()
            f = []
            if self.eat("else"):
                f = self.stmt_list()
            return ("if", c, t, f)
        if self.eat("case"):
            self.expect("(")
            sel = self.expr()
            self.expect(")")
            inside = self.eat("inside")
            arms = []
            dflt = None
            while not self.at("endcase"):
                if self.eat("default"):
                    self.eat(":")
                    if dflt is not None:
                        raise NotCovered("two default items")
                    dflt = self.stmt_list()
                    continue
                pats = [self.case_pattern()]
                while self.eat(","):
                    pats.append(self.case_pattern())
                self.expect(":")
                arms.append((pats, self.stmt_list()))
            self.expect("endcase")
            return ("case", inside, sel, arms, dflt or [])
        if k == "id" and v in ("casez", "casex", "for", "while", "repeat", "foreach", "return", "break", "assert"):
            raise NotCovered("statement %s" % v)
        if k == "id" and v.startswith("$"):
            raise NotCovered("system task %s" % v)
        x, sel = self.lhs()
        k, v = self.next()
        if v == "=":
            nb = False
        elif v == "<=":
            nb = True
        else:
            raise NotCovered("assignment operator %r" % v)
        e = self.expr()
        self.expect(";")
        if sel:
            return ("nbsel" if nb else "bsel", x, sel[0], sel[1], e)
        return ("nb" if nb else "b", x, e)

    def case_pattern(self):
        if self.at("["):
            raise NotCovered("range case item")
        return self.expr()

    # --- declarations
    def data_type(self):
        k, v = self.next()
        if v not in ("logic", "bit"):
            raise NotCovered("type %s" % v)
        two = v == "bit"
        sg = self.eat("signed")
        if self.eat("unsigned"):
            sg = False
        w = 1
        if self.eat("["):
            hi = self.const(self.expr())
            self.expect(":")
            lo = self.const(self.expr())
            self.expect("]")
            if lo != 0 or hi < lo:
                raise NotCovered("range [%d:%d]" % (hi, lo))
            w = hi - lo + 1
            if self.at("["):
                raise NotCovered("multi-dimensional packed type")
        return two, sg, w

    def module(self):
        self.expect("module")
        name = self.ident()
        if self.at("#") or self.at("import"):
            raise NotCovered("parameters / imports")
        ports = []
        self.expect("(")
        while not self.at(")"):
            d = self.ident()
            if d not in ("input", "output"):
                raise NotCovered("port direction %s" % d)
            self.eat("var")
            two, sg, w = self.data_type()
            pn = self.ident()
            if self.at("["):
                raise NotCovered("unpacked port")
            ports.append((pn, "in" if d == "input" else "out", two, sg, w))
            if not self.eat(","):
                break
        self.expect(")")
        self.expect(";")
        vars_ = []
        items = []
        while not self.at("endmodule"):
            k, v = self.peek()
            if v in ("logic", "bit"):
                two, sg, w = self.data_type()
                vn = self.ident()
                if self.at("[") or self.at("="):
                    raise NotCovered("unpacked variable / initialiser")
                self.expect(";")
                vars_.append((vn, "var", two, sg, w))
            elif self.eat("always_comb"):
                items.append(("comb", self.stmt_list()))
            elif self.eat("assign"):
                x, sel = self.lhs()
                if sel:
                    raise NotCovered("continuous assignment to a select")
                self.expect("=")
                e = self.expr()
                self.expect(";")
                items.append(("assign", x, e))
            elif self.eat("always_ff"):
                self.expect("@")
                self.expect("(")
                sens = []
                while True:
                    ed = self.ident()
                    if ed not in ("posedge", "negedge"):
                        raise NotCovered("event %s" % ed)
                    sn = self.ident()
                    if sn not in (self.clk, self.rst):
                        raise NotCovered("event on %s" % sn)
                    sens.append(("pos" if ed == "posedge" else "neg", "clk" if sn == self.clk else "rst"))
                    if self.eat(",") or self.eat("or"):
                        continue
                    break
                self.expect(")")
                items.append(("ff", sens, self.stmt_list()))
            else:
                raise NotCovered("module item %r" % v)
        self.expect("endmodule")
        return {"name": name, "ports": ports, "vars": vars_, "items": items}


def _check_no_num(e):
    k = e[0]
    if k == "num":
        raise NotCovered("unsized number in an expression")
    if k in ("un", "cast", "sign"):
        _check_no_num(e[2])
    elif k == "bin":
        _check_no_num(e[2])
        _check_no_num(e[3])
    elif k == "tern":
        for x in e[1:]:
            _check_no_num(x)
    elif k == "cat":
        for a, _ in e[1]:
            _check_no_num(a)


def _check_stmt(s):
    k = s[0]
    if k in ("b", "nb"):
        _check_no_num(s[2])
    elif k in ("bsel", "nbsel"):
        _check_no_num(s[4])
    elif k == "if":
        _check_no_num(s[1])
        for x in s[2] + s[3]:
            _check_stmt(x)
    elif k == "case":
        _check_no_num(s[2])
        for pats, body in s[3]:
            for p in pats:
                _check_no_num(p)
            for x in body:
                _check_stmt(x)
        for x in s[4]:
            _check_stmt(x)


def parse_module(text, names, clk="clk", rst="rst"):
    """the LAST module of the text (children come first in veryl's output; the check uses flat programs)"""
    p = P(text, names, clk, rst)
    mods = []
    while p.peek()[0] != "eof":
        mods.append(p.module())
    if len(mods) != 1:
        raise NotCovered("%d modules in the text" % len(mods))
    m = mods[0]
    for it in m["items"]:
        if it[0] == "assign":
            _check_no_num(it[2])
        else:
            for s in it[-1]:
                _check_stmt(s)
    return m


# ------------------------------------------------------------------------------------ wire format for the OCaml driver

def expr_wire(e):
    k = e[0]
    if k == "lit":
        return "L %d %d %x %x" % (e[1], 1 if e[2] else 0, e[3], e[4])
    if k == "var":
        return "V %d" % e[1]
    if k == "sig":
        return "Y %s" % e[1]
    if k == "sel":
        return "S %d %d %d" % (e[1], e[2], e[3])
    if k == "un":
        return "U %s %s" % (e[1], expr_wire(e[2]))
    if k == "bin":
        return "B %s %s %s" % (e[1], expr_wire(e[2]), expr_wire(e[3]))
    if k == "tern":
        return "T %s %s %s" % (expr_wire(e[1]), expr_wire(e[2]), expr_wire(e[3]))
    if k == "cat":
        return "C %d %s" % (len(e[1]), " ".join("%s %d" % (expr_wire(a), n) for a, n in e[1]))
    if k == "cast":
        return "K %d %s" % (e[1], expr_wire(e[2]))
    if k == "sign":
        return "G %d %s" % (1 if e[1] else 0, expr_wire(e[2]))
    raise ValueError(k)


def stmts_wire(l):
    return "%d %s" % (len(l), " ".join(stmt_wire(s) for s in l))


def stmt_wire(s):
    k = s[0]
    if k == "b":
        return "A %d %s" % (s[1], expr_wire(s[2]))
    if k == "bsel":
        return "P %d %d %d %s" % (s[1], s[2], s[3], expr_wire(s[4]))
    if k == "nb":
        return "N %d %s" % (s[1], expr_wire(s[2]))
    if k == "nbsel":
        return "Q %d %d %d %s" % (s[1], s[2], s[3], expr_wire(s[4]))
    if k == "if":
        return "I %s %s %s" % (expr_wire(s[1]), stmts_wire(s[2]), stmts_wire(s[3]))
    if k == "case":
        arms = " ".join("%d %s %s" % (len(p), " ".join(expr_wire(x) for x in p), stmts_wire(b)) for p, b in s[3])
        return "W %d %s %d %s %s" % (1 if s[1] else 0, expr_wire(s[2]), len(s[3]), arms, stmts_wire(s[4]))
    raise ValueError(k)


def item_wire(it):
    if it[0] == "comb":
        return "c %s" % stmts_wire(it[1])
    if it[0] == "assign":
        return "a %d %s" % (it[1], expr_wire(it[2]))
    return "f %d %s %s" % (len(it[1]), " ".join("%s %s" % (e, s) for e, s in it[1]), stmts_wire(it[2]))


def sv_wire(items):
    return "%d %s" % (len(items), " ".join(item_wire(it) for it in items))


# ------------------------------------------------------------------------------------ read / write sets (comb order)

def expr_vars(e, acc):
    k = e[0]
    if k in ("var", "sel"):
        acc.add(e[1])
    elif k in ("un", "cast", "sign"):
        expr_vars(e[2], acc)
    elif k == "bin":
        expr_vars(e[2], acc)
        expr_vars(e[3], acc)
    elif k == "tern":
        for x in e[1:]:
            expr_vars(x, acc)
    elif k == "cat":
        for a, _ in e[1]:
            expr_vars(a, acc)


def stmt_rw(s, rd, wr):
    k = s[0]
    if k in ("b", "nb"):
        wr.add(s[1])
        expr_vars(s[2], rd)
    elif k in ("bsel", "nbsel"):
        wr.add(s[1])
        expr_vars(s[4], rd)
    elif k == "if":
        expr_vars(s[1], rd)
        for x in s[2] + s[3]:
            stmt_rw(x, rd, wr)
    elif k == "case":
        expr_vars(s[2], rd)
        for pats, body in s[3]:
            for p in pats:
                expr_vars(p, rd)
            for x in body:
                stmt_rw(x, rd, wr)
        for x in s[4]:
            stmt_rw(x, rd, wr)


def comb_order(items):
    """dependency order of the always_comb / assign items of a parsed module (indices into items), computed
    from the SV text alone: an item comes after every item writing a variable it reads.  None if cyclic."""
    comb = [i for i, it in enumerate(items) if it[0] != "ff"]
    rw = {}
    for i in comb:
        rd, wr = set(), set()
        it = items[i]
        if it[0] == "assign":
            wr.add(it[1])
            expr_vars(it[2], rd)
        else:
            for s in it[1]:
                stmt_rw(s, rd, wr)
        rw[i] = (rd - wr, wr)
    order = []
    done = set()
    left = list(comb)
    while left:
        prog = False
        for i in list(left):
            deps = [j for j in comb if j != i and j not in done and (rw[j][1] & rw[i][0])]
            if not deps:
                order.append(i)
                done.add(i)
                left.remove(i)
                prog = True
        if not prog:
            return None
    return order
