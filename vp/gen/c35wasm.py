"""Hand-assembled WebAssembly guest for C35.

The wasm32 Rust target is not installed in this sandbox, so the repository's component fixture
cannot be built for the wasm transport.  The HOST half of that transport (crates/simulator/src/
component/wasm.rs: the `veryl` import module, guest-memory marshalling, method-call marshalling)
only needs *a* module with the right exports; this file assembles one byte by byte (no toolchain):

  exports  memory, veryl_component_{abi_version,kind,create,destroy,on_init,on_reset,on_clock,
           on_finish,call_method,alloc,free}
  imports  veryl.{port_index,port_width,read_input,write_output,param_get}

Behaviour of the guest (a raw mirror: it does no masking of its own, so everything observed is
the host's marshalling):
  create     resolves clk (clock), d (input), q (output); reads parameter MODE
  on_clock   MODE 0: read_input(d, WBUF, MBUF); write_output(q, WBUF, MBUF)
             MODE 1: read_input(d, WBUF, NULL); write_output(q, WBUF, NULL)     (scalar fast path of a
                     guest: SimCtx::read_u64 / write_u64 / write_words pass null mask pointers)
  call_method  name starting with 'g': returns parameter P (through param_get);
               otherwise returns its first argument (bits) unchanged, or unit without arguments
The first 16 bytes of linear memory are data-initialised with `low_fill` (0x00 or 0xff): a guest
is free to keep data there, which is what makes a host that dereferences a null mask pointer
observable.
"""

# ----------------------------------------------------------------------------- encoding helpers

def uleb(n):
    out = bytearray()
    while True:
        b = n & 0x7F
        n >>= 7
        if n:
            out.append(b | 0x80)
        else:
            out.append(b)
            return bytes(out)


def sleb(n):
    out = bytearray()
    while True:
        b = n & 0x7F
        n >>= 7
        if (n == 0 and not (b & 0x40)) or (n == -1 and (b & 0x40)):
            out.append(b)
            return bytes(out)
        out.append(b | 0x80)


def vec(items):
    return uleb(len(items)) + b"".join(items)


def name(s):
    b = s.encode()
    return uleb(len(b)) + b


def section(sid, payload):
    return bytes([sid]) + uleb(len(payload)) + payload


I32, I64 = 0x7F, 0x7E


def functype(params, results):
    return b"\x60" + vec([bytes([p]) for p in params]) + vec([bytes([r]) for r in results])


class Code:
    """tiny instruction builder"""

    def __init__(self):
        self.b = bytearray()

    def raw(self, *bs):
        self.b.extend(bs)
        return self

    def lget(self, i):
        self.b += b"\x20" + uleb(i)
        return self

    def lset(self, i):
        self.b += b"\x21" + uleb(i)
        return self

    def gget(self, i):
        self.b += b"\x23" + uleb(i)
        return self

    def gset(self, i):
        self.b += b"\x24" + uleb(i)
        return self

    def i32c(self, v):
        self.b += b"\x41" + sleb(v)
        return self

    def i64c(self, v):
        self.b += b"\x42" + sleb(v)
        return self

    def call(self, i):
        self.b += b"\x10" + uleb(i)
        return self

    def load32(self, off=0):
        self.b += b"\x28\x02" + uleb(off)
        return self

    def store32(self, off=0):
        self.b += b"\x36\x02" + uleb(off)
        return self

    def load64(self, off=0):
        self.b += b"\x29\x03" + uleb(off)
        return self

    def store64(self, off=0):
        self.b += b"\x37\x03" + uleb(off)
        return self

    def load8(self, off=0):
        self.b += b"\x2d\x00" + uleb(off)
        return self

    def op(self, nm):
        self.b.append(OPS[nm])
        return self

    def br(self, d):
        self.b += b"\x0c" + uleb(d)
        return self

    def br_if(self, d):
        self.b += b"\x0d" + uleb(d)
        return self

    def block(self):
        self.b += b"\x02\x40"
        return self

    def loop(self):
        self.b += b"\x03\x40"
        return self

    def if_(self):
        self.b += b"\x04\x40"
        return self

    def else_(self):
        self.b += b"\x05"
        return self

    def end(self):
        self.b += b"\x0b"
        return self

    def ret(self):
        self.b += b"\x0f"
        return self

    def drop(self):
        self.b += b"\x1a"
        return self


OPS = {
    "i32.eqz": 0x45, "i32.eq": 0x46, "i32.ne": 0x47, "i32.lt_s": 0x48, "i32.lt_u": 0x49,
    "i32.gt_u": 0x4B, "i32.ge_u": 0x4F, "i64.lt_s": 0x53,
    "i32.add": 0x6A, "i32.sub": 0x6B, "i32.mul": 0x6C, "i32.and": 0x71, "i32.or": 0x72,
    "i32.shl": 0x74, "i32.wrap_i64": 0xA7,
}


def body(locals_i32, code):
    loc = vec([uleb(locals_i32) + bytes([I32])]) if locals_i32 else vec([])
    b = loc + bytes(code.b) + b"\x0b"
    return uleb(len(b)) + b


# ----------------------------------------------------------------------------- memory layout
A_CLK, A_D, A_Q, A_MODE, A_P = 16, 20, 24, 28, 32
S_DIDX, S_QIDX, S_MODE = 64, 68, 80
WBUF, MBUF = 128, 1024          # 64 words each at most (4096-bit ports)
POUT, PBUF, PCAP = 2048, 2112, 1024
HEAP0 = 4096

# import function indices
F_PORT_INDEX, F_PORT_WIDTH, F_READ_INPUT, F_WRITE_OUTPUT, F_PARAM_GET = 0, 1, 2, 3, 4
NIMPORTS = 5


def build(low_fill=0x00, abi_version=1):
    types = [
        functype([], [I32]),                                  # 0
        functype([I32, I32], [I32]),                          # 1
        functype([I32], []),                                  # 2
        functype([I32], [I32]),                               # 3
        functype([I32] * 6, [I32]),                           # 4
        functype([I32, I32], []),                             # 5
        functype([I32, I32, I32], [I32]),                     # 6
        functype([I32, I32, I32], []),                        # 7
        functype([I32] * 5, [I64]),                           # 8
    ]
    imports = [
        ("port_index", 6), ("port_width", 3), ("read_input", 7), ("write_output", 7), ("param_get", 8),
    ]
    imp = vec([name("veryl") + name(n) + b"\x00" + uleb(t) for (n, t) in imports])

    funcs = []     # (export name, type index, body)

    # abi_version
    funcs.append(("veryl_component_abi_version", 0, body(0, Code().i32c(abi_version))))
    # kind(name_ptr, name_len) -> 0 (unspecified: usable as inst and as var)
    funcs.append(("veryl_component_kind", 1, body(0, Code().i32c(0))))

    # create(name_ptr, name_len) -> handle
    c = Code()
    c.i32c(S_DIDX).i32c(A_D).i32c(1).i32c(0).call(F_PORT_INDEX).store32()
    c.i32c(S_QIDX).i32c(A_Q).i32c(1).i32c(1).call(F_PORT_INDEX).store32()
    c.i32c(A_CLK).i32c(3).i32c(2).call(F_PORT_INDEX).drop()
    c.i32c(S_MODE).i32c(0).store32()
    # MODE parameter: param_get(name, len, out, buf, cap) >= 0 -> first payload word
    c.i32c(A_MODE).i32c(4).i32c(POUT).i32c(PBUF).i32c(PCAP).call(F_PARAM_GET)
    c.i64c(0).op("i64.lt_s").if_().else_()
    c.i32c(S_MODE).i32c(PBUF).load32().store32()
    c.end()
    c.i32c(1)
    funcs.append(("veryl_component_create", 1, body(0, c)))

    funcs.append(("veryl_component_destroy", 2, body(0, Code())))
    funcs.append(("veryl_component_on_init", 3, body(0, Code().i32c(0))))
    funcs.append(("veryl_component_on_reset", 3, body(0, Code().i32c(0))))

    # on_clock(handle) -> 0
    c = Code()
    c.i32c(S_MODE).load32().op("i32.eqz").if_()
    c.i32c(S_DIDX).load32().i32c(WBUF).i32c(MBUF).call(F_READ_INPUT)
    c.i32c(S_QIDX).load32().i32c(WBUF).i32c(MBUF).call(F_WRITE_OUTPUT)
    c.else_()
    c.i32c(S_DIDX).load32().i32c(WBUF).i32c(0).call(F_READ_INPUT)
    c.i32c(S_QIDX).load32().i32c(WBUF).i32c(0).call(F_WRITE_OUTPUT)
    c.end()
    c.i32c(0)
    funcs.append(("veryl_component_on_clock", 3, body(0, c)))
    funcs.append(("veryl_component_on_finish", 3, body(0, Code().i32c(0))))

    # call_method(handle, name_ptr, name_len, args_ptr, nargs, ret_ptr) -> rc
    # locals: 6 = src words ptr, 7 = nwords, 8 = width, 9 = i, 10 = dst words ptr
    c = Code()
    c.block()                       # exits to "have source" with locals 6,7,8 set
    c.lget(1).load8().i32c(ord("g")).op("i32.eq").if_()
    #   getp: parameter P
    c.i32c(A_P).i32c(1).i32c(POUT).i32c(PBUF).i32c(PCAP).call(F_PARAM_GET)
    c.i64c(0).op("i64.lt_s").if_().i32c(0).ret().end()      # absent: unit (ret slot untouched)
    c.i32c(POUT).load32(0).i32c(0).op("i32.ne").if_().i32c(0).ret().end()   # not bits: unit
    c.i32c(POUT).load32(8).lset(6)
    c.i32c(POUT).load32(12).lset(7)
    c.i32c(POUT).load32(4).lset(8)
    c.br(1)
    c.end()
    #   echo: first argument
    c.lget(4).op("i32.eqz").if_().i32c(0).ret().end()
    c.lget(3).load32(0).i32c(0).op("i32.ne").if_().i32c(0).ret().end()
    c.lget(3).load32(8).lset(6)
    c.lget(3).load32(12).lset(7)
    c.lget(3).load32(4).lset(8)
    c.end()
    # capacity check: nwords > ret.nwords -> error
    c.lget(7).lget(5).load32(12).op("i32.gt_u").if_().i32c(1).ret().end()
    c.lget(5).load32(8).lset(10)
    c.i32c(0).lset(9)
    c.block().loop()
    c.lget(9).lget(7).op("i32.ge_u").br_if(1)
    c.lget(10).lget(9).i32c(3).op("i32.shl").op("i32.add")
    c.lget(6).lget(9).i32c(3).op("i32.shl").op("i32.add").load64()
    c.store64()
    c.lget(9).i32c(1).op("i32.add").lset(9)
    c.br(0)
    c.end().end()
    c.lget(5).i32c(0).store32(0)          # kind = bits
    c.lget(5).lget(8).store32(4)          # width
    c.lget(5).lget(7).store32(12)         # nwords
    c.i32c(0)
    funcs.append(("veryl_component_call_method", 4, body(5, c)))

    # alloc(size) -> ptr   (bump allocator, 8-byte aligned)
    c = Code()
    c.gget(0).lset(1)
    c.gget(0).lget(0).op("i32.add").i32c(7).op("i32.add").i32c(-8).op("i32.and").gset(0)
    c.lget(1)
    funcs.append(("veryl_component_alloc", 3, body(1, c)))
    funcs.append(("veryl_component_free", 5, body(0, Code())))

    sec_type = section(1, vec(types))
    sec_import = section(2, imp)
    sec_func = section(3, vec([uleb(t) for (_, t, _) in funcs]))
    sec_mem = section(5, vec([b"\x00" + uleb(16)]))                    # 16 pages = 1 MiB
    sec_global = section(6, vec([bytes([I32, 0x01]) + b"\x41" + sleb(HEAP0) + b"\x0b"]))
    exports = [name("memory") + b"\x02" + uleb(0)]
    for i, (n, _, _) in enumerate(funcs):
        exports.append(name(n) + b"\x00" + uleb(NIMPORTS + i))
    sec_export = section(7, vec(exports))
    sec_code = section(10, vec([b for (_, _, b) in funcs]))

    def seg(addr, data):
        return b"\x00" + b"\x41" + sleb(addr) + b"\x0b" + uleb(len(data)) + data

    data = [
        seg(0, bytes([low_fill]) * 16),
        seg(A_CLK, b"clk"), seg(A_D, b"d"), seg(A_Q, b"q"), seg(A_MODE, b"MODE"), seg(A_P, b"P"),
    ]
    sec_data = section(11, vec(data))
    return b"\x00asm\x01\x00\x00\x00" + sec_type + sec_import + sec_func + sec_mem + sec_global + \
        sec_export + sec_code + sec_data


if __name__ == "__main__":
    import sys
    open(sys.argv[1], "wb").write(build(int(sys.argv[2], 0) if len(sys.argv) > 2 else 0))
