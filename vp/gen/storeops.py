"""Generators, wire format, OCaml driver and python oracle for the cache-store checks (C29).

wire format of one case (shared by the vh-store harness and the extracted-model driver):
    <npaths>|<op>;<op>;...       ops: see harness/store/src/main.rs
an op in python is a tuple:  ("O",k) ("T",k) ("P",p,h,blob|None) ("G",p,blob) ("K",p) ("I",p)
                             ("D",p,[ids]) ("E",p,[ids]) ("S",) ("X",) ("R",) ("B",n)
blobs are bytes objects.
"""
import random

NPATHS_MAX = 6

EXTRACT_V = """From VV Require Import Store.StoreModel.
Require Extraction. Require Import ExtrOcamlBasic.
Extraction "store_model.ml" trace_id init.
"""

# trusted glue: parses the wire format, runs the extracted `trace_id`, prints observations in the
# same canonical text as the harness.
DRIVER_ML = r"""
open Store_model
let rec pos_of_int i = if i = 1 then XH else if i land 1 = 0 then XO (pos_of_int (i lsr 1)) else XI (pos_of_int (i lsr 1))
let n_of_int i = if i = 0 then N0 else Npos (pos_of_int i)
let rec int_of_pos = function XH -> 1 | XO p -> 2 * int_of_pos p | XI p -> 2 * int_of_pos p + 1
let int_of_n = function N0 -> 0 | Npos p -> int_of_pos p
let unhex s = List.init (String.length s / 2) (fun i -> n_of_int (int_of_string ("0x" ^ String.sub s (2*i) 2)))
let hex l = String.concat "" (List.map (fun b -> Printf.sprintf "%02x" (int_of_n b)) l)
let blob_arg s = if s = "-" then None else Some (unhex (String.sub s 1 (String.length s - 1)))
let ids s = if s = "-" then [] else List.map (fun x -> n_of_int (int_of_string x)) (String.split_on_char '.' s)
let num s = n_of_int (int_of_string s)
let parse_op s =
  match String.split_on_char ' ' s with
  | ["O"; k] | ["T"; k] -> Open (num k)
  | ["P"; p; h; b] -> Put (num p, num h, blob_arg b)
  | ["G"; p; b] -> (match blob_arg b with Some x -> SetDiag (num p, x) | None -> failwith "G")
  | ["K"; p] -> Keep (num p)
  | ["I"; p] -> Invalidate (num p)
  | ["D"; p; l] -> SetDeps (num p, ids l)
  | ["E"; p; l] -> SetTests (num p, ids l)
  | ["S"] -> Save
  | ["X"] -> Drop
  | ["R"] -> ExtRm
  | ["B"; n] -> ExtBadSchema (num n)
  | _ -> failwith ("bad op " ^ s)
let name_field = function None -> "-" | Some d -> hex d
let load_field = function None -> "-" | Some d -> "x" ^ hex d
let idl l = String.concat "." (List.map (fun x -> string_of_int (int_of_n x)) l)
let show_entry = function
  | None -> "-"
  | Some ((((((h, f), deps), tests), dg), ld), ldd) ->
    Printf.sprintf "%d:%s:%s:%s:%s:%s:%s" (int_of_n h) (name_field f) (idl deps) (idl tests) (name_field dg) (load_field ld) (load_field ldd)
let show_step ((m, blobs), h) =
  let ms = match m with None -> "m-" | Some (s, k) -> Printf.sprintf "m%d:k%d" (int_of_n s) (int_of_n k) in
  let bs = String.concat "," (List.sort compare (List.map hex blobs)) in
  let hs = match h with None -> "hX" | Some es -> "h" ^ String.concat "/" (List.map show_entry es) in
  ms ^ ";b" ^ bs ^ ";" ^ hs
let () =
  try
    while true do
      let line = input_line stdin in
      (try
        let i = String.index line '|' in
        let np = int_of_string (String.sub line 0 i) in
        let rest = String.sub line (i + 1) (String.length line - i - 1) in
        let ops = List.map parse_op (List.filter (fun x -> x <> "") (String.split_on_char ';' rest)) in
        let paths = List.init np n_of_int in
        let tr = trace_id paths ops init in
        print_string ("OK " ^ String.concat "|" (List.map show_step tr) ^ "\n")
      with Failure m -> print_string ("ERROR " ^ m ^ "\n"))
    done
  with End_of_file -> ()
"""


def hexs(b):
    return b.hex()


def blob_wire(b):
    return "-" if b is None else "x" + b.hex()


def ids_wire(l):
    return "-" if not l else ".".join(str(x) for x in l)


def op_wire(o):
    t = o[0]
    if t in ("O", "T", "K", "I", "B"):
        return "%s %d" % (t, o[1])
    if t == "P":
        return "P %d %d %s" % (o[1], o[2], blob_wire(o[3]))
    if t == "G":
        return "G %d %s" % (o[1], blob_wire(o[2]))
    if t in ("D", "E"):
        return "%s %d %s" % (t, o[1], ids_wire(o[2]))
    return t


def case_wire(np, ops):
    return "%d|%s" % (np, ";".join(op_wire(o) for o in ops))


def op_json(o):
    return [x.hex() if isinstance(x, bytes) else x for x in o]


def op_from_json(j):
    t = j[0]
    if t == "P":
        return ("P", j[1], j[2], None if j[3] is None else bytes.fromhex(j[3]))
    if t == "G":
        return ("G", j[1], bytes.fromhex(j[2]))
    return tuple(j)


# ------------------------------------------------------------------------------------ parsing

def parse_trace(line):
    """'OK step|step..' -> list of step dicts; or ('PANIC', text)"""
    if not line.startswith("OK"):
        return ("PANIC", line)
    body = line[3:]
    steps = []
    if body == "":
        return steps
    for st in body.split("|"):
        if st == "TRYOPEN-NONE":
            steps.append({"tryfail": True})
            continue
        m, b, h = st.split(";")
        d = {"manifest": None if m == "m-" else m[1:], "names_ok": not b.endswith("!")}
        bl = b[1:].rstrip("!")
        d["blobs"] = [] if bl == "" else bl.split(",")
        if h == "hX":
            d["handle"] = None
        else:
            es = []
            for e in h[1:].split("/"):
                if e == "-":
                    es.append(None)
                    continue
                f = e.split(":")
                es.append({"hash": f[0], "frag": None if f[1] == "-" else f[1],
                           "deps": [] if f[2] == "" else f[2].split("."),
                           "tests": [] if f[3] == "" else f[3].split("."),
                           "diag": None if f[4] == "-" else f[4],
                           "load": None if f[5] == "-" else f[5][1:],
                           "loaddiag": None if f[6] == "-" else f[6][1:]})
            d["handle"] = es
        steps.append(d)
    return steps


# ------------------------------------------------------------------------------------ oracle

class Spec:
    """The property's own oracle: a versioned key-value map (python twin of StoreModel.astep).
    skip=True  : an identical re-scan on a handle that believes the disk current commits nothing;
    skip=False : every save commits (the two agree unless the disk was tampered with while a
                 store was open — theorem C29_skip_save_loses_nothing)."""

    def __init__(self, schema, skip):
        self.schema = schema
        self.skip = skip
        self.saved = None      # (key, {path: entry})
        self.h = None          # [key, view, pending, cur]

    def step(self, o):
        t = o[0]
        if t in ("O", "T"):
            k = o[1]
            if self.saved is not None and self.saved[0] == k:
                self.h = [k, dict(self.saved[1]), {}, True]
            else:
                self.h = [k, {}, {}, False]
            return
        if t == "X":
            self.h = None
            return
        if t == "R":
            self.saved = None
            return
        if t == "B":
            if o[1] != self.schema:
                self.saved = None
            return
        if self.h is None:
            return
        k, view, pend, cur = self.h
        if t == "P":
            pend[o[1]] = (o[2], o[3], (), (), None)
        elif t == "G":
            e = pend.get(o[1])
            if e is not None and e[1] is not None:
                pend[o[1]] = (e[0], e[1], e[2], e[3], o[2])
        elif t == "K":
            if o[1] in view:
                pend[o[1]] = view[o[1]]
        elif t == "I":
            e = pend.get(o[1])
            if e is not None:
                pend[o[1]] = (e[0], None, e[2], e[3], e[4])
        elif t == "D":
            e = pend.get(o[1])
            if e is not None:
                pend[o[1]] = (e[0], e[1], tuple(o[2]), e[3], e[4])
        elif t == "E":
            e = pend.get(o[1])
            if e is not None:
                pend[o[1]] = (e[0], e[1], e[2], tuple(o[2]), e[4])
        elif t == "S":
            if self.skip and cur and pend == view:
                self.h = [k, view, {}, cur]
            else:
                self.saved = (k, dict(pend))
                self.h = [k, dict(pend), {}, True]

    def observe(self, np):
        """None (no store open) or list over paths of None | (hash, load, deps, tests, loaddiag)"""
        if self.h is None:
            return None
        view = self.h[1]
        return [view.get(p) for p in range(np)]


def impl_observation(step):
    """project a parsed harness step to what the spec talks about"""
    if step.get("tryfail"):
        return "TRYFAIL"
    if step["handle"] is None:
        return None
    out = []
    for e in step["handle"]:
        if e is None:
            out.append(None)
        else:
            def ints(l):
                return tuple(int(x) if x.isdigit() else x for x in l)
            out.append((int(e["hash"]) if e["hash"].isdigit() else e["hash"],
                        None if e["load"] is None else bytes.fromhex(e["load"]),
                        ints(e["deps"]), ints(e["tests"]),
                        None if e["loaddiag"] is None else bytes.fromhex(e["loaddiag"])))
    return out


def live_tamper(ops):
    """index of the first external op executed while a store is open, else None"""
    is_open = False
    for i, o in enumerate(ops):
        if o[0] in ("O", "T"):
            is_open = True
        elif o[0] == "X":
            is_open = False
        elif o[0] in ("R", "B") and is_open:
            return i
    return None


def referenced_ok(step):
    """every blob the open store's entries reference is a file on disk (dangling => '?rel')"""
    if not isinstance(step, dict) or step.get("handle") is None:
        return True
    for e in step["handle"]:
        if e is None:
            continue
        for nm in (e["frag"], e["diag"]):
            if nm is not None and (nm.startswith("?") or nm not in step["blobs"]):
                return False
    return True


# ------------------------------------------------------------------------------------ generation

def gen_payloads(rng):
    pool = [b"", bytes([rng.randrange(256)]), bytes(rng.randrange(256) for _ in range(rng.choice([2, 3, 5, 9])))]
    # shapes the framing code distinguishes: payload that itself starts with the magic, all-zero, 0xff
    pool.append(rng.choice([b"VFRG", b"VFRG\x02\x00\x00\x00", b"\x00\x00\x00\x00", b"\xff" * 4, b"\n[files]\n"]))
    return pool


def gen_seq(rng, maxlen=25, schema=2):
    """One operation sequence. Weighted towards builds: open, several puts, decorations, save,
    drop, reopen (same / other key), identical re-scans (keep everything / re-put the same)."""
    np = rng.choice([1, 2, 3, 4, 4, 5, 6])
    pool = gen_payloads(rng)
    keys = [1, 2]
    style = rng.choice(["builds", "builds", "random", "rescan", "tamper"])
    ops = []
    last = {}          # path -> last put args in this process (for identical re-puts)

    def rblob():
        return None if rng.random() < 0.2 else rng.choice(pool)

    def rids(n):
        return [rng.randrange(n) for _ in range(rng.choice([0, 0, 1, 2, 3]))]

    def rand_op():
        r = rng.random()
        p = rng.randrange(np)
        if r < 0.22:
            o = ("P", p, rng.randrange(4), rblob())
            last[p] = o
            return o
        if r < 0.30 and p in last:
            return last[p]
        if r < 0.40:
            return ("G", p, rng.choice(pool))
        if r < 0.52:
            return ("K", p)
        if r < 0.59:
            return ("I", p)
        if r < 0.66:
            return ("D", p, rids(np))
        if r < 0.72:
            return ("E", p, rids(4))
        if r < 0.86:
            return ("S",)
        if r < 0.91:
            return ("X",)
        if r < 0.98:
            return (rng.choice("OT"), rng.choice(keys if rng.random() < 0.8 else [keys[0]]))
        if style == "tamper":
            return rng.choice([("R",), ("B", rng.choice([1, 3, schema]))])
        return ("S",)

    n = rng.randrange(4, maxlen + 1)
    if style == "random":
        ops.append((rng.choice("OT"), rng.choice(keys)))
        while len(ops) < n:
            ops.append(rand_op())
        return np, ops[:maxlen]
    key = rng.choice(keys)
    while len(ops) < n:
        # one build
        ops.append((rng.choice("OOT"), key))
        kind = rng.choice(["fresh", "keepall", "mixed", "reput"]) if ops[:-1] else "fresh"
        if style == "rescan" and len(ops) > 1:
            kind = rng.choice(["keepall", "reput", "keepall", "mixed"])
        decorated = []
        for p in range(np):
            if kind == "fresh" or (kind == "mixed" and rng.random() < 0.5):
                if rng.random() < 0.85:
                    o = ("P", p, rng.randrange(4), rblob())
                    last[p] = o
                    ops.append(o)
                    decorated.append(p)
            elif kind == "reput" and p in last:
                ops.append(last[p])
                decorated.append(p)
            else:
                ops.append(("K", p))
        for p in decorated:
            r = rng.random()
            if kind == "reput" and p in last and ("deco", p) in last:
                ops.extend(last[("deco", p)])
                continue
            deco = []
            if r < 0.35:
                deco.append(("G", p, rng.choice(pool)))
            if rng.random() < 0.4:
                deco.append(("D", p, rids(np)))
            if rng.random() < 0.25:
                deco.append(("E", p, rids(4)))
            if rng.random() < 0.15:
                deco.append(("I", p))
            last[("deco", p)] = deco
            ops.extend(deco)
        if rng.random() < 0.15:
            ops.append(rand_op())
        if rng.random() < 0.92:
            ops.append(("S",))
        if rng.random() < 0.3:
            # same handle keeps going: identical re-scan in the same process
            for p in range(np):
                ops.append(("K", p))
            ops.append(("S",))
        if rng.random() < 0.85:
            ops.append(("X",))
            if style == "tamper" and rng.random() < 0.5:
                ops.append(rng.choice([("R",), ("B", rng.choice([1, 3, schema]))]))
        elif style == "tamper" and rng.random() < 0.5:
            ops.append(rng.choice([("R",), ("B", rng.choice([1, 3]))]))
        if rng.random() < 0.3:
            key = rng.choice(keys)
    ops = ops[:maxlen]
    return np, ops


def shape_tags(ops):
    tags = set()
    kinds = [o[0] for o in ops]
    if kinds.count("S") >= 2:
        tags.add("multi-save")
    ks = [o[1] for o in ops if o[0] in ("O", "T")]
    if len(set(ks)) > 1:
        tags.add("key-change")
    if "R" in kinds or "B" in kinds:
        tags.add("tamper-live" if live_tamper(ops) is not None else "tamper-closed")
    if "G" in kinds:
        tags.add("diagnostics")
    if "I" in kinds:
        tags.add("invalidate")
    if "K" in kinds:
        tags.add("keep")
    if any(o[0] == "P" and o[3] is None for o in ops):
        tags.add("put-without-blob")
    if any(o[0] == "P" and o[3] == b"" for o in ops):
        tags.add("empty-payload")
    if "T" in kinds:
        tags.add("try_open")
    for i, o in enumerate(ops):
        if o[0] == "S" and "X" in kinds[i:] and any(k in ("O", "T") for k in kinds[i:]):
            tags.add("save-drop-reopen")
            break
    return tags
