"""Generators of hostile parser inputs (C10) and of parseable mutants (C11).

Every case is (tag, wire) where wire is a line for vh-robust (`H <hex>`, `F <path>`, `N …`) and
text_of(wire) reproduces the text in python (for oracles, replays and shrinking).
All randomness comes from the random.Random handed in.
"""
import glob
import os
import re

from .. import common as C

KEYWORDS = """module interface package function import export inst var let const assign always_ff always_comb
if else if_reset for in case switch default return break type struct union enum modport input output inout
ref logic bit u8 u16 u32 u64 i8 i16 i32 i64 f32 f64 bool string clock reset clock_posedge clock_negedge
reset_async_high reset_async_low reset_sync_high reset_sync_low signed tri pub proto embed include
unsafe initial final inside outside as repeat step rev param local alias bind connect converse same gen
block true false lsb msb""".split()

OPERATORS = """+ - * / % ** & | ^ ~ ! && || == != <: <= >: >= << >> <<< >>> = += -= *= /= %= &= |= ^= <<= >>=
<<<= >>>= ? : :: . .. ..= , ; ( ) [ ] { } < > '{ ' # $ @ -> <> +: -: ~& ~| ~^ ^~ ==? !=? === !== =>""".split()

LITERALS = """0 1 32'hdead_beef 8'b1010_xz01 'x 'z '0 '1 3'o7 16'sd12 1.5 1e10 1.0e-3 64'd0 0'd0 4294967296'h0
"abc" "a\\"b" "\\n" 'hff 12345678901234567890123456789 1_000 8'hzz""".split()

IDENTS = "a b c i x y clk rst A B Pkg Mod T r#if r#module _a a_1 $display $sv::x $clog2 é名".split()

EXOTIC = ["\ufeff", "\x00", "\x01", "\x7f", "\u00a0", "\u2028", "\u2029", "\u200b", "\u202e", "\u0301",
          "\U0001f600", "\U0010ffff", "\ud7ff", "\ue000", "\ufffd", "\ufffe", "\t", "\r", "\r\n", "\x0b", "\x0c",
          "é", "名", "\u0085"]


def hexs(b):
    return b.hex() if b else "-"


def H(text):
    return "H " + hexs(text.encode("utf8"))


def N(pre, op, n, mid, cl, post):
    return "N %s %s %d %s %s %s" % (hexs(pre.encode()), hexs(op.encode()), n, hexs(mid.encode()),
                                    hexs(cl.encode()), hexs(post.encode()))


def unhex(h):
    return b"" if h == "-" else bytes.fromhex(h)


def text_of(wire):
    t = wire.split()
    if t[0] == "H":
        return unhex(t[1] if len(t) > 1 else "-").decode("utf8")
    if t[0] == "F":
        return open(t[1], "rb").read().decode("utf8")
    if t[0] == "N":
        pre, op, n, mid, cl, post = unhex(t[1]), unhex(t[2]), int(t[3]), unhex(t[4]), unhex(t[5]), unhex(t[6])
        return (pre + op * n + mid + cl * n + post).decode("utf8")
    raise ValueError(wire)


def repo_testcases():
    root = os.path.join(C.REPO, "testcases")
    fs = sorted(glob.glob(os.path.join(root, "**", "*.veryl"), recursive=True))
    return fs


_TOKEN_RE = re.compile(r"\s+|//[^\n]*|/\*.*?\*/|\"(?:\\.|[^\"\\])*\"|[A-Za-z_$][A-Za-z0-9_$:]*|[0-9][0-9a-zA-Z_']*|'\{|<<<=|>>>=|<<<|>>>|<<=|>>=|\*\*|&&|\|\||==|!=|<:|>:|<=|>=|<<|>>|\+=|-=|\*=|/=|%=|&=|\|=|\^=|::|\.\.=|\.\.|\+:|-:|.", re.S)


def tokens(text):
    return _TOKEN_RE.findall(text)


# ------------------------------------------------------------------------------------------ C10

WRAP_PRE = "module A {\n  assign a = "
WRAP_POST = ";\n}\n"

# nesting families used by the depth correspondence AND by the deep-nesting search.
# name -> (pre, open, mid, close, post)
NEST = {
    "paren":   (WRAP_PRE, "(", "1", ")", WRAP_POST),
    "concat":  (WRAP_PRE, "{", "1", "}", WRAP_POST),
    "arraylit": (WRAP_PRE, "'{", "1", "}", WRAP_POST),
    "index":   (WRAP_PRE, "a[", "1", "]", WRAP_POST),
    "call":    (WRAP_PRE, "f(", "1", ")", WRAP_POST),
    "unaryparen": (WRAP_PRE, "-(", "1", ")", WRAP_POST),
    "ifexpr":  (WRAP_PRE, "if 1 ? (", "1", ") : 0", WRAP_POST),
    "caseexpr": (WRAP_PRE, "case 1 { 0: ", "1", ", default: 0 }", WRAP_POST),
    "width":   ("module A {\n  var a: ", "logic<$bits(", "logic", ")>", ";\n}\n"),
    "block":   ("module A {\n  always_comb {\n", "block { ", "", " }", "\n  }\n}\n"),
    "ifstmt":  ("module A {\n  always_comb {\n", "if 1 { ", "a = 1;", " }", "\n}\n}\n"),
    "forstmt": ("module A {\n  always_comb {\n", "for i in 0..1 { ", "a = 1;", " }", "\n}\n}\n"),
    "genif":   ("module A {\n", "if 1 :g { ", "", " }", "\n}\n"),
    "genfor":  ("module A {\n", "for i in 0..1 :g { ", "", " }", "\n}\n"),
    "genblock": ("module A {\n", ":g { ", "", " }", "\n}\n"),
    "modgroup": ("module A {\n", "{ ", "", " }", "\n}\n"),
    "descgroup": ("", "#[a] { ", "module A {}", " }", "\n"),
    "typeexpr": (WRAP_PRE, "type(", "a", ")", WRAP_POST),
}

# flat (push-list) families: length n must never matter
FLAT = {
    "elseif":   ("module A {\n  always_comb {\n    if 1 { a = 1; }", " else if 1 { a = 1; }", "", "", "\n  }\n}\n"),
    "opchain":  (WRAP_PRE + "1", " + 1", "", "", WRAP_POST),
    "unarychain": (WRAP_PRE, "~", "1", "", WRAP_POST),
    "concatlist": (WRAP_PRE + "{1", ", 1", "}", "", WRAP_POST),
    "stmts":    ("module A {\n  always_comb {\n", "a = 1;\n", "", "", "  }\n}\n"),
    "items":    ("module A {\n", "  assign a = 1;\n", "", "", "}\n"),
    "modules":  ("", "module A {}\n", "", "", ""),
    "casearms": ("module A {\n  always_comb {\n    case a {\n", "      1: a = 1;\n", "      default: a = 0;\n", "", "    }\n  }\n}\n"),
    "ifexprchain": (WRAP_PRE, "if 1 ? 1 : ", "0", "", WRAP_POST),
    "selects":  (WRAP_PRE + "a", "[0]", "", "", WRAP_POST),
    "dots":     (WRAP_PRE + "a", ".b", "", "", WRAP_POST),
    "scoped":   (WRAP_PRE + "a", "::b", "", "", WRAP_POST),
    "args":     (WRAP_PRE + "f(1", ", 1", ")", "", WRAP_POST),
    "attrs":    ("", "#[a]\n", "module A {}\n", "", ""),
    "ports":    ("module A (\n  a: input logic", ",\n  b: input logic", "\n) {}\n", "", ""),
    "enumitems": ("module A {\n  enum E {\n    A0", ",\n    A1", "\n  }\n}\n", "", ""),
}

BRACKETS = ["(", "[", "{", "<", "'{", "#[", "{{{", "/*", "\"", "if 1 {", "begin", ")", "]", "}", ">", "}}}", "*/"]


def nest_case(name, n, table=None):
    pre, op, mid, cl, post = (table or NEST)[name]
    return N(pre, op, n, mid, cl, post)


def structured_cases(rng, tier, big=1 << 20):
    """hand-shaped hostile inputs: (tag, wire).  big = length of the long token runs (1 MB for the
    release profile; the unoptimised debug build gets 64 KB runs)"""
    out = []
    # long token runs (1 MB)
    runs = {
        "ident-1MB": "a" * big, "digits-1MB": "1" * big, "plus-1MB": "+" * big, "spaces-1MB": " " * big,
        "newlines-1MB": "\n" * big, "linecomment-1MB": "//" + "x" * big, "blockcomment-1MB": "/*" + "x" * big + "*/",
        "string-1MB": "\"" + "x" * big + "\"", "hexlit-1MB": "128'h" + "f" * big, "underscores-1MB": "1" + "_1" * (big // 2),
        "multibyte-1MB": "名" * (big // 3), "stars-1MB": "/" + "*" * big, "quotes-1MB": "'" * big,
        "lbraces-1MB": "{" * big, "semis-1MB": ";" * big, "colons-1MB": ":" * big, "dots-1MB": "." * big,
        "nul-64k": "\x00" * min(big, 65536), "bom-64k": "\ufeff" * min(big, 65536),
    }
    for tag, t in runs.items():
        out.append(("run:" + tag, H(t)))
        out.append(("run-in-module:" + tag, H("module A {\n  assign a = " + t + ";\n}\n")))
    # unterminated things, with and without trailing newline
    stubs = ["/*", "/* x", "/* x *", "/**", "//", "// x", "\"", "\"abc", "\"abc\\", "\"abc\\\"", "'", "'{", "8'", "8'h",
             "1e", "1.", "1.e", "1_", "{{{", "{{{ x", "{{{ x }}", "embed", "embed (inline) sv {{{", "$", "$sv::", "r#", "#", "#[",
             "#[a", "module", "module A", "module A {", "module A { assign", "module A { assign a", "module A { assign a =",
             "module A { assign a = (", "module A { assign a = 1", "module A { assign a = 1;", "a::", "::", "<", "<:", "else",
             "module A { always_comb { if 1 { } else", "module A { always_comb { if 1 { } else {", "\\", "`", "@", "\ufeff",
             "\ufeffmodule A {}", "\x00", "module A {}\x00", "module \x00A {}", "module A {} \ufeff", "\r", "\r\n", "\n", "",
             "module A {}\r", "module A {}\r\n", "// c\r", "/* \r */", "\"\r\"", "\"\n\"", "'\n{", "é", "名", "module é {}",
             "module A { var é: logic; }", "\U0001f600", "module A {} // \U0001f600", "module A {} /* \U0001f600",
             "\u2028", "module A\u2028{}", "\u00a0module A {}", "module A {}\u0085"]
    for s in stubs:
        for suffix in ("", "\n", " ", "\n\n", "\t"):
            out.append(("stub", H(s + suffix)))
    # deep nesting of every bracket kind, balanced and not
    depths = [10, 200, 1150, 1153, 5000] + ([big // 10] if tier == "quick" else [big // 10, big])
    for b in BRACKETS:
        for d in depths:
            out.append(("open-only:" + b.strip(), H(b * d)))
            out.append(("open-only-in-module:" + b.strip(), H(WRAP_PRE + b * d)))
    for name in NEST:
        for d in [1, 50, 2000, big // 50] + ([] if tier == "quick" else [big // 5]):
            out.append(("deep:" + name, nest_case(name, d)))
    # very long flat chains
    for name in FLAT:
        for d in [0, 1, 3000, big // 20] + ([] if tier == "quick" else [big // 3]):
            out.append(("flat:" + name, nest_case(name, d, FLAT)))
    # deep nesting that is never closed / closed too often
    for name in NEST:
        pre, op, mid, cl, post = NEST[name]
        out.append(("unclosed:" + name, H(pre + op * 3000 + mid)))
        out.append(("overclosed:" + name, H(pre + op * 3 + mid + cl * 3000 + post)))
    return out


def random_unicode(rng, n):
    out = []
    for _ in range(n):
        k = rng.random()
        if k < 0.3:
            out.append(chr(rng.randrange(32, 127)))
        elif k < 0.45:
            out.append(rng.choice(EXOTIC))
        elif k < 0.6:
            out.append(rng.choice(" \n\t\r"))
        else:
            while True:
                c = rng.randrange(0, 0x110000)
                if not (0xD800 <= c <= 0xDFFF):
                    break
            out.append(chr(c))
    return "".join(out)


def token_soup(rng, n):
    parts = []
    for _ in range(n):
        k = rng.random()
        if k < 0.3:
            parts.append(rng.choice(KEYWORDS))
        elif k < 0.6:
            parts.append(rng.choice(OPERATORS))
        elif k < 0.75:
            parts.append(rng.choice(IDENTS))
        elif k < 0.9:
            parts.append(rng.choice(LITERALS))
        elif k < 0.95:
            parts.append(rng.choice(EXOTIC))
        else:
            parts.append(rng.choice(["/*", "*/", "//", "\"", "{{{", "}}}", "\n"]))
        parts.append(rng.choice(["", " ", " ", "\n"]))
    return "".join(parts)


def mutate_text(rng, text):
    """one to four random edits on a repository testcase (character and token level)"""
    toks = tokens(text)
    for _ in range(rng.randint(1, 4)):
        k = rng.randrange(12)
        if not toks:
            break
        i = rng.randrange(len(toks))
        if k == 0:
            del toks[i]
        elif k == 1:
            toks.insert(i, toks[i])
        elif k == 2:
            j = rng.randrange(len(toks))
            toks[i], toks[j] = toks[j], toks[i]
        elif k == 3:
            toks[i] = rng.choice(OPERATORS + KEYWORDS + LITERALS)
        elif k == 4:
            toks.insert(i, rng.choice(OPERATORS + KEYWORDS + LITERALS + EXOTIC))
        elif k == 5:
            toks = toks[:i]                         # truncate (EOF inside anything)
        elif k == 6:
            s = "".join(toks)
            p = rng.randrange(len(s) + 1)
            toks = tokens(s[:p])                    # truncate at a character position
        elif k == 7:
            j = min(len(toks), i + rng.randint(1, 30))
            toks[i:j] = toks[i:j] * rng.choice([2, 3, 50])
        elif k == 8:
            toks[i] = toks[i][: rng.randrange(len(toks[i]) + 1)]
        elif k == 9:
            toks.insert(i, rng.choice(["/*", "\"", "{{{", "'", "//"]))
        elif k == 10:
            toks[i] = random_unicode(rng, rng.randint(1, 5))
        else:
            s = "".join(toks)
            toks = tokens(s.replace("\n", rng.choice(["\r\n", "\r", ""])))
    t = "".join(toks)
    if rng.random() < 0.3:
        t = t.rstrip("\n")
    return t


def random_cases(rng, n_unicode, n_soup, n_mut, n_prefix):
    out = []
    for _ in range(n_unicode):
        out.append(("random-unicode", H(random_unicode(rng, rng.choice([1, 2, 5, 20, 200, 3000])))))
    for _ in range(n_soup):
        out.append(("token-soup", H(token_soup(rng, rng.choice([1, 3, 10, 50, 400])))))
    files = repo_testcases()
    for _ in range(n_mut):
        f = rng.choice(files)
        try:
            text = open(f, encoding="utf8").read()
        except (OSError, UnicodeDecodeError):
            continue
        out.append(("mutant:" + os.path.basename(os.path.dirname(f)), H(mutate_text(rng, text))))
    # every-prefix truncation of a few small files (EOF inside every token kind)
    small = [f for f in files if os.path.getsize(f) < 1500]
    for _ in range(n_prefix):
        f = rng.choice(small)
        text = open(f, encoding="utf8").read()
        p = rng.randrange(len(text) + 1)
        out.append(("prefix", H(text[:p])))
    return out


# ------------------------------------------------------------------------------------------ C11

EXTREME_NUMS = ["0", "1", "2", "31", "32", "33", "63", "64", "65", "127", "128", "129", "255", "256", "1023", "65535", "65536",
                "2147483647", "2147483648", "4294967295", "4294967296", "4294967297", "9223372036854775807",
                "9223372036854775808", "18446744073709551615", "18446744073709551616", "340282366920938463463374607431768211456",
                "1000000000", "1000000000000", "-1", "-2147483648", "-9223372036854775808", "64'd0", "-64'd0", "64'hffff_ffff_ffff_ffff",
                "64'h8000_0000_0000_0000", "-64'h8000_0000_0000_0000", "65'h1_0000_0000_0000_0000", "128'hffff_ffff_ffff_ffff_ffff_ffff_ffff_ffff",
                "32'hffff_ffff", "32'h8000_0000", "1'b1", "1'bx", "1'bz", "8'hxz", "'x", "'z", "'1", "'0", "0'd0", "1'd5", "4'sd15",
                "64'sd9223372036854775807", "32'sh8000_0000", "1.5", "1e308", "1e-400", "0.0", "1e999", "true", "false", "\"str\"",
                "4294967296'h0", "100000'd1", "1_0", "$clog2(0)", "$clog2(1)", "$bits(u64)", "(1 << 63)", "(1 << 64)", "(1 << 65)",
                "(1 <<< 1000000000000)", "(1 >> 18446744073709551615)", "(-1 >>> 64)", "(2 ** 64)", "(2 ** 1000000)", "(0 ** -1)", "((-1) ** -1)",
                "(2 ** -1)", "(1 / 0)", "(1 % 0)", "(-9223372036854775808 / -1)", "(64'sh8000_0000_0000_0000 / -1)",
                "(64'sh8000_0000_0000_0000 % -1)", "(-(-9223372036854775808))", "(18446744073709551615 + 1)", "(18446744073709551615 * 18446744073709551615)",
                "(0 - 1)", "~0", "!0", "{32{1'b1}}", "{1'b1 repeat 64}", "{1'b1 repeat 65}", "{1'b1 repeat 0}", "{1'b1 repeat -1}",
                "{1'b1 repeat 1000000000}", "{1'b1 repeat 18446744073709551615}", "(1 ==? 'x)", "('x / 1)", "('x << 'x)", "(1 << 'x)",
                "(if 1 ? 2 : 3)", "(if 'x ? 2 : 3)", "(1 as u64)", "(-1 as u8)", "(300 as u8)", "(1.5 as u32)", "(1 as 0)", "(1 as 1000000000)"]

# operands that build enormous bit-vectors (10^9 bits and more): fine alone (they are checked one by one in the
# `const` class), but arithmetic on two of them is minutes of big-number work, not a hang — kept out of the
# operator cross product and out of loop counts
HUGE = {"(1 <<< 1000000000000)", "(2 ** 1000000)", "{1'b1 repeat 1000000000}", "{1'b1 repeat 18446744073709551615}",
        "4294967296'h0", "100000'd1", "(1 as 1000000000)", "{1'b1 repeat -1}", "(1 >> 18446744073709551615)", "1e999", "1e308"}
EXTREME_SMALL = [x for x in EXTREME_NUMS if x not in HUGE]
# loop / generate counts: between 2^12 and the evaluate_size_limit (2^20) unrolling is slow (seconds to minutes) but
# finite; smaller counts are quick, larger ones must be refused by the limit
LOOP_COUNTS = [x for x in EXTREME_SMALL if x not in ("65535", "65536", "1000000", "1_0")]

UNDEFINED = ["undefined_x", "Undefined::y", "$undefined", "$sv::pkg::x", "nowhere::Nothing::<1>", "self", "super"]

CONST_TYPES = ["u32", "u64", "i32", "i64", "u8", "bit", "bit<64>", "bit<65>", "bit<128>", "bit<1>", "logic<64>", "logic<32>",
               "signed logic<64>", "signed bit<8>", "f32", "f64", "bool", "string", "type", "u16", "i8", "bit<0>", "logic<63>"]


def hostile_programs(rng, tier):
    """hand-shaped parseable programs aimed at analysis / emission / formatting: list of (tag, [file texts])"""
    out = []
    E = EXTREME_NUMS

    def one(tag, text):
        out.append((tag, [text]))

    # constants of every type x every extreme value
    pairs = [(t, v) for t in CONST_TYPES for v in E]
    rng.shuffle(pairs)
    for t, v in pairs[: (260 if tier == "quick" else len(pairs))]:
        one("const", "module A {\n    const X: %s = %s;\n    var a: logic<8>;\n    assign a = X;\n}\n" % (t, v))
    # binary operators over extreme pairs in constants (compile-time evaluation)
    ops = ["+", "-", "*", "/", "%", "**", "<<", ">>", "<<<", ">>>", "&", "|", "^", "~^", "==", "!=", "<:", "<=", ">:", ">=", "&&", "||",
           "==?", "!=?"]
    for _ in range(220 if tier == "quick" else 6000):
        a, b, o, t = rng.choice(EXTREME_SMALL), rng.choice(EXTREME_SMALL), rng.choice(ops), rng.choice(CONST_TYPES)
        one("const-binop", "package P {\n    const X: %s = %s %s %s;\n}\nmodule A {\n    var a: logic<P::X>;\n    assign a = P::X;\n}\n" % (t, a, o, b))
    for _ in range(60 if tier == "quick" else 1500):
        a, o, t = rng.choice(E), rng.choice(["-", "~", "!", "&", "|", "^", "~&", "~|", "~^", "+"]), rng.choice(CONST_TYPES)
        one("const-unop", "module A {\n    const X: %s = %s%s;\n    let a: logic<8> = X;\n}\n" % (t, o, a))
    # widths, array dimensions, selects
    for w in E:
        lw = w if w in LOOP_COUNTS else rng.choice(LOOP_COUNTS)
        one("width", "module A {\n    var a: logic<%s>;\n    assign a = 0;\n}\n" % w)
        one("array", "module A {\n    var a: logic<2> [%s];\n    assign a[0] = 0;\n}\n" % w)
        one("select", "module A {\n    var a: logic<8>;\n    var b: logic<8>;\n    assign a = 1;\n    assign b = a[%s];\n}\n" % w)
        one("range-select", "module A {\n    var a: logic<8>;\n    var b: logic<8>;\n    assign a = 1;\n    assign b = a[%s:%s];\n}\n" % (w, rng.choice(E)))
        one("plus-select", "module A {\n    var a: logic<8>;\n    var b: logic<8>;\n    assign a = 1;\n    assign b = a[%s+:%s];\n}\n" % (w, rng.choice(E)))
        one("step-select", "module A {\n    var a: logic<8>;\n    var b: logic<8>;\n    assign a = 1;\n    assign b = a[%s step %s];\n}\n" % (w, rng.choice(E)))
        one("lhs-select", "module A {\n    var a: logic<8>;\n    assign a[%s] = 1;\n}\n" % w)
        one("repeat", "module A {\n    var a: logic<8>;\n    var b: logic<8>;\n    assign a = 1;\n    assign b = {a repeat %s};\n}\n" % w)
        one("for-range", "module A {\n    var a: logic<8>;\n    always_comb {\n        a = 0;\n        for i in 0..%s {\n            a += 1;\n        }\n    }\n}\n" % lw)
        one("for-range-rev", "module A {\n    var a: logic<8>;\n    always_comb {\n        a = 0;\n        for i in rev %s..=%s {\n            a += i;\n        }\n    }\n}\n" % (lw, rng.choice(LOOP_COUNTS)))
        one("for-step", "module A {\n    var a: logic<8>;\n    always_comb {\n        a = 0;\n        for i in 0..10 step %s %s {\n            a += 1;\n        }\n    }\n}\n" % (rng.choice(["+=", "*=", "-=", "<<=", "/=", ">>="]), w))
        one("gen-for", "module A {\n    for i in 0..%s :g {\n        var a: logic;\n        assign a = 0;\n    }\n}\n" % lw)
        one("gen-for-step", "module A {\n    for i in %s..10 step %s %s :g {\n        var a: logic;\n        assign a = 0;\n    }\n}\n" % (rng.choice(E), rng.choice(["+=", "*=", "-=", "<<="]), w))
        one("gen-if", "module A {\n    if %s :g {\n        var a: logic;\n        assign a = 0;\n    }\n}\n" % w)
        one("enum-width", "module A {\n    enum En: logic<%s> {\n        X = %s,\n        Y,\n    }\n    var a: En;\n    assign a = En::Y;\n}\n" % (w, rng.choice(E)))
        one("param-override", "module B #(\n    param W: u32 = 1,\n) (\n    o: output logic<W>,\n) {\n    assign o = 0;\n}\nmodule A {\n    var x: logic<8>;\n    inst b: B #(W: %s) (o: x);\n}\n" % w)
        one("fn-arg", "module A {\n    function f (\n        n: input u32,\n    ) -> u32 {\n        var r: u32;\n        r = 0;\n        for i in 0..n {\n            r += 1;\n        }\n        return r;\n    }\n    const X: u32 = f(%s);\n    var a: logic<X>;\n    assign a = 0;\n}\n" % lw)
        one("cast", "module A {\n    const W: u32 = 4;\n    var a: logic<8>;\n    assign a = %s as W;\n}\n" % w)
        one("case-item", "module A {\n    var a: logic<8>;\n    var b: logic<8>;\n    assign a = 1;\n    always_comb {\n        case a {\n            %s: b = 1;\n            %s..=%s: b = 2;\n            default: b = 0;\n        }\n    }\n}\n" % (w, rng.choice(E), rng.choice(E)))
        one("inside", "module A {\n    var a: logic<8>;\n    var b: logic;\n    assign a = 1;\n    assign b = inside a {%s, %s..%s};\n}\n" % (w, rng.choice(E), rng.choice(E)))
        one("msb", "module A {\n    var a: logic<%s>;\n    var b: logic;\n    assign a = 0;\n    assign b = a[msb] + a[lsb] + a[msb - %s];\n}\n" % (w, rng.choice(E)))
        one("sysfn", "module A {\n    const X: u32 = $clog2(%s) + $bits(logic<%s>) + $size(%s);\n    var a: logic<X>;\n    assign a = 0;\n}\n" % (w, rng.choice(E), w))
    # recursion of every kind
    rec = {
        "type-self": "module A {\n    type T = T;\n    var a: T;\n    assign a = 0;\n}\n",
        "type-mutual": "module A {\n    type T = U;\n    type U = T;\n    var a: T;\n    assign a = 0;\n}\n",
        "type-array-self": "module A {\n    type T = T [2];\n    var a: T;\n}\n",
        "struct-self": "module A {\n    struct S {\n        a: S,\n    }\n    var s: S;\n    assign s = 0;\n}\n",
        "struct-mutual": "module A {\n    struct S {\n        t: T,\n    }\n    struct T {\n        s: S,\n    }\n    var s: S;\n    assign s.t.s.t = 0;\n}\n",
        "union-self": "module A {\n    union U {\n        a: U,\n        b: logic,\n    }\n    var u: U;\n}\n",
        "enum-self": "module A {\n    enum E: E {\n        X,\n    }\n    var e: E;\n}\n",
        "enum-value-self": "module A {\n    enum E {\n        X = E::Y,\n        Y = E::X,\n    }\n    var e: E;\n    assign e = E::X;\n}\n",
        "const-self": "module A {\n    const X: u32 = X;\n    var a: logic<X>;\n    assign a = 0;\n}\n",
        "const-mutual": "module A {\n    const X: u32 = Y + 1;\n    const Y: u32 = X + 1;\n    var a: logic<X>;\n    assign a = 0;\n}\n",
        "const-self-width": "module A {\n    const X: bit<X> = 1;\n}\n",
        "param-self": "module A #(\n    param P: u32 = P,\n) {\n    var a: logic<P>;\n    assign a = 0;\n}\n",
        "param-type-self": "module A #(\n    param T: type = T,\n) {\n    var a: T;\n    assign a = 0;\n}\n",
        "package-const-mutual": "package P {\n    const X: u32 = Q::Y;\n}\npackage Q {\n    const Y: u32 = P::X;\n}\nmodule A {\n    var a: logic<P::X>;\n    assign a = 0;\n}\n",
        "package-import-self": "package P {\n    import P::*;\n    const X: u32 = 1;\n}\nmodule A {\n    import P::*;\n    var a: logic<X>;\n    assign a = 0;\n}\n",
        "package-import-mutual": "package P {\n    import Q::*;\n    const X: u32 = Y;\n}\npackage Q {\n    import P::*;\n    const Y: u32 = X;\n}\nmodule A {\n    var a: logic<P::X>;\n    assign a = 0;\n}\n",
        "fn-self": "module A {\n    function f (\n        a: input u32,\n    ) -> u32 {\n        return f(a);\n    }\n    const X: u32 = f(1);\n    var a: logic<X>;\n    assign a = f(2);\n}\n",
        "fn-self-cond": "module A {\n    function f (\n        a: input u32,\n    ) -> u32 {\n        if a == 0 {\n            return 1;\n        } else {\n            return a * f(a - 1);\n        }\n    }\n    const X: u32 = f(100000);\n    var a: logic<X>;\n    assign a = 0;\n}\n",
        "fn-mutual": "module A {\n    function f (\n        a: input u32,\n    ) -> u32 {\n        return g(a);\n    }\n    function g (\n        a: input u32,\n    ) -> u32 {\n        return f(a);\n    }\n    var a: logic<8>;\n    assign a = f(1);\n}\n",
        "fn-in-package-self": "package P {\n    function f (\n        a: input u32,\n    ) -> u32 {\n        return P::f(a) + 1;\n    }\n    const X: u32 = f(3);\n}\nmodule A {\n    var a: logic<P::X>;\n    assign a = 0;\n}\n",
        "inst-self": "module A {\n    inst a: A;\n}\n",
        "inst-self-port": "module A (\n    i: input logic,\n) {\n    inst a: A (i);\n}\n",
        "inst-mutual": "module A {\n    inst b: B;\n}\nmodule B {\n    inst a: A;\n}\n",
        "inst-self-param": "module A #(\n    param N: u32 = 1,\n) {\n    inst a: A #(N: N + 1);\n}\n",
        "inst-self-param-term": "module A #(\n    param N: u32 = 100000,\n) {\n    if N >: 0 :g {\n        inst a: A #(N: N - 1);\n    }\n}\n",
        "inst-fanout": "module L {\n}\nmodule M3 {\n    for i in 0..100 :g {\n        inst l: L;\n    }\n}\nmodule M2 {\n    for i in 0..100 :g {\n        inst m: M3;\n    }\n}\nmodule M1 {\n    for i in 0..100 :g {\n        inst m: M2;\n    }\n}\nmodule A {\n    for i in 0..100 :g {\n        inst m: M1;\n    }\n}\n",
        "interface-self": "interface I {\n    inst i: I;\n}\nmodule A {\n    inst i: I;\n}\n",
        "interface-modport-self": "interface I {\n    var a: logic;\n    modport m {\n        ..same(m)\n    }\n}\nmodule A {\n    inst i: I;\n}\n",
        "generic-self": "module A::<N: u32> {\n    inst a: A::<N>;\n}\nmodule T {\n    inst a: A::<1>;\n}\n",
        "generic-grow": "module A::<N: u32> {\n    const M: u32 = N + 1;\n    inst a: A::<M>;\n}\nmodule T {\n    inst a: A::<1>;\n}\n",
        "generic-pkg-self": "package P::<N: u32> {\n    const X: u32 = P::<N>::X;\n}\nmodule A {\n    var a: logic<P::<1>::X>;\n    assign a = 0;\n}\n",
        "generic-fn-self": "module A {\n    function f::<N: u32> () -> u32 {\n        return f::<N>();\n    }\n    var a: logic<8>;\n    assign a = f::<1>();\n}\n",
        "alias-self": "alias module B = B;\nmodule A {\n    inst b: B;\n}\n",
        "alias-mutual": "alias module B = C;\nalias module C = B;\nmodule A {\n    inst b: B;\n}\n",
        "proto-self": "proto module P (\n    a: input logic,\n);\nmodule A for P (\n    a: input logic,\n) {\n    inst x: P (a);\n}\n",
        "let-self": "module A {\n    let a: logic<8> = a + 1;\n}\n",
        "assign-self": "module A {\n    var a: logic<8>;\n    assign a = a + 1;\n}\n",
        "comb-loop-long": "module A {\n" + "".join("    var a%d: logic;\n    assign a%d = a%d;\n" % (i, i, (i + 1) % 300) for i in range(300)) + "}\n",
        "bind-self": "module A {\n}\nbind A <- u: A;\n",
        "import-in-self-module": "module A {\n    import A::*;\n}\n",
        "var-type-is-var": "module A {\n    var a: a;\n}\n",
        "var-type-is-module": "module A {\n    var a: A;\n    assign a = 0;\n}\n",
        "inst-of-var": "module A {\n    var v: logic;\n    inst a: v;\n}\n",
        "inst-of-package": "package P {\n}\nmodule A {\n    inst a: P;\n}\n",
        "call-var": "module A {\n    var v: logic;\n    var w: logic;\n    assign v = 1;\n    assign w = v(1);\n}\n",
        "member-of-scalar": "module A {\n    var v: logic;\n    var w: logic;\n    assign v = 1;\n    assign w = v.x.y.z;\n}\n",
        "pkg-as-value": "package P {\n}\nmodule A {\n    var w: logic;\n    assign w = P;\n}\n",
        "type-as-value": "module A {\n    var w: logic<8>;\n    assign w = logic + u32;\n}\n",
        "empty-enum": "module A {\n    enum E {\n        X,\n    }\n    var e: E;\n}\n",
        "empty-struct": "module A {\n    struct S {\n        a: logic<0>,\n    }\n    var s: S;\n    assign s = 0;\n}\n",
        "empty-union": "module A {\n    union U {\n        a: logic<0>,\n    }\n    var u: U;\n}\n",
        "enum-dup": "module A {\n    enum E {\n        X = 1,\n        Y = 1,\n        X,\n    }\n    var e: E;\n    assign e = E::X;\n}\n",
        "enum-xz": "module A {\n    enum E: logic<2> {\n        X = 2'bxz,\n        Y,\n    }\n    var e: E;\n    assign e = E::Y;\n}\n",
        "enum-onehot-many": "module A {\n    #[enum_encoding(onehot)]\n    enum E {\n" + "".join("        X%d,\n" % i for i in range(200)) + "    }\n    var e: E;\n    assign e = E::X199;\n}\n",
        "enum-gray-width": "module A {\n    #[enum_encoding(gray)]\n    enum E: logic<1> {\n        A0,\n        A1,\n        A2,\n    }\n    var e: E;\n    assign e = E::A2;\n}\n",
        "enum-onehot-explicit": "module A {\n    #[enum_encoding(onehot)]\n    enum E {\n        A0 = 3,\n        A1 = 0,\n    }\n    var e: E;\n    assign e = E::A1;\n}\n",
        "struct-zero-width": "module A {\n    struct S {\n        a: logic<0>,\n        b: bit<0>,\n    }\n    var s: S;\n    assign s.a = 0;\n    assign s.b = s.a;\n}\n",
        "union-mismatch": "module A {\n    union U {\n        a: logic<3>,\n        b: logic<70>,\n    }\n    var u: U;\n    assign u.a = 0;\n}\n",
        "struct-ctor": "module A {\n    struct S {\n        a: logic<3>,\n    }\n    var s: S;\n    assign s = S'{a: 1, b: 2, a: 3};\n}\n",
        "struct-ctor-default": "module A {\n    struct S {\n        a: logic<3>,\n        b: logic<70>,\n    }\n    var s: S;\n    assign s = S'{a: 1, ..default(1)};\n}\n",
        "array-literal": "module A {\n    var a: logic<2> [3, 0, 2];\n    assign a = '{'{0}, default: 1};\n}\n",
        "array-literal-deep": "module A {\n    var a: logic [2, 2];\n    assign a = '{'{0, 1, 2}, '{0 repeat 5}, default: '{default: 1}};\n}\n",
        "clock-expr": "module A {\n    let c: clock = 1 / 0;\n    var a: logic;\n    always_ff (c) {\n        a = 1;\n    }\n}\n",
        "ff-no-clock": "module A {\n    var a: logic;\n    always_ff {\n        a = 1;\n    }\n}\n",
        "ff-reset-x": "module A (\n    c: input clock,\n    r: input reset,\n) {\n    var a: logic<70>;\n    always_ff {\n        if_reset {\n            a = 'x;\n        } else {\n            a = a + 1;\n        }\n    }\n}\n",
        "if-reset-outside": "module A {\n    var a: logic;\n    always_comb {\n        if_reset {\n            a = 1;\n        }\n    }\n}\n",
        "return-outside": "module A {\n    var a: logic;\n    always_comb {\n        return 1;\n    }\n}\n",
        "break-outside": "module A {\n    var a: logic;\n    always_comb {\n        break;\n    }\n}\n",
        "embed": "embed (inline) sv{{{\n  module x; endmodule\n}}}\nembed (cocotb) py{{{\nimport os\n}}}\nmodule A {\n}\n",
        "include-missing": "include(inline, \"no_such_file.sv\");\nmodule A {\n}\n",
        "include-self": "include(inline, \"case.veryl\");\nmodule A {\n}\n",
        "include-abs": "include(inline, \"/dev/null\");\ninclude(inline, \"/\");\ninclude(inline, \"\");\nmodule A {\n}\n",
        "attr-junk": "#[sv(\"\")]\n#[allow(nothing)]\n#[ifdef(X)]\n#[test(x, y, z)]\n#[enum_encoding(nothing)]\n#[fmt(zzz)]\n#[cond_type(x)]\n#[unknown]\nmodule A {\n}\n",
        "ifdef-nest": "#[ifdef(X)]\n#[ifndef(X)]\n#[elsif(Y)]\n#[else]\nmodule A {\n    #[else]\n    var a: logic;\n}\n",
        "test-attr": "#[test(t)]\nembed (inline) sv{{{\nmodule t; endmodule\n}}}\n#[test(t2, A)]\nmodule A {\n    initial {\n        $finish();\n    }\n}\n",
        "raw-ident": "module r#module {\n    var r#var: logic;\n    assign r#var = r#if;\n}\n",
        "dollar": "module A {\n    var a: logic;\n    assign a = $sv::a::b::c + $display + $bits + $clog2() + $clog2(1, 2) + $size(1) + $signed() + $unsigned(a, a);\n}\n",
        "string-ops": "module A {\n    const S: string = \"a\" + \"b\";\n    var a: logic<8>;\n    assign a = S[0] + \"\" + {\"ab\" repeat 3};\n}\n",
        "modport-junk": "interface I {\n    var a: logic;\n    function f () -> u32 {\n        return 1;\n    }\n    modport m {\n        a: input,\n        a: output,\n        f: import,\n        b: input,\n        ..converse(m2)\n    }\n    modport m2 {\n        ..converse(m)\n    }\n}\nmodule A (\n    p: modport I::m,\n    q: modport I::nothing,\n    r: interface,\n) {\n    var x: logic;\n    assign x = p.a + p.b + q.z + r.y;\n}\n",
        "connect-op": "interface I {\n    var a: logic;\n    modport m {\n        a: output,\n    }\n    modport s {\n        a: input,\n    }\n}\nmodule A (\n    p: modport I::m,\n    q: modport I::s,\n) {\n    connect p <> q;\n    connect q <> 0;\n    connect p <> p;\n    connect p.a <> q;\n}\n",
        "port-default": "module B (\n    a: input logic<8> = 1 / 0,\n    b: output logic<8> = _,\n    c: input logic = undefined_x,\n) {\n    assign b = a;\n}\nmodule A {\n    inst b: B;\n}\n",
        "inst-array": "module B {\n}\nmodule A {\n    inst b: B [0];\n    inst c: B [4294967296];\n    inst d: B [2, 0 - 1];\n}\n",
        "let-types": "module A {\n    let b: string = 1;\n    let c: clock = \"x\";\n    let d: logic<2> [2] = '{default: 'x};\n}\n",
        "fn-many-args": "module A {\n    function f (\n        a: input u32,\n    ) -> u32 {\n        return a;\n    }\n    var x: logic<8>;\n    assign x = f() + f(1, 2, 3) + f(a: 1, a: 2) + f(b: 1) + f(f(f(f(1))));\n}\n",
        "fn-output-arg-const": "module A {\n    function f (\n        a: output u32,\n        b: inout u32,\n    ) {\n        a = 1;\n    }\n    always_comb {\n        f(1, 2);\n        f(undefined_x, A);\n    }\n}\n",
        "nested-generic": "module A::<T: type = u32, N: u32 = T> {\n    var a: T<N>;\n}\nmodule B {\n    inst a: A::<>;\n    inst b: A::<B, B>;\n    inst c: A::<1, B>;\n    inst d: A::<A::<u32, 1>, 1>;\n}\n",
        "cond-type": "module A {\n    always_comb {\n        #[cond_type(unique)]\n        case undefined_x {\n            0: undefined_y = 1;\n        }\n    }\n}\n",
        "same-names": "module A {\n    var A: logic;\n    var a: logic;\n    var a: logic<2>;\n    function a () {}\n    struct a {\n        a: a,\n    }\n    enum a {\n        a,\n    }\n    assign a = a::a;\n}\nmodule A {\n}\npackage A {\n}\ninterface A {\n}\n",
        "unsafe-cdc": "module A (\n    c1: input 'a clock,\n    c2: input 'b clock,\n    i: input 'a logic,\n    o: output 'b logic,\n) {\n    unsafe (cdc) {\n        assign o = i;\n    }\n    unsafe (nothing) {\n        unsafe (cdc) {\n        }\n    }\n}\n",
        "initial-final": "module A {\n    initial {\n        $display(\"%d %s %\", 1);\n        $finish();\n        undefined_f(1);\n    }\n    final {\n        $assert(1 / 0);\n    }\n}\n",
        "wide-mul": "module A {\n    const X: bit<4096> = (1 << 4095) * (1 << 4095);\n    const Y: bit<65536> = 2 ** 65535;\n    var a: logic<8>;\n    assign a = X + Y;\n}\n",
        "big-struct": "module A {\n    struct S {\n" + "".join("        g%d: logic<64>,\n" % i for i in range(300)) + "    }\n    var s: S [64];\n    assign s[0].g299 = 1;\n}\n",
        "many-dims": "module A {\n    var a: logic<2, 2, 2, 2, 2, 2, 2, 2> [2, 2, 2, 2, 2, 2, 2, 2];\n    assign a[1][1][1][1][1][1][1][1][1][1][1][1][1][1][1][1][1] = 1;\n}\n",
        "giant-dims": "module A {\n    var a: logic [65536, 65536];\n    var b: logic [1000000000];\n    assign a[0][0] = 1;\n    assign b = '{default: 0};\n}\n",
        "giant-width-2d": "module A {\n    var a: logic<65536, 65536>;\n    assign a[0][0] = 1;\n}\n",
        "giant-array-loop": "module A {\n    var b: logic<8> [2000];\n    always_comb {\n        for i in 0..2000 {\n            b[i] = i;\n        }\n    }\n}\n",
        "proto-pkg": "proto package PP {\n    const X: u32;\n    type T;\n    function f () -> u32 ;\n}\npackage P for PP {\n}\nmodule A::<Q: PP> {\n    var a: Q::T<Q::X>;\n}\nmodule B {\n    inst a: A::<P>;\n}\n",
    }
    for k, v in rec.items():
        one("shape:" + k, v)
    # deep (but parseable) nesting through the analyzer / emitter / formatter
    deep = {
        "genif": ("module A {\n", "if 1 :g { ", "var a: logic; assign a = 0;", " }", "\n}\n"),
        "genfor": ("module A {\n", "for i in 0..1 :g { ", "var a: logic; assign a = 0;", " }", "\n}\n"),
        "genblock": ("module A {\n", ":g { ", "var a: logic; assign a = 0;", " }", "\n}\n"),
        "ifstmt": ("module A {\n  var a: logic;\n  always_comb {\n a = 0;\n", "if a { ", "a = 1;", " }", "\n}\n}\n"),
        "forstmt": ("module A {\n  var a: logic;\n  always_comb {\n a = 0;\n", "for i in 0..2 { ", "a = 1;", " }", "\n}\n}\n"),
        "paren": ("module A {\n  var a: logic;\n  assign a = ", "(", "1", ")", ";\n}\n"),
        "concat": ("module A {\n  var a: logic;\n  assign a = ", "{", "1'b1", "}", ";\n}\n"),
        "ifexpr": ("module A {\n  var a: logic;\n  assign a = ", "if 1 ? (", "1", ") : 0", ";\n}\n"),
        "caseexpr": ("module A {\n  var a: logic;\n  assign a = ", "case 1 { 0: ", "1", ", default: 0 }", ";\n}\n"),
        "call": ("module A {\n  function f (\n a: input u32,\n ) -> u32 {\n return a;\n }\n  var a: logic;\n  assign a = ", "f(", "1", ")", ";\n}\n"),
        "index": ("module A {\n  var a: logic<8>;\n  var b: logic<8>;\n assign a = 1;\n  assign b = ", "a[", "1", "]", ";\n}\n"),
        "structnest": None,
    }
    for name, sp in deep.items():
        if sp is None:
            continue
        pre, op, mid, cl, post = sp
        fit = DEEP_FIT[name]
        if name == "forstmt":
            # every level doubles the unrolled work (2^n): 4 and 8 are quick, 24 is the witness of the finding
            for n in (4, 8):
                one("deep:forstmt", pre + op * n + mid + cl * n + post)
            one("deep:forstmt-exp", pre + op * 24 + mid + cl * 24 + post)
            continue
        for n in ([20, fit // 2, fit] if tier == "quick" else [20, fit // 4, fit // 2, 3 * fit // 4, fit - 1, fit]):
            one("deep:%s" % name, pre + op * n + mid + cl * n + post)
    for n in ([100, 400] if tier == "quick" else [100, 400, 1000]):
        one("deep:structnest", "module A {\n" + "".join("    struct S%d {\n        s: S%d,\n    }\n" % (i, i + 1) for i in range(n)) +
            "    struct S%d {\n        s: logic,\n    }\n    var s: S0;\n    assign s%s = 1;\n}\n" % (n, ".s" * (n + 1)))
        one("deep:typechain", "module A {\n" + "".join("    type T%d = T%d;\n" % (i, i + 1) for i in range(n)) + "    type T%d = logic;\n    var a: T0;\n    assign a = 0;\n}\n" % n)
        one("deep:constchain", "module A {\n" + "".join("    const C%d: u32 = C%d + 1;\n" % (i, i + 1) for i in range(n)) + "    const C%d: u32 = 1;\n    var a: logic<C0>;\n    assign a = 0;\n}\n" % n)
        one("deep:instchain", "".join("module M%d {\n    inst m: M%d;\n}\n" % (i, i + 1) for i in range(n)) + "module M%d {\n}\n" % n)
        one("deep:fnchain", "module A {\n" + "".join("    function fn%d (\n        a: input u32,\n    ) -> u32 {\n        return fn%d(a) + 1;\n    }\n" % (i, i + 1) for i in range(n)) +
            "    function fn%d (\n        a: input u32,\n    ) -> u32 {\n        return a;\n    }\n    const X: u32 = fn0(1);\n    var a: logic<X>;\n    assign a = 0;\n}\n" % n)
    for n in ([3000] if tier == "quick" else [3000, 30000]):
        one("long:opchain", "module A {\n  var a: logic<8>;\n  assign a = 1" + " + 1" * n + ";\n}\n")
        one("long:concat", "module A {\n  var a: logic<8>;\n  assign a = {1'b1" + ", 1'b1" * n + "};\n}\n")
        one("long:elseif", "module A {\n  var a: logic<8>;\n  always_comb {\n    a = 0;\n    if a == 0 { a = 1; }" + " else if a == 1 { a = 2; }" * n + "\n  }\n}\n")
        one("long:stmts", "module A {\n  var a: logic<8>;\n  always_comb {\n    a = 0;\n" + "    a += 1;\n" * n + "  }\n}\n")
        one("long:vars", "module A {\n" + "".join("  var a%d: logic;\n  assign a%d = 0;\n" % (i, i) for i in range(n)) + "}\n")
        one("long:casearms", "module A {\n  var a: logic<32>;\n  var b: logic;\n  assign a = 0;\n  always_comb {\n    case a {\n" + "".join("      %d: b = 1;\n" % i for i in range(n)) + "      default: b = 0;\n    }\n  }\n}\n")
    # multi-file projects
    multi = {
        "files-import-each-other": [
            "package P {\n    const X: u32 = 1;\n}\nmodule B {\n    import Q::*;\n    var a: logic<Y>;\n    assign a = 0;\n}\n",
            "package Q {\n    const Y: u32 = 2;\n}\nmodule Z {\n    import P::*;\n    var a: logic<X>;\n    assign a = 0;\n}\n"],
        "files-inst-each-other": ["module A {\n    inst b: B;\n}\nmodule C {\n}\n", "module B {\n    inst c: C;\n}\n"],
        "files-three-cycle": ["package P {\n    const X: u32 = R::Z;\n}\n", "package Q {\n    const Y: u32 = P::X;\n}\n", "package R {\n    const Z: u32 = 1;\n    const W: u32 = Q::Y;\n}\n"],
        "files-dup-module": ["module A {\n}\n", "module A {\n}\n"],
        "files-type-cross": ["package P {\n    type T = Q::U;\n    struct S {\n        a: logic,\n    }\n}\n", "package Q {\n    type U = P::S;\n}\nmodule A {\n    var a: P::T;\n    assign a.a = 0;\n}\n"],
        "files-same-text": ["module A {\n    var a: logic;\n    assign a = 0;\n}\n"] * 3,
    }
    for k, v in multi.items():
        out.append(("multi:" + k, v))
    return out


# deepest nesting of each family that the parser's depth cap (1152) still accepts, minus a margin
DEEP_FIT = {"genif": 215, "genfor": 215, "genblock": 220, "ifstmt": 180, "forstmt": 180, "paren": 220, "concat": 155,
            "ifexpr": 155, "caseexpr": 180, "call": 80, "index": 135}

_ID_RE = re.compile(r"[A-Za-z_][A-Za-z0-9_]*$")
_NUM_RE = re.compile(r"[0-9][0-9a-zA-Z_']*$")
KEYSET = set(KEYWORDS) | {"posedge", "negedge", "msb", "lsb", "step", "repeat", "default", "sv", "inline"}


def mutate_parseable(rng, text):
    """token-level mutation aimed at programs that still parse: swap identifiers, replace numbers by
    extremes, delete/duplicate whole statements (token runs ending in ';' or '}'), undefined names."""
    toks = tokens(text)
    idents = [t for t in toks if _ID_RE.match(t) and t not in KEYSET]
    for _ in range(rng.randint(1, 3)):
        if not toks:
            break
        k = rng.randrange(10)
        idx_id = [i for i, t in enumerate(toks) if _ID_RE.match(t) and t not in KEYSET]
        idx_num = [i for i, t in enumerate(toks) if _NUM_RE.match(t)]
        if k in (0, 1) and idx_id:
            i = rng.choice(idx_id)
            toks[i] = rng.choice(UNDEFINED[:3]) if rng.random() < 0.4 else rng.choice(idents)
        elif k in (2, 3, 4) and idx_num:
            i = rng.choice(idx_num)
            toks[i] = rng.choice(LOOP_COUNTS)      # (a replaced number may be a loop bound: see LOOP_COUNTS)
        elif k == 5:
            i = rng.randrange(len(toks))
            del toks[i]
        elif k == 6:
            i = rng.randrange(len(toks))
            toks.insert(i, toks[i])
        elif k == 7:
            # delete a statement-like run
            ends = [i for i, t in enumerate(toks) if t in (";", "}")]
            if len(ends) >= 2:
                a = rng.randrange(len(ends) - 1)
                del toks[ends[a] + 1: ends[a + 1] + 1]
        elif k == 8:
            ends = [i for i, t in enumerate(toks) if t == ";"]
            if len(ends) >= 2:
                a = rng.randrange(len(ends) - 1)
                run = toks[ends[a] + 1: ends[a + 1] + 1]
                toks[ends[a] + 1: ends[a] + 1] = run * rng.choice([1, 2])
        else:
            i, j = rng.randrange(len(toks)), rng.randrange(len(toks))
            if idx_id and len(idx_id) >= 2:
                i, j = rng.sample(idx_id, 2)
            toks[i], toks[j] = toks[j], toks[i]
    return "".join(toks)


def P(files):
    if len(files) == 1:
        return H(files[0])
    return "P %d %s" % (len(files), " ".join("H:" + hexs(f.encode("utf8")) for f in files))


def files_of(wire):
    t = wire.split()
    if t[0] == "P":
        out = []
        for f in t[2:]:
            k, v = f.split(":", 1)
            out.append(unhex(v).decode("utf8") if k == "H" else open(v, "rb").read().decode("utf8"))
        return out
    return [text_of(wire)]


# ------------------------------------------------------------------------------------------ attributes
# Directed family: conditional-compilation attributes in every order and position (dangling / repeated /
# misordered `else`, `elsif`), and the other attributes with odd arguments.  What a file looks like while the
# `#[ifdef(X)]` line above an `#[else]` is being edited away.

COND_ATTRS = ["#[ifdef(X)]", "#[ifndef(X)]", "#[elsif(Y)]", "#[else]", "#[else]\n#[else]", "#[else]\n#[elsif(Y)]",
              "#[ifdef(X)]\n#[else]", "#[elsif(X)]\n#[ifdef(Y)]", "#[ifdef(X)]\n#[ifdef(Y)]", "#[ifndef(X)]\n#[elsif(Y)]\n#[else]",
              "#[elsif(Y)]\n#[elsif(Z)]", "#[else]\n#[ifdef(X)]"]
ODD_ATTRS = ["#[sv(\"\")]", "#[sv(\"a\\\"b\\\\\")]", "#[sv(\"keep\")]\n#[sv(\"keep\")]", "#[allow(unused_variable)]", "#[allow(nothing)]",
             "#[allow(missing_port, unused_variable)]", "#[fmt(skip)]", "#[fmt(compact)]", "#[fmt(zzz)]", "#[test(t)]", "#[test(t, A)]",
             "#[enum_encoding(onehot)]", "#[enum_encoding(nothing)]", "#[enum_member_prefix(p)]", "#[cond_type(unique)]", "#[cond_type(x)]",
             "#[align(number)]", "#[align(number, identifier)]", "#[align(zzz)]", "#[ifdef(X, Y)]", "#[else(X)]", "#[elsif]", "#[ifdef]",
             "#[unknown]", "#[unknown(1)]", "#[sv(x)]", "#[allow(\"s\")]", "#[expand(modport)]", "#[expand(zzz)]"]

# (name, text with {A} before the first item, {B} before the second/last item)
ATTR_POSITIONS = [
    ("top", "{A}module A {{\n}}\n{B}module B {{\n}}\n"),
    ("module-body", "module A {{\n{A}    let _a: logic = 1;\n{B}    let _b: logic = 1;\n}}\n"),
    ("module-body-group", "module A {{\n{A}    {{\n        let _a: logic = 1;\n    }}\n{B}    {{\n        let _b: logic = 1;\n    }}\n}}\n"),
    ("package-body", "package P {{\n{A}    const X: u32 = 1;\n{B}    const Y: u32 = 2;\n}}\n"),
    ("interface-body", "interface I {{\n{A}    var a: logic;\n{B}    var b: logic;\n}}\n"),
    ("port", "module A (\n{A}    a: input logic,\n{B}    b: input logic,\n) {{\n}}\n"),
    ("param", "module A #(\n{A}    param X: u32 = 1,\n{B}    param Y: u32 = 1,\n) {{\n}}\n"),
    ("struct-member", "module A {{\n    struct S {{\n{A}        a: logic,\n{B}        b: logic,\n    }}\n}}\n"),
    ("enum-member", "module A {{\n    enum E {{\n{A}        X,\n{B}        Y,\n    }}\n}}\n"),
    ("modport-member", "interface I {{\n    var a: logic;\n    var b: logic;\n    modport m {{\n{A}        a: input,\n{B}        b: input,\n    }}\n}}\n"),
    ("statement", "module A {{\n    var _d: logic;\n    always_comb {{\n{A}        _d = 0;\n{B}        _d = 1;\n    }}\n}}\n"),
    ("statement-block", "module A {{\n    var _d: logic;\n    always_comb {{\n        _d = 0;\n{A}        block {{\n            _d = 1;\n        }}\n{B}        block {{\n            _d = 0;\n        }}\n    }}\n}}\n"),
    ("inst-port", "module B (\n    a: input logic,\n    b: input logic,\n) {{\n}}\nmodule A {{\n    inst u: B (\n{A}        a: 0,\n{B}        b: 0,\n    );\n}}\n"),
    ("generate", "module A {{\n    if 1 :g {{\n{A}        let _a: logic = 1;\n{B}        let _b: logic = 1;\n    }}\n}}\n"),
    # inside `{ }` groups and blocks: check_attribute.rs walks only the outer lists, so nothing rejects a dangling
    # #[else] / #[elsif] here and it reaches the emitter as the FIRST item of a fresh document buffer
    ("in-module-group", "module A {{\n    {{\n{A}        let _a: logic = 1;\n{B}        let _b: logic = 1;\n    }}\n}}\n"),
    ("in-guarded-module-group", "module A {{\n    #[ifdef(X)]\n    {{\n{A}        let _a: logic = 1;\n{B}        let _b: logic = 1;\n    }}\n}}\n"),
    ("in-package-group", "package P {{\n    {{\n{A}        const X: u32 = 1;\n{B}        const Y: u32 = 2;\n    }}\n}}\n"),
    ("in-interface-group", "interface I {{\n    {{\n{A}        var a: logic;\n{B}        var b: logic;\n    }}\n}}\n"),
    ("in-top-group", "{{\n{A}    module A {{\n    }}\n{B}    module B {{\n    }}\n}}\n"),
    ("in-port-group", "module A (\n    {{\n{A}        a: input logic,\n{B}        b: input logic,\n    }},\n) {{\n}}\n"),
    ("in-param-group", "module A #(\n    {{\n{A}        param X: u32 = 1,\n{B}        param Y: u32 = 1,\n    }},\n) {{\n}}\n"),
    ("in-struct-group", "module A {{\n    struct S {{\n        {{\n{A}            a: logic,\n{B}            b: logic,\n        }},\n    }}\n}}\n"),
    ("in-enum-group", "module A {{\n    enum E {{\n        {{\n{A}            X,\n{B}            Y,\n        }},\n    }}\n}}\n"),
    ("in-modport-group", "interface I {{\n    var a: logic;\n    var b: logic;\n    modport m {{\n        {{\n{A}            a: input,\n{B}            b: input,\n        }},\n    }}\n}}\n"),
    ("in-inst-port-group", "module B (\n    a: input logic,\n    b: input logic,\n) {{\n}}\nmodule A {{\n    inst u: B (\n        {{\n{A}            a: 0,\n{B}            b: 0,\n        }},\n    );\n}}\n"),
    ("in-statement-block", "module A {{\n    var _d: logic;\n    always_comb {{\n        _d = 0;\n        block {{\n{A}            _d = 1;\n{B}            _d = 0;\n        }}\n    }}\n}}\n"),
    ("in-generate-else", "module A {{\n    if 0 :g {{\n    }} else {{\n{A}        let _a: logic = 1;\n{B}        let _b: logic = 1;\n    }}\n}}\n"),
    ("in-generate-for", "module A {{\n    for i in 0..1 :g {{\n{A}        let _a: logic = 1;\n{B}        let _b: logic = 1;\n    }}\n}}\n"),
    ("in-unsafe", "module A {{\n    unsafe (cdc) {{\n{A}        let _a: logic = 1;\n{B}        let _b: logic = 1;\n    }}\n}}\n"),
    ("in-if-statement", "module A {{\n    var _d: logic;\n    always_comb {{\n        if 1 {{\n{A}            _d = 1;\n{B}            _d = 0;\n        }} else {{\n            _d = 0;\n        }}\n    }}\n}}\n"),
    ("in-function-first", "module A {{\n    function f () -> logic {{\n{A}        let x: logic = 0;\n{B}        return x;\n    }}\n    let _x: logic = f();\n}}\n"),
    ("function-body", "module A {{\n    function f () -> logic {{\n{A}        return 0;\n    }}\n{B}    let _x: logic = f();\n}}\n"),
]


def _attr_text(pos_text, a, b):
    def ind(x):
        return "".join("    " + l + "\n" for l in x.split("\n")) if x else ""
    return pos_text.format(A=ind(a), B=ind(b))


def attribute_programs(rng, tier):
    """(tag, [text]): every attribute alone in front of the first item and of the last item of every position,
    plus ordered pairs of conditional attributes (all of them in the thorough tier)."""
    out = []
    for pname, ptext in ATTR_POSITIONS:
        for a in COND_ATTRS + ODD_ATTRS:
            out.append(("attr:" + pname, [_attr_text(ptext, a, "")]))
            out.append(("attr:" + pname, [_attr_text(ptext, "", a)]))
        pairs = [(a, b) for a in COND_ATTRS for b in COND_ATTRS]
        if tier == "quick":
            rng.shuffle(pairs)
            pairs = pairs[:12]
        for a, b in pairs:
            out.append(("attr-pair:" + pname, [_attr_text(ptext, a, b)]))
    return out
