"""Generators for C31 (dependency resolution): scenarios = local git repositories with release
histories + a root project + a sequence of lockfile operations.

A scenario is a list of EVENTS (python dicts):
  {"ev": "release", "repo", "project", "version", "decls", "props", "front"}   commit + Veryl.pub rewrite
  {"ev": "yank", "repo", "project", "version"}                                  release removed from Veryl.pub
  {"ev": "local", "name", "decls", "props"}                                     local project {ROOT}/locals/<name>
  {"ev": "root", "decls"}                                                       root project {ROOT}/root
  {"ev": "op", "op": new|update|save|load|flow|wipe_cache, "force"}

A declaration:
  {"name", "kind": git|path|invalid, "repo", "form": file|abs|rel, "project", "explicit": bool,
   "req", "override": local name|None, "local": local name, "abs": bool, "props": {k: v}}

Everything the harness needs (ops) and everything the Coq model needs (worlds as numbers) is
derived from the event list by `Sim`.
"""
import json

VERSIONS = ["0.0.3", "0.1.0", "0.1.5", "0.2.0", "1.0.0-alpha", "1.0.0-beta.2", "1.0.0", "1.0.1", "1.2.0",
            "1.2.0+build5", "1.3.0-rc.1", "1.9.0", "1.10.0", "2.0.0-rc.1", "2.0.0", "2.1.3", "10.0.0"]
REQS = ["1", "^1.0", "~1.0", ">=1.0.1", "<1.10", ">=1.2, <2", "=1.0.0", "*", "0.1", "^0.1.2", "~0.1",
        ">=1.0.0-alpha", "^1.3.0-rc.0", "2", "<1.0.0", ">=0.0.1", "1.*", "^0.0.3", ">=2.0.0-rc.0", "^1.2",
        "~1.2", ">1.0.0", "<=1.9", "0", ">=10", "^2.0.0-rc.1", "=1.2.0"]
NAMES = ["a", "b", "util", "util_0", "util_1", "core", "lib", "x", "a_0", "dep"]


def url_of(repo, form):
    if form == "file":
        return "file://{ROOT}/repos/" + repo
    if form == "abs":
        return "{ROOT}/repos/" + repo
    return "../repos/" + repo


def local_path(name, absolute):
    return ("{ROOT}/locals/" + name) if absolute else ("../locals/" + name)


def prop_toml(v):
    if isinstance(v, bool):
        return "true" if v else "false"
    return str(v)


def decl_toml(d, from_local=False):
    """TOML line for a declaration.  Path dependencies of a LOCAL project are relative to that
    project ({ROOT}/locals/<x> -> ../<y>)."""
    parts = []
    if d["kind"] == "invalid":
        return '%s = "1.0.0"' % d["name"]
    if d["kind"] == "git":
        parts.append('git = "%s"' % url_of(d["repo"], d["form"]))
        parts.append('version = "%s"' % d["req"])
        if d.get("explicit", True):
            parts.append('project = "%s"' % d["project"])
        if d.get("override"):
            parts.append('path = "%s"' % local_path(d["override"], False))
    else:
        if d.get("abs"):
            parts.append('path = "%s"' % local_path(d["local"], True))
        elif from_local:
            parts.append('path = "../%s"' % d["local"])
        else:
            parts.append('path = "%s"' % local_path(d["local"], False))
    if d.get("props"):
        parts.append("properties = {%s}" % ", ".join("%s = %s" % (k, prop_toml(v)) for k, v in d["props"].items()))
    return "%s = {%s}" % (d["name"], ", ".join(parts))


def project_toml(name, version, decls, props, from_local=False):
    s = '[project]\nname = "%s"\nversion = "%s"\n' % (name, version)
    if props:
        s += "[properties]\n" + "".join("%s = %s\n" % (k, prop_toml(v)) for k, v in sorted(props.items()))
    if decls:
        s += "[dependencies]\n" + "".join(decl_toml(d, from_local) + "\n" for d in decls)
    return s


class Sim:
    """Replays the event list: produces harness ops, and for every lockfile op the state of the
    world (what is published where, what every revision's Veryl.toml declares)."""

    def __init__(self, events, repos):
        self.events = events
        self.repos = repos            # rname -> {pname: subpath}
        self.ops = []                 # harness ops
        self.op_info = []             # per harness op: None | dict(kind, world snapshot, root decls, force)
        self.pubs = {}                # (repo, project) -> [(version, tag)] in file order
        self.content = {}             # (repo, project) -> (version, decls, props) current files
        self.commits = {}             # (repo, tag) -> {project: (version, decls, props)}
        self.locals = {}              # name -> (decls, props)
        self.root = []
        self.ntag = 0
        self._pending_pubs = []
        self._run()
        self._flush_pubs()

    def _snapshot(self):
        return {"pubs": {k: list(v) for k, v in self.pubs.items()},
                "commits": self.commits,      # grows monotonically; entries never change
                "ncommits": set(self.commits.keys()),
                "locals": dict(self.locals),
                "root": list(self.root)}

    def _run(self):
        for e in self.events:
            k = e["ev"]
            if k == "release":
                r, p = e["repo"], e["project"]
                self.content[(r, p)] = (e["version"], e["decls"], e.get("props", {}))
                files = {}
                for (rr, pp), (ver, decls, props) in self.content.items():
                    if rr == r:
                        sub = self.repos[r][pp]
                        files[(sub + "/" if sub else "") + "Veryl.toml"] = project_toml(pp, ver, decls, props)
                # projects of the repository that have no content yet get a placeholder
                for pp, sub in self.repos[r].items():
                    if (r, pp) not in self.content:
                        self.content[(r, pp)] = ("0.0.0", [], {})
                        files[(sub + "/" if sub else "") + "Veryl.toml"] = project_toml(pp, "0.0.0", [], {})
                self.ntag += 1
                tag = "c%d" % self.ntag
                self.ops.append({"op": "commit", "repo": r, "files": files, "tag": tag})
                self.op_info.append(None)
                self.commits[(r, tag)] = {pp: self.content[(r, pp)] for pp in self.repos[r]}
                rel = self.pubs.setdefault((r, p), [])
                if e.get("front"):
                    rel.insert(0, (e["version"], tag))
                else:
                    rel.append((e["version"], tag))
                self._pending_pubs.append((r, p))
            elif k == "yank":
                r, p = e["repo"], e["project"]
                self.pubs[(r, p)] = [x for x in self.pubs.get((r, p), []) if x[0] != e["version"]]
                self._pending_pubs.append((r, p))
            elif k == "local":
                self.locals[e["name"]] = (e["decls"], e.get("props", {}))
                self.ops.append({"op": "write", "path": "locals/%s/Veryl.toml" % e["name"],
                                 "text": project_toml(e["name"], "0.1.0", e["decls"], e.get("props", {}), True)})
                self.op_info.append(None)
            elif k == "root":
                self.root = e["decls"]
                self.ops.append({"op": "write", "path": "root/Veryl.toml",
                                 "text": project_toml("main", "0.1.0", e["decls"], {})})
                self.op_info.append(None)
            elif k == "op":
                self._flush_pubs()
                o = {"op": e["op"]}
                if e["op"] == "update":
                    o["force"] = bool(e.get("force"))
                self.ops.append(o)
                if e["op"] == "wipe_cache":
                    self.op_info.append(None)
                else:
                    info = self._snapshot()
                    info["kind"] = e["op"]
                    info["force"] = bool(e.get("force"))
                    self.op_info.append(info)
            else:
                raise ValueError(k)

    def _flush_pubs(self):
        """Veryl.pub is rewritten (one commit per project) only when a lockfile operation is about to
        look at it: a run of releases needs one publish commit, not one per release"""
        seen = []
        for rp in self._pending_pubs:
            if rp not in seen:
                seen.append(rp)
        self._pending_pubs = []
        for r, p in seen:
            self._pub(r, p)

    def _pub(self, r, p):
        sub = self.repos[r][p]
        self.ops.append({"op": "pub", "repo": r, "path": sub,
                         "releases": [{"version": v, "rev": t} for v, t in self.pubs[(r, p)]]})
        self.op_info.append(None)

    def versions_reqs(self):
        vs, rs = [], []

        def decls_of(ds):
            for d in ds:
                if d["kind"] == "git" and d["req"] not in rs:
                    rs.append(d["req"])
        for e in self.events:
            if e["ev"] == "release":
                if e["version"] not in vs:
                    vs.append(e["version"])
                decls_of(e["decls"])
            elif e["ev"] in ("local", "root"):
                decls_of(e["decls"])
        if "0.0.0" not in vs:
            vs.append("0.0.0")
        return vs, rs


def scenario_line(sc, sdir, timing=False):
    sim = sc["sim"]
    vs, rs = sim.versions_reqs()
    return json.dumps({"dir": sdir, "backend": sc["backend"], "versions": vs, "reqs": rs, "ops": sim.ops,
                       "timing": timing})


# ------------------------------------------------------------------------------------ generation

def g(name, repo, req, project=None, form="file", explicit=True, override=None, props=None):
    return {"name": name, "kind": "git", "repo": repo, "form": form, "project": project or repo,
            "explicit": explicit if project else (name != repo or explicit), "req": req,
            "override": override, "props": props or {}}


def pth(name, local, absolute=False, props=None):
    return {"name": name, "kind": "path", "local": local, "abs": absolute, "props": props or {}}


def rel(repo, version, decls=(), project=None, props=None, front=False):
    return {"ev": "release", "repo": repo, "project": project or repo, "version": version,
            "decls": list(decls), "props": props or {}, "front": front}


def op(name, force=False):
    return {"ev": "op", "op": name, "force": force}


def root(decls):
    return {"ev": "root", "decls": list(decls)}


def local(name, decls=(), props=None):
    return {"ev": "local", "name": name, "decls": list(decls), "props": props or {}}


STD_TAIL = [op("new"), op("new"), op("update"), op("save"), op("load"), op("update")]


def mk(tag, repos, events, backend="command"):
    return {"tag": tag, "repos": repos, "events": events, "backend": backend,
            "sim": Sim(events, repos)}


def corpus():
    """hand-written scenarios: every shape the property names, plus the confirmed findings"""
    out = []
    one = lambda *names: {n: {n: ""} for n in names}
    # direct, versions published out of order, numeric vs lexicographic, prerelease
    out.append(mk("direct-order", one("p"), [
        rel("p", "1.9.0"), rel("p", "1.10.0"), rel("p", "1.2.0", front=True), rel("p", "2.0.0-rc.1"),
        rel("p", "1.0.0"),
        root([g("p", "p", "1", explicit=False)])] + STD_TAIL + [
        root([g("p", "p", "<1.10", explicit=False)]), op("update"), op("update"),
        root([g("p", "p", ">=2.0.0-rc.0", explicit=False)]), op("update"), op("update"),
        root([g("p", "p", "3", explicit=False)]), op("update")]))
    # the name-suffix case that used to depend on HashMap order (fixed): a.util and b.util
    out.append(mk("suffix-two-utils", one("u1", "u2", "a", "b"), [
        rel("u1", "1.0.0"), rel("u2", "1.0.0"),
        rel("a", "1.0.0", [g("util", "u1", "1", project="u1")]),
        rel("b", "1.0.0", [g("util", "u2", "1", project="u2")]),
        root([g("a", "a", "1", explicit=False), g("b", "b", "1", explicit=False),
              g("util", "u1", "1", project="u1")])] + [op("new")] * 2 + STD_TAIL))
    # literal util_0 declared at the root: the loop must skip to util_1
    out.append(mk("suffix-literal", one("u1", "u2", "u3", "a"), [
        rel("u1", "1.0.0"), rel("u2", "1.0.0"), rel("u3", "1.0.0"),
        rel("a", "1.0.0", [g("util", "u3", "1", project="u3"), g("util_0", "u3", "1", project="u3")]),
        root([g("a", "a", "1", explicit=False), g("util", "u1", "1", project="u1"),
              g("util_0", "u2", "1", project="u2")])] + STD_TAIL))
    # diamond with two requirements -> two versions of d, then lock preference after a new release
    out.append(mk("diamond", one("a", "b", "d"), [
        rel("d", "1.0.0"), rel("d", "1.2.0"), rel("d", "2.0.0"),
        rel("a", "1.0.0", [g("d", "d", "^1.0", explicit=False)]),
        rel("b", "1.0.0", [g("d", "d", ">=1.0.1", explicit=False)]),
        root([g("a", "a", "1", explicit=False), g("b", "b", "1", explicit=False)])] + STD_TAIL + [
        rel("d", "1.9.0"), rel("d", "2.1.3"), op("update"), op("update"), op("update", True), op("update"),
        op("save"), op("load"), op("update")]))
    # same project under two names at the root: same release -> error; different releases -> fine
    out.append(mk("alias-conflict", one("p"), [
        rel("p", "1.0.0"), rel("p", "2.0.0"),
        root([g("p1", "p", "1", project="p"), g("p2", "p", "^1.0", project="p")]), op("new"),
        root([g("p1", "p", "1", project="p"), g("p2", "p", "2", project="p")])] + STD_TAIL))
    # finding: an update that adds a higher lock of the same project makes the NEXT update move x
    out.append(mk("update-twice", one("p", "q"), [
        rel("p", "1.0.0"),
        root([g("x", "p", "1", project="p")]), op("flow"),
        rel("p", "1.5.0"),
        rel("q", "1.0.0", [g("p", "p", ">=1.2", explicit=False)]),
        root([g("x", "p", "1", project="p"), g("q", "q", "1", explicit=False)]),
        op("flow"), op("flow"), op("flow")]))
    # path dependencies (relative, absolute, nested), git dependency of a local project, override
    out.append(mk("paths", one("p"), [
        rel("p", "1.0.0"), rel("p", "1.0.1"),
        local("loc2"), local("loc1", [pth("loc2", "loc2"), g("p", "p", "=1.0.0", explicit=False)]),
        local("ovr", [], {}),
        root([pth("loc1", "loc1"), pth("l2", "loc2", absolute=True), g("p", "p", "1", explicit=False, override="ovr")])]
        + STD_TAIL))
    # two projects in one repository + properties overriding
    out.append(mk("inner-props", {"mono": {"ia": "a_prj", "ib": "sub/b_prj"}, "t": {"t": ""}}, [
        rel("t", "1.0.0", props={"W": 8, "E": True}),
        rel("mono", "0.1.0", project="ia"), rel("mono", "0.1.0", [g("t", "t", "1", explicit=False, props={"W": 16})], project="ib"),
        rel("mono", "0.1.5", [g("t", "t", "1", explicit=False, props={"W": 32})], project="ia"),
        root([g("ia", "mono", "0.1", project="ia", explicit=False), g("ib", "mono", "0.1", project="ib", explicit=False),
              g("t", "t", "1", explicit=False, props={"E": False})])] + STD_TAIL))
    # errors
    out.append(mk("errors", one("p", "q"), [
        rel("p", "1.0.0", props={"W": 1}), rel("q", "1.0.0", [g("p", "p", "2", explicit=False)]),
        root([g("p", "p", "2", explicit=False)]), op("new"),
        root([g("q", "q", "1", explicit=False)]), op("new"),
        root([g("zz", "p", "1", project="nope")]), op("new"),
        root([g("p", "p", "1", explicit=False, props={"X": 1})]), op("new"),
        root([g("p", "p", "1", explicit=False, props={"W": True})]), op("new"),
        root([{"name": "v", "kind": "invalid", "props": {}}]), op("new"),
        root([pth("nx", "missing")]), op("new"),
        root([g("p", "p", "1", explicit=False)]), op("new"), op("update"),
        root([g("p", "p", "2", explicit=False)]), op("update"), op("update")]))
    # cycle a -> b -> a
    out.append(mk("cycle", one("a", "b"), [
        rel("a", "1.0.0", [g("b", "b", "1", explicit=False)]), rel("b", "1.0.0", [g("a", "a", "1", explicit=False)]),
        rel("a", "1.0.1", [g("b", "b", "1", explicit=False)]),
        root([g("a", "a", "=1.0.0", explicit=False)])] + STD_TAIL))
    return out


def gen_scenario(rng, idx, matrix=None):
    """random layered dependency graph with release histories and an operation history.
    matrix[(req, version)] -> bool (what the real semver crate says), used to make most
    requirements satisfiable by the target project's releases."""
    nrepo = rng.choice([2, 3, 3, 4, 5])
    repos = {}
    projects = []           # (repo, project, level)
    for i in range(nrepo):
        rn = "r%d" % i
        if rng.random() < 0.15:
            repos[rn] = {"p%da" % i: "pa", "p%db" % i: rng.choice(["pb", "deep/pb"])}
        else:
            repos[rn] = {"p%d" % i: ""}
        for pn in repos[rn]:
            projects.append((rn, pn, i))
    forms = {rn: rng.choice(["file", "file", "file", "abs", "rel"]) for rn in repos}
    locals_ = ["loc%d" % i for i in range(rng.choice([0, 0, 1, 2]))]
    proj_props = {}
    for (rn, pn, i) in projects:
        proj_props[(rn, pn)] = ({"W": rng.choice([1, 8, -3]), "E": rng.random() < 0.5} if rng.random() < 0.3 else {})
    local_props = {l: ({"W": 4} if rng.random() < 0.3 else {}) for l in locals_}
    tags = set()
    # release histories first, so that requirements can be chosen against them
    hist = {}
    for (rn, pn, i) in projects:
        fam = rng.choice([None, None, "1.", "0.", "2."])
        pool = [v for v in VERSIONS if fam is None or v.startswith(fam)] or VERSIONS
        hist[(rn, pn)] = rng.sample(pool, min(len(pool), rng.randint(1, 5)))

    def pick_req(rn, pn):
        if matrix is None or rng.random() < 0.04:
            return rng.choice(REQS)
        ok = [r for r in REQS if any(matrix.get((r, v)) for v in hist[(rn, pn)])]
        if not ok:
            return rng.choice(REQS)
        # prefer requirements that do not match everything
        narrow = [r for r in ok if not all(matrix.get((r, v)) for v in hist[(rn, pn)])]
        return rng.choice(narrow if narrow and rng.random() < 0.6 else ok)

    def mk_decl(level, used_names):
        # a dependency onto a project of a later repository (acyclic) — rarely onto any (cycles)
        later = [p for p in projects if p[2] > level]
        if level >= 0 and rng.random() < 0.06:
            later = [p for p in projects if p[2] != level] or later
            tags.add("cycle?")
        if not later:
            return None
        rn, pn, _ = rng.choice(later)
        r = rng.random()
        if r < 0.45:
            name, explicit = pn, rng.random() < 0.4
        else:
            name, explicit = rng.choice(NAMES), True
        if name in used_names:
            return None
        form = forms[rn] if rng.random() < 0.93 else rng.choice(["file", "abs", "rel"])
        d = g(name, rn, pick_req(rn, pn), project=pn, form=form, explicit=explicit)
        d["explicit"] = explicit or name != pn
        pp = proj_props[(rn, pn)]
        if pp and rng.random() < 0.4:
            k = rng.choice(sorted(pp))
            d["props"] = {k: (not pp[k]) if isinstance(pp[k], bool) else rng.choice([2, 16, pp[k]])}
            tags.add("props")
        return d

    def mk_decls(level, maxn):
        ds, used = [], set()
        for _ in range(rng.randint(0, maxn)):
            d = mk_decl(level, used)
            if d:
                used.add(d["name"])
                ds.append(d)
        return ds

    events = []
    for (rn, pn, i) in projects:
        decls = mk_decls(i, 2)
        for v in hist[(rn, pn)]:
            if rng.random() < 0.3:
                decls = mk_decls(i, 2)
            events.append(rel(rn, v, decls, project=pn, props=proj_props[(rn, pn)], front=rng.random() < 0.2))
    rng.shuffle(events)
    for l in locals_:
        ds = mk_decls(-1, 2)
        others = [x for x in locals_ if x > l]
        if others and rng.random() < 0.5 and all(d["name"] != others[0] for d in ds):
            ds.append(pth(others[0], others[0]))
        events.append(local(l, ds, local_props[l]))

    def mk_root():
        ds, used = [], set()
        seen_prj = set()
        for _ in range(rng.randint(1, 4)):
            d = mk_decl(-1, used)
            if d and (d["repo"], d["project"]) in seen_prj and rng.random() < 0.85:
                d = None      # the same project twice at the root mostly ends in a uuid conflict: keep it rare
            if d:
                seen_prj.add((d["repo"], d["project"]))
                if locals_ and rng.random() < 0.08:
                    d["override"] = rng.choice(locals_)
                    tags.add("override")
                used.add(d["name"])
                ds.append(d)
        for l in locals_:
            if rng.random() < 0.6:
                nm = l if rng.random() < 0.7 else rng.choice(NAMES)
                if nm not in used:
                    used.add(nm)
                    lp = local_props[l]
                    ds.append(pth(nm, l, absolute=rng.random() < 0.2,
                                  props=({"W": 9} if lp and rng.random() < 0.4 else {})))
                    tags.add("path")
        if rng.random() < 0.03:
            ds.append({"name": "bad", "kind": "invalid", "props": {}})
        return ds

    rd = mk_root()
    events.append(root(rd))
    events += [op(rng.choice(["new", "new", "flow"]))]
    if events[-1]["op"] == "new":
        events += [op("new"), op("update"), op("save"), op("load"), op("update")]
    else:
        events += [op("flow"), op("load")]
    # history: new releases / changed declarations / yanks, then updates
    for _ in range(rng.choice([1, 1, 2, 2, 3])):
        r = rng.random()
        if r < 0.5:
            rn, pn, i = rng.choice(projects)
            cand = [v for v in VERSIONS if v not in hist[(rn, pn)]]
            if cand:
                v = rng.choice(cand)
                hist[(rn, pn)].append(v)
                events.append(rel(rn, v, mk_decls(i, 2), project=pn, props=proj_props[(rn, pn)], front=rng.random() < 0.2))
                tags.add("publish")
        elif r < 0.85:
            if rng.random() < 0.5 and rd:
                # change one requirement / add one declaration
                rd = [dict(d) for d in rd]
                k = rng.randrange(len(rd))
                if rd[k]["kind"] == "git":
                    rd[k]["req"] = pick_req(rd[k]["repo"], rd[k]["project"])
                extra = mk_decl(-1, set(d["name"] for d in rd))
                if extra:
                    rd.append(extra)
            else:
                rd = mk_root()
            events.append(root(rd))
            tags.add("redeclare")
        else:
            rn, pn, i = rng.choice(projects)
            if len(hist[(rn, pn)]) > 1:
                v = rng.choice(hist[(rn, pn)])
                hist[(rn, pn)].remove(v)
                events.append({"ev": "yank", "repo": rn, "project": pn, "version": v})
                tags.add("yank")
        k = rng.random()
        if k < 0.25:
            events += [op("update"), op("update")]
        elif k < 0.4:
            events += [op("update", True), op("update")]
            tags.add("force")
        elif k < 0.7:
            events += [op("flow"), op("flow")]
        elif k < 0.85:
            events += [op("new"), op("update"), op("update")]
        else:
            events += [op("save"), op("load"), op("update"), op("update")]
        if rng.random() < 0.3:
            events += [op("update")]
        if rng.random() < 0.15:
            events += [op("wipe_cache"), op("update")]
    if rng.random() < 0.5:
        events += [op("save"), op("load"), op("update")]
    backend = rng.choice(["command", "command", "gitoxide", "auto"])
    sc = mk("gen%d" % idx, repos, events, backend)
    sc["shape"] = sorted(tags) or ["plain"]
    return sc


# =====================================================================================================
# C25: multi-file Veryl projects (filelist order / completeness / path mapping)
# =====================================================================================================

def qual(s, t, dep_alias):
    return t["name"] if t["prj"] == s["prj"] else "%s::%s" % (dep_alias, t["name"])


def sym_text(s, syms, dep_alias):
    """Veryl text of one symbol; references only to earlier symbols (acyclic at the symbol level).
    s["forms"][ref] says HOW a package is referenced: const | iwild | iitem (imports in the body) |
    fwild | fitem (file-scope imports, emitted by file_imports); s["ginst"] = [(generic, package)]:
    instantiations of a generic module (type argument P::word_t) or generic package (const argument P::X)."""
    body = []
    forms = s.get("forms", {})
    for k, r in enumerate(s["refs"]):
        t = syms[r]
        if t.get("generic"):
            continue
        tn = qual(s, t, dep_alias)
        f = forms.get(r, "const")
        if f == "viaarg":
            continue                                   # the generic argument is the only link
        if t["kind"] == "package" and f in ("fwild", "fitem") and t["file"] != s["file"]:
            continue                                   # the file-scope import is the only link
        if t["kind"] == "package" and f == "iwild" and s["kind"] == "module":
            body.append("import %s::*;" % tn)
        elif t["kind"] == "package" and f == "iitem" and s["kind"] == "module":
            body.append("import %s::K%d; const c%d: u32 = K%d;" % (tn, t["id"], k, t["id"]))
        elif s["kind"] == "module":
            if t["kind"] == "module":
                body.append("inst u%d: %s;" % (k, tn))
            elif t["kind"] == "interface":
                body.append("inst i%d: %s;" % (k, tn))
            else:
                body.append("const c%d: u32 = %s::X;" % (k, tn))
        elif s["kind"] == "interface":
            body.append("const c%d: u32 = %s::X;" % (k, tn))
        else:
            body.append("const c%d: u32 = %s::X + 1;" % (k, tn))
    for k, (gi, pi) in enumerate(s.get("ginst", [])):
        gsym, psym = syms[gi], syms[pi]
        gn, pn = qual(s, gsym, dep_alias), qual(s, psym, dep_alias)
        if gsym["kind"] == "module":
            body.append("inst g%d: %s::<%s::word_t>;" % (k, gn, pn))
        else:
            body.append("const g%d: u32 = %s::<%s::X>::Y%s;" % (k, gn, pn, "" if s["kind"] != "package" else " + 1"))
    pub = "pub " if s["prj"] == "dep" else ""
    if s.get("generic"):
        if s["kind"] == "module":
            return "%smodule %s::<T: type> { var v: T; assign v = 0; }" % (pub, s["name"])
        return "%spackage %s::<V: u32> { const Y: u32 = V; }" % (pub, s["name"])
    if s["kind"] == "module":
        return "%smodule %s { %s }" % (pub, s["name"], " ".join(body))
    if s["kind"] == "interface":
        return "%sinterface %s { %s var v: logic; modport mp { v: input } }" % (pub, s["name"], " ".join(body))
    return "%spackage %s { const X: u32 = %d; const K%d: u32 = %d; type word_t = logic<%d>; %s }" % (
        pub, s["name"], 1 + s["id"], s["id"], 2 + s["id"], 1 + s["id"] % 7, " ".join(body))


def file_imports(ids, syms, dep_alias):
    """file-scope imports (before the first item of the file) for references of form fwild / fitem"""
    out = []
    for i in ids:
        s = syms[i]
        for r in s["refs"]:
            t = syms[r]
            f = s.get("forms", {}).get(r)
            if t["kind"] == "package" and not t.get("generic") and f in ("fwild", "fitem") and t["file"] != s["file"]:
                ln = "import %s::%s;" % (qual(s, t, dep_alias), "*" if f == "fwild" else "K%d" % t["id"])
                if ln not in out:
                    out.append(ln)
    return out


def allowed_ref(user, target):
    if user["prj"] == "dep" and target["prj"] != "dep":
        return False
    if user["kind"] == "module":
        return True
    return target["kind"] == "package"


def file_graph(syms):
    edges = set()
    for s in syms:
        for r in s["refs"]:
            if syms[r]["file"] != s["file"]:
                edges.add((s["file"], syms[r]["file"]))     # user -> definition
        # an instance of a generic is emitted into the generic's file: that file needs the argument's package
        for gi, pi in s.get("ginst", []):
            if syms[gi]["file"] != syms[pi]["file"]:
                edges.add((syms[gi]["file"], syms[pi]["file"]))
    return edges


def acyclic(nodes, edges):
    out = {}
    for a, b in edges:
        out.setdefault(a, set()).add(b)
    state = {}

    def visit(n):
        if state.get(n) == 1:
            return False
        if state.get(n) == 2:
            return True
        state[n] = 1
        for m in out.get(n, ()):
            if not visit(m):
                return False
        state[n] = 2
        return True
    return all(visit(n) for n in nodes)


def gen_project(rng, idx, force=None):
    """returns a dict describing a scratch layout: files, settings, and the generator's knowledge
    (symbols, which file defines what, reference edges)."""
    force = force or {}
    for _attempt in range(40):
        with_dep = force.get("dep", rng.random() < 0.35)
        nsym = rng.randint(3, 10)
        syms = []
        ndep = rng.randint(1, 4) if with_dep else 0
        for i in range(ndep + nsym):
            prj = "dep" if i < ndep else "main"
            kind = rng.choice(["module", "module", "module", "package", "package", "interface"])
            generic = kind in ("module", "package") and rng.random() < 0.18
            s = {"id": i, "prj": prj, "kind": kind,
                 "name": ("G" if generic else "") + {"module": "M", "package": "P", "interface": "I"}[kind] + ("d" if prj == "dep" else "") + str(i),
                 "refs": [], "forms": {}, "ginst": []}
            if generic:
                s["generic"] = True
                syms.append(s)
                continue
            cands = [t for t in syms if allowed_ref(s, t)]
            pkgs = [t for t in cands if t["kind"] == "package" and not t.get("generic")]
            for _ in range(rng.choice([0, 1, 1, 2, 3])):
                if cands:
                    t = rng.choice(cands)
                    if t.get("generic"):
                        # 1-3 instantiations with arguments P::word_t / P::X (the same last identifier in every package)
                        if not pkgs or (t["kind"] == "module" and s["kind"] != "module"):
                            continue
                        okp = [x for x in pkgs if not (t["prj"] == "dep" and x["prj"] != "dep")]
                        for pk in rng.sample(okp, min(len(okp), rng.randint(1, 3))):
                            if (t["id"], pk["id"]) not in s["ginst"]:
                                s["ginst"].append((t["id"], pk["id"]))
                                for x in (t["id"], pk["id"]):
                                    if x not in s["refs"]:
                                        s["refs"].append(x)
                                        s["forms"][x] = "const" if x == t["id"] else "viaarg"
                        continue
                    if t["id"] not in s["refs"]:
                        s["refs"].append(t["id"])
                        if t["kind"] == "package":
                            s["forms"][t["id"]] = rng.choice(["const", "const", "fwild", "fitem", "iwild", "iitem"])
            # make instantiations of generics common: every generic that can be used here gets a chance
            for t in cands:
                if t.get("generic") and rng.random() < 0.5 and (t["kind"] == "package" or s["kind"] == "module"):
                    okp = [x for x in pkgs if not (t["prj"] == "dep" and x["prj"] != "dep")]
                    for pk in rng.sample(okp, min(len(okp), rng.randint(1, 3))):
                        if (t["id"], pk["id"]) not in s["ginst"]:
                            s["ginst"].append((t["id"], pk["id"]))
                            for x in (t["id"], pk["id"]):
                                if x not in s["refs"]:
                                    s["refs"].append(x)
                                    s["forms"][x] = "const" if x == t["id"] else "viaarg"
            syms.append(s)
        # files
        roots = force.get("roots") or rng.choice([["src"], ["src"], ["src", "rtl"], ["hdl/core"], ["."]])
        subdirs = ["", "", "x", "y", "x/deep"]
        fnames = [pre + b for pre in ("", "", "aa_", "mm_", "zz_") for b in ("a", "b", "c", "top", "pkg", "a.b")]
        files = {}           # (prj, relpath) -> [symbol ids]
        mains = [s for s in syms if s["prj"] == "main"]
        deps = [s for s in syms if s["prj"] == "dep"]
        used_rel = set()
        for group, roots_ in ((mains, roots), (deps, ["src"])):
            pool = list(group)
            rng.shuffle(pool)
            while pool:
                n = min(len(pool), rng.choice([1, 1, 2, 2, 3]))
                chunk, pool = pool[:n], pool[n:]
                for _ in range(50):
                    root = rng.choice(roots_)
                    rel = "/".join(x for x in (rng.choice(subdirs), rng.choice(fnames) + ".veryl") if x)
                    # the same relative path under two source roots is the known collision: avoided here
                    if (group is mains and rel in used_rel):
                        continue
                    key = ("main" if group is mains else "dep", (root + "/" if root != "." else "") + rel)
                    if key in files:
                        continue
                    break
                else:
                    continue
                if group is mains:
                    used_rel.add(rel)
                files[key] = [s["id"] for s in chunk]
                for s in chunk:
                    s["file"] = key
                    s["root"] = root
        if any("file" not in s for s in syms):
            continue
        edges = file_graph(syms)
        ok = acyclic(list(files), edges)
        want_cyclic = force.get("cyclic", False)
        if ok == (not want_cyclic):
            break
    else:
        return None
    target = force.get("target") or rng.choice([("source", None), ("directory", "target"), ("directory", "out/sv"),
                                                 ("bundle", "all.sv"), ("bundle", "gen/bundle.sv")])
    smap = force.get("smap") or rng.choice([None, None, ("directory", "maps"), ("none", None), ("target", None)])
    fl = force.get("filelist") or rng.choice(["absolute", "relative", "flgen"])
    exclude_std = force.get("exclude_std", rng.random() < 0.9)
    out_dir = force.get("out_dir", "outd" if rng.random() < 0.12 else None)
    examples = rng.random() < 0.2
    layout = {}
    bl = ['sources = [%s]' % ", ".join('"%s"' % r for r in roots)]
    if target[0] == "source":
        bl.append('target = {type = "source"}')
    else:
        bl.append('target = {type = "%s", path = "%s"}' % target)
    if smap:
        bl.append('sourcemap_target = {type = "%s"%s}' % (smap[0], ', path = "%s"' % smap[1] if smap[1] else ""))
    bl.append('filelist_type = "%s"' % fl)
    bl.append('exclude_std = %s' % ("true" if exclude_std else "false"))
    toml = '[project]\nname = "prj"\nversion = "0.1.0"\n[build]\n' + "\n".join(bl) + "\n"
    if with_dep:
        toml += '[dependencies]\nd1 = {path = "../dep1"}\n'
        layout["dep1/Veryl.toml"] = '[project]\nname = "dep1"\nversion = "0.1.0"\n[build]\nsources = ["src"]\n'
    layout["prj/Veryl.toml"] = toml
    for (prj, rel), ids in files.items():
        # a symbol referring to a symbol of the SAME file comes after it ("referred before it is defined")
        order = sorted(ids)
        if not any(any(syms[r]["file"] == syms[i]["file"] for r in syms[i]["refs"]) for i in ids):
            rng.shuffle(order)
        text = "\n".join(file_imports(order, syms, "d1") + [sym_text(syms[i], syms, "d1") for i in order]) + "\n"
        layout[("prj/" if prj == "main" else "dep1/") + rel] = text
    if examples:
        m = [s for s in mains if s["kind"] == "module" and not s.get("generic")]
        layout["prj/examples/ex.veryl"] = "module Ex { %s }\n" % ("inst u: %s;" % m[0]["name"] if m else "")
    if rng.random() < 0.2:
        layout["prj/" + (roots[0] + "/" if roots[0] != "." else "") + "only_comment.veryl"] = "// nothing here\n"
    return {"tag": "prj%d" % idx, "files": layout, "syms": syms, "srcfiles": {("%s/%s" % ("prj" if k[0] == "main" else "dep1", k[1])): v for k, v in files.items()},
            "roots": roots, "target": target, "smap": smap, "filelist": fl, "exclude_std": exclude_std,
            "out_dir": out_dir, "with_dep": with_dep, "acyclic": ok, "examples": examples}


def c25_corpus():
    out = []

    def fixed(tag, files, roots=("src",), target=("directory", "target"), fl="absolute", extra=None, smap=None):
        toml = '[project]\nname = "prj"\nversion = "0.1.0"\n[build]\nsources = [%s]\n' % ", ".join('"%s"' % r for r in roots)
        if target[0] == "source":
            toml += 'target = {type = "source"}\n'
        else:
            toml += 'target = {type = "%s", path = "%s"}\n' % target
        if smap:
            toml += 'sourcemap_target = {type = "%s"%s}\n' % (smap[0], ', path = "%s"' % smap[1] if smap[1] else "")
        toml += 'filelist_type = "%s"\nexclude_std = true\n' % fl
        lay = {"prj/Veryl.toml": toml}
        lay.update({"prj/" + k: v for k, v in files.items()})
        d = {"tag": tag, "files": lay, "syms": None, "roots": list(roots), "target": target, "smap": smap,
             "filelist": fl, "exclude_std": True, "out_dir": None, "with_dep": False, "acyclic": True, "examples": False}
        d.update(extra or {})
        return d
    # DESIGN.md section 9 item 4: the multi-symbol file
    ms = {"src/f0.veryl": "module E {}\n", "src/f1.veryl": "module A { inst e: E; } module B { inst c: C; }\n",
          "src/f2.veryl": "module C {}\n"}
    ms_edges = {"order": [("prj/src/f0.veryl", "prj/src/f1.veryl"), ("prj/src/f2.veryl", "prj/src/f1.veryl")],
                "listed": ["prj/src/f0.veryl", "prj/src/f1.veryl", "prj/src/f2.veryl"]}
    out.append(fixed("multi-symbol", ms, extra=ms_edges))
    out.append(fixed("multi-symbol-bundle", ms, target=("bundle", "all.sv"), extra=ms_edges))
    # same file name in two directories of one source root, bundle target (staging paths used to collide)
    out.append(fixed("bundle-same-name", {"src/a.veryl": "module A { inst c: C; }\n", "src/sub/a.veryl": "module C {}\n"},
                     target=("bundle", "all.sv"), fl="relative",
                     extra={"order": [("prj/src/sub/a.veryl", "prj/src/a.veryl")],
                            "listed": ["prj/src/a.veryl", "prj/src/sub/a.veryl"]}))
    # the known collision: same relative path under two source roots
    out.append(fixed("two-roots-collision", {"src/a.veryl": "module A {}\n", "rtl/a.veryl": "module B {}\n"},
                     roots=("src", "rtl"),
                     extra={"order": [], "listed": ["prj/src/a.veryl", "prj/rtl/a.veryl"]}))
    return out
