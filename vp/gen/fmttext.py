"""Generator of unformatted-but-valid Veryl text for the formatter properties (C08, C09).

Sources of token sequences
  (i)  every *.veryl file of the repository (testcases, std library, fixtures), tokenised by the
       real parser through the vh-fmt harness (command T) and re-joined here with random layout;
  (ii) small grammar-derived modules (gen_snippet) that concentrate on adjacent-token hazards
       (unary after binary operator, `<:`/`<`/`:`, based numbers, keywords next to identifiers),
       alignment groups with one very wide member, comments in every gap.

A generated text is only a candidate: the harness parses it, and a text the parser rejects is
discarded (counted).  Any text the parser accepts is a legitimate input of the properties.
All randomness comes from the random.Random passed in.
"""
import os
import re

from .. import common as C

INDENT_WIDTHS = [1, 2, 4, 8]
MAX_WIDTHS = [20, 40, 80, 120]
NEWLINE_STYLES = ["auto", "unix", "windows"]


def hexs(s):
    b = s.encode("utf8")
    return b.hex() if b else "-"


def unhex(h):
    if h == "-":
        return ""
    return bytes.fromhex(h).decode("utf8")


# ------------------------------------------------------------------ repository texts

def repo_files():
    out = []
    for root, dirs, files in os.walk(C.REPO):
        dirs[:] = sorted(d for d in dirs if d not in ("target", ".git", "node_modules", ".build", "dependencies"))
        for f in sorted(files):
            if f.endswith(".veryl"):
                p = os.path.join(root, f)
                try:
                    t = open(p, encoding="utf8").read()
                except (OSError, UnicodeDecodeError):
                    continue
                if 0 < len(t) < 40000:
                    out.append((os.path.relpath(p, C.REPO), t))
    return out


def parse_stream(s):
    """'t:<hex>:<line>:<col>,...' -> list of (kind, text, line, col)"""
    if s == "-" or s == "":
        return []
    out = []
    for it in s.split(","):
        k, h, ln, col = it.split(":")
        out.append((k, unhex(h), int(ln), int(col)))
    return out


def tokenize(binary, texts):
    """texts -> list of token lists (None when the text does not parse)"""
    outs = C.run_lines(binary, ["T " + hexs(t) for t in texts])
    res = []
    for o in outs:
        if o.startswith("OK "):
            res.append(parse_stream(o[3:].strip()))
        else:
            res.append(None)
    return res


# ------------------------------------------------------------------ configurations

def gen_cfg(rng):
    return {"indent_width": rng.choice(INDENT_WIDTHS), "max_width": rng.choice(MAX_WIDTHS),
            "vertical_align": rng.random() < 0.7, "newline_style": rng.choice(NEWLINE_STYLES)}


def cfg_wire(cfg):
    return "%d %d %d %s" % (cfg["indent_width"], cfg["max_width"], 1 if cfg["vertical_align"] else 0,
                            cfg["newline_style"])


def cfg_toml(cfg):
    return ("[format]\nindent_width = %d\nmax_width = %d\nvertical_align = %s\nnewline_style = \"%s\"\n" %
            (cfg["indent_width"], cfg["max_width"], "true" if cfg["vertical_align"] else "false",
             cfg["newline_style"]))


# ------------------------------------------------------------------ layout

SEPS = [" ", " ", " ", "  ", "\n", "\n", "\n\n", "\n\n\n", "\n    ", "   \n", "\t", " \n\n \n", "\n\n\n\n"]
COMMENTS = ["// c\n", "//\n", "/* c */", "/**/", "/* a\n   b */", "// t   \n", "/* x */ /* y */", "/// d\n",
            "/*\n*/", "// long comment text that goes on for a while to pass narrow widths\n", "/* é ü */",
            "//! m\n", "/* tail   \n  ws */",
            # block comments over three and more lines, alone and followed by further comments
            "/* l1\n   l2\n   l3 */", "/* m1\n\n\n   m4 */ // after\n", "/* p\n q\n r */\n// next\n",
            "/* u\n v\n w */\n\n/* second */", "// one\n// two\n", "// one\n\n\n// far\n", "/* b1 */\n/* b2 */\n",
            # star runs and slashes inside / at the end of block comments (the comment splitter's regex must
            # agree with the lexer's), comment openers inside comments
            "/** doc **/", "/* x **/", "/****/", "/***/", "/* a * b ** c */", "/*/ */", "/** d\n * e\n **/",
            "/* s ***/ /**/", "// a /* b */\n", "/* // not a line comment */", "/*** /* ***/", "//* l\n", "///\n"]
CLOSERS = set(")]},;")
OPENERS = set("([{")


def _safe_empty(a, b):
    """may tokens a, b be written without a separator? (conservative)"""
    if not a or not b:
        return False
    x, y = a[-1], b[0]
    if a.endswith("\n"):
        return True
    if x in "([{,;" and (y.isalnum() or y in "_([{)]}"):
        return True
    if y in ")]},;" and (x.isalnum() or x in "_)]}"):
        return True
    return False


def join_tokens(rng, toks, style, p_comment=0.0):
    """toks: list of (kind, text).  Returns text."""
    out = []
    n = len(toks)
    for i, (k, t) in enumerate(toks):
        out.append(t)
        if i == n - 1:
            out.append(rng.choice(["", "\n", "\n", "\n\n", " "]) if not t.endswith("\n") else "")
            break
        nxt = toks[i + 1][1]
        if style == "oneline":
            sep = "" if t.endswith("\n") else " "
        elif style == "vertical":
            sep = "" if t.endswith("\n") else "\n"
        elif style == "tight":
            sep = "" if _safe_empty(t, nxt) else " "
        elif style == "blanky":
            sep = rng.choice(["\n\n", "\n\n\n", "\n", " "])
        else:
            sep = rng.choice(SEPS)
            if rng.random() < 0.08 and _safe_empty(t, nxt):
                sep = ""
        # the places where the formatter drops / re-creates a token (a trailing `,` before a closing
        # delimiter) get a comment far more often than an arbitrary gap
        boost = 6.0 if (t == "," and nxt[:1] in ")]}>") else (2.0 if nxt[:1] in ")]}" else 1.0)
        if p_comment and rng.random() < p_comment * boost:
            c = rng.choice(COMMENTS)
            pre = rng.choice([" ", "\n", "\n\n", "  ", ""]) if not t.endswith("\n") else rng.choice(["", "\n", "  "])
            if pre == "" and not t.endswith("\n") and t[-1] in "/*":
                pre = " "
            post = "" if c.endswith("\n") else rng.choice([" ", "\n", "\n\n", ""])
            if post == "" and not c.endswith("\n") and nxt[:1] in "/*":
                post = " "
            out.append(pre + c + post + (rng.choice(["", "\n", "  "]) if c.endswith("\n") else ""))
        else:
            out.append(sep)
    return "".join(out)


def perturb_lines(rng, text):
    """line-based perturbation of an existing layout: re-indent, trailing blanks, blank-line runs"""
    lines = text.split("\n")
    out = []
    for ln in lines:
        r = rng.random()
        if r < 0.25:
            ln = " " * rng.choice([0, 1, 2, 3, 5, 8, 12]) + ln.lstrip(" ")
        if rng.random() < 0.1:
            ln = ln + " " * rng.choice([1, 2, 4])
        out.append(ln)
        r = rng.random()
        if r < 0.08:
            out.extend([""] * rng.choice([1, 2, 3]))
    return "\n".join(out)


IDENT = re.compile(r"^[a-z_][a-zA-Z0-9_]*$")
KEYWORDS = set("""alias always_comb always_ff assign as bind bit block bbool lbool case clock clock_posedge clock_negedge
connect const converse default else embed enum f32 f64 false final for function i8 i16 i32 i64 if if_reset import in include
initial inout input inside inst interface let logic lsb modport module msb output outside package param proto pub repeat
reset reset_async_high reset_async_low reset_sync_high reset_sync_low return rev break same signed step string struct switch
tri true type p8 p16 p32 p64 u8 u16 u32 u64 union unsafe var gen this""".split())


def widen_identifier(rng, toks):
    """rename one identifier consistently to a very wide name (alignment group with a wide member)"""
    cands = sorted({t for k, t in toks if k == "t" and IDENT.match(t) and t not in KEYWORDS and not t.startswith("_")})
    if not cands:
        return toks
    victim = rng.choice(cands)
    wide = victim + "_" + "w" * rng.choice([18, 37, 76, 117, 140])
    return [(k, wide if (k == "t" and t == victim) else t) for k, t in toks]


STYLES = ["random", "random", "random", "oneline", "vertical", "tight", "blanky", "lines", "orig", "wide"]


def relayout(rng, base_text, toks, style=None):
    """one candidate text from a tokenised base text"""
    style = style or rng.choice(STYLES)
    pairs = [(k, t) for (k, t, _, _) in toks if t != ""]
    if style == "orig":
        x = base_text
    elif style == "lines":
        x = perturb_lines(rng, base_text)
    elif style == "wide":
        x = join_tokens(rng, widen_identifier(rng, pairs), rng.choice(["random", "vertical", "oneline"]),
                        p_comment=rng.choice([0.0, 0.03]))
    else:
        x = join_tokens(rng, pairs, style, p_comment=rng.choice([0.0, 0.0, 0.02, 0.06, 0.15]))
    if rng.random() < 0.15:
        x = x.replace("\r\n", "\n").replace("\n", "\r\n")
    return style, x


# ------------------------------------------------------------------ grammar-derived snippets

BIN_OPS = ["+", "-", "*", "/", "%", "&", "|", "^", "~^", "^~", "&&", "||", "==", "!=", "<:", "<=", ">:", ">=",
           "<<", ">>", "<<<", ">>>", "**", "==?", "!=?"]
UN_OPS = ["-", "+", "!", "~", "&", "|", "^", "~&", "~|", "~^", "^~"]
NUMS = ["0", "1", "10", "8'hff", "4'b1010", "32'd7", "'0", "'1", "16'shf", "1_000", "8'o17", "3'bx1z", "'x", "'hab",
        "1.5", "2.0e3", "64'hdead_beef"]


def gen_expr(rng, depth, idents):
    if depth <= 0 or rng.random() < 0.25:
        r = rng.random()
        if r < 0.5:
            return rng.choice(idents)
        if r < 0.8:
            return rng.choice(NUMS)
        if r < 0.9:
            i = rng.choice(idents)
            return "%s[%s]" % (i, rng.choice(["0", "1", "i", "2:0", "1+:2", "3-:2", "0 step 2"]))
        return "{%s, %s%s}" % (rng.choice(idents), rng.choice(idents + NUMS), rng.choice(["", ","]))
    r = rng.random()
    if r < 0.45:
        return "%s %s %s" % (gen_expr(rng, depth - 1, idents), rng.choice(BIN_OPS), gen_expr(rng, depth - 1, idents))
    if r < 0.65:
        return "%s%s" % (rng.choice(UN_OPS), gen_expr(rng, depth - 1, idents))
    if r < 0.72:
        # unary directly after a binary operator: `a - -b`, `a & &b`, `a | ~|b`
        return "%s %s %s%s" % (gen_expr(rng, depth - 1, idents), rng.choice(["-", "+", "&", "|", "^", "<:", "*"]),
                               rng.choice(UN_OPS), rng.choice(idents))
    if r < 0.8:
        return "(%s)" % gen_expr(rng, depth - 1, idents)
    if r < 0.86:
        return "if %s ? %s : %s" % (gen_expr(rng, depth - 1, idents), gen_expr(rng, depth - 1, idents),
                                    gen_expr(rng, depth - 1, idents))
    if r < 0.9:
        n = rng.choice([0, 1, 2, 5])
        return "f(%s%s)" % (", ".join(gen_expr(rng, depth - 1, idents) for _ in range(n)),
                            "," if n and rng.random() < 0.5 else "")
    if r < 0.94:
        return "{%s repeat %s}" % (gen_expr(rng, depth - 1, idents), rng.choice(["2", "4", "N"]))
    if r < 0.95:
        return "%s as u32" % rng.choice(idents)
    if rng.random() < 0.5:
        return "case %s { %s: %s, default: %s%s }" % (rng.choice(idents), rng.choice(NUMS), gen_expr(rng, depth - 1, idents),
                                                      gen_expr(rng, depth - 1, idents), rng.choice(["", ","]))
    return "switch { %s: %s, default: %s%s }" % (gen_expr(rng, depth - 1, idents), gen_expr(rng, depth - 1, idents),
                                                 gen_expr(rng, depth - 1, idents), rng.choice(["", ","]))


def gen_ident(rng, i):
    base = rng.choice(["a", "b", "x", "data", "i_valid", "o_ready", "cnt", "state_next", "r"]) + str(i)
    if rng.random() < 0.12:
        base += "_" + "q" * rng.choice([20, 45, 90, 125])
    return base


TYPES = ["logic", "logic<8>", "logic<4, 2>", "bit<3>", "u32", "i64", "signed logic<W>", "logic<W+1>", "tri logic",
         "bool", "f32"]


def gen_snippet(rng):
    """a small module / package / interface with deliberately varied declarations and statements"""
    n = rng.choice([2, 3, 5, 8])
    ids = [gen_ident(rng, i) for i in range(n)]
    body = []
    for i, v in enumerate(ids):
        kind = rng.choice(["var", "var", "let", "const"])
        ty = rng.choice(TYPES)
        if kind == "var":
            body.append("var %s: %s;" % (v, ty))
        elif kind == "let":
            body.append("let %s: %s = %s;" % (v, ty, gen_expr(rng, rng.choice([1, 2, 3]), ids[:i] or ["N"])))
        else:
            body.append("const %s: u32 = %s;" % (v.upper(), gen_expr(rng, 2, ["N", "W"])))
        if rng.random() < 0.2:
            body.append("")           # blank line: alignment group boundary
    for _ in range(rng.choice([1, 2, 4])):
        r = rng.random()
        e = gen_expr(rng, rng.choice([1, 2, 3, 4]), ids)
        t = rng.choice(ids)
        if r < 0.3:
            body.append("assign %s = %s;" % (t, e))
        elif r < 0.5:
            body.append("always_comb { %s = %s; %s }" % (t, e, "if %s { %s = %s; } else { %s = %s; }" % (
                gen_expr(rng, 1, ids), t, gen_expr(rng, 2, ids), t, gen_expr(rng, 1, ids)) if rng.random() < 0.5 else ""))
        elif r < 0.65:
            body.append("always_ff { if_reset { %s = 0; } else { %s = %s; } }" % (t, t, e))
        elif r < 0.75:
            body.append("always_comb { case %s { %s: %s = %s; %s, %s: { %s = %s; } default: %s = 0; } }" % (
                rng.choice(ids), rng.choice(NUMS), t, gen_expr(rng, 1, ids), rng.choice(NUMS), rng.choice(NUMS), t,
                gen_expr(rng, 2, ids), t))
        elif r < 0.85:
            body.append("inst u%d: Sub #( W: %s, N: %s ) ( a: %s, b, c: %s );" % (
                rng.randrange(99), gen_expr(rng, 1, ["N"]), rng.choice(NUMS), gen_expr(rng, 2, ids), rng.choice(ids)))
        elif r < 0.92:
            body.append("for i: u32 in 0..%s step += 2 :g { assign %s[i] = %s; }" % (rng.choice(["4", "N", "W-1"]), t,
                                                                                 gen_expr(rng, 2, ids + ["i"])))
        else:
            body.append("function f (a: input logic<8>, b: input u32) -> logic<8> { return %s; }" % gen_expr(rng, 2, ["a", "b"]))
    ports = ""
    if rng.random() < 0.7:
        pl = ["%s: %s %s" % (gen_ident(rng, 50 + i), rng.choice(["input", "output", "inout"]),
                             rng.choice(["logic", "logic<8>", "clock", "reset", "logic<W>"]))
              for i in range(rng.choice([1, 2, 4]))]
        ports = "(" + ", ".join(pl) + rng.choice(["", ","]) + ")"
    params = ""
    if rng.random() < 0.6:
        params = "#(param N: u32 = %s, param W: u32 = %s%s)" % (rng.choice(NUMS[:3]), gen_expr(rng, 1, ["N"]),
                                                               rng.choice(["", ","]))
    else:
        body.insert(0, "const N: u32 = 4; const W: u32 = 8;")
    head = rng.choice(["module", "module", "pub module"])
    text = "%s M%d %s %s {\n%s\n}\n" % (head, rng.randrange(1000), params, ports, "\n".join(body))
    if rng.random() < 0.3:
        text += "package P%d { const A: u32 = %s; enum E: logic<2> { X = 0, Y%s } struct S { a: logic, bb: logic<%s>%s } }\n" % (
            rng.randrange(1000), gen_expr(rng, 2, ["1"]), rng.choice(["", ","]), rng.choice(["2", "10"]), rng.choice(["", ","]))
    if rng.random() < 0.2:
        text += "interface I%d { var a: logic; var bbb: logic<2>; modport m { a: input, bbb: output%s } }\n" % (
            rng.randrange(1000), rng.choice(["", ","]))
    return text


# ------------------------------------------------------------------ shrinking

def token_spans(text, toks):
    """byte-offset free: character spans of the tokens in text, found left to right"""
    spans = []
    pos = 0
    for (k, t, _, _) in toks:
        j = text.find(t, pos)
        if j < 0:
            return None
        spans.append((j, j + len(t)))
        pos = j + len(t)
    return spans


def shrink_text(text, toks, fails_many, budget=400):
    """Structure-aware delta debugging over tokens (each deleted together with the separator that
    follows it): first whole top-level items, then items one, two, three brackets deep, finally
    single tokens.  fails_many(list of texts) -> list of bool (True = still parses and still fails;
    evaluated in parallel by the harness).  The returned text satisfies the predicate (or is the input)."""
    spans = token_spans(text, toks)
    if spans is None or len(spans) < 2:
        return text
    pieces = [text[:spans[0][0]]]
    for i, (a, b) in enumerate(spans):
        end = spans[i + 1][0] if i + 1 < len(spans) else len(text)
        pieces.append(text[a:end])
    ttext = [""] + [t for (_, t, _, _) in toks]       # token text of piece i
    keep = list(range(1, len(pieces)))
    evals = [0]

    def build(idx):
        return pieces[0] + "".join(pieces[i] for i in idx)

    def segments(idx, level):
        if level is None:
            return [[i] for i in idx]
        segs, cur, depth = [], [], 0
        for i in idx:
            t = ttext[i]
            if t in ("(", "[", "{", "#(", "'{"):
                depth += 1
            elif t in (")", "]", "}"):
                depth = max(0, depth - 1)
            cur.append(i)
            if depth == level and t in (";", ",", "}"):
                segs.append(cur)
                cur = []
        if cur:
            segs.append(cur)
        return segs

    for level in (0, 1, 2, 3, None):
        while evals[0] < budget:
            segs = segments(keep, level)
            if len(segs) <= 1:
                break
            cands = []
            for j in range(len(segs)):
                c = [i for k, sg in enumerate(segs) if k != j for i in sg]
                cands.append(c)
            cands = cands[:max(0, budget - evals[0])]
            oks = fails_many([build(c) for c in cands])
            evals[0] += len(cands)
            good = [j for j, ok in enumerate(oks) if ok]
            if not good:
                break
            # remove as many of the individually removable segments as possible: prefixes of the
            # remaining candidates are tried in one parallel batch, the longest working one is taken,
            # the segment that blocked it is skipped
            removed = {good[0]}
            remaining = good[1:]

            def without(rm):
                return [i for k, sg in enumerate(segs) if k not in rm for i in sg]

            while remaining and evals[0] < budget:
                pref = [without(removed | set(remaining[:k])) for k in range(1, len(remaining) + 1)]
                pref = pref[:max(0, budget - evals[0])]
                oks2 = fails_many([build(c) for c in pref])
                evals[0] += len(pref)
                best = 0
                for k, ok in enumerate(oks2, start=1):
                    if ok and pref[k - 1]:
                        best = k
                removed |= set(remaining[:best])
                remaining = remaining[best + 1:]
            keep = without(removed)
    return build(keep)


# ------------------------------------------------------------------ running cases on the implementation

def run_cases(binary, cases, flags):
    """cases: list of (cfg, text).  flags: subset of 'its' (idempotence, token streams, SystemVerilog).
    Returns list of dicts: {'status': 'OK'|'PARSE'|'PANIC'|'CRASH', 'f1','f2','tx','tf','sx','sf', 'msg'}.
    Values: text / token list, or ('!', reason) when that step failed, or None when skipped."""
    lines = ["C %s %s %s" % (cfg_wire(cfg), hexs(text), flags) for (cfg, text) in cases]
    outs = C.run_lines(binary, lines, timeout=1500)
    res = []
    for o in outs:
        if o.startswith("PARSE-ERROR"):
            res.append({"status": "PARSE"})
            continue
        if not o.startswith("OK "):
            res.append({"status": "PANIC" if o.startswith("PANIC") else "CRASH", "msg": o[:300]})
            continue
        d = {"status": "OK"}
        for part in o[3:].split():
            k, v = part.split("=", 1)
            if v == "!skip":
                d[k] = None
            elif v.startswith("!"):
                why = v[1:]
                if why.startswith("panic:"):
                    why = "panic: " + unhex(why[6:])[:200]
                d[k] = ("!", why)
            elif k in ("tx", "tf"):
                d[k] = parse_stream(v)
            else:
                d[k] = unhex(v)
        res.append(d)
    return res


def failed(v):
    return isinstance(v, tuple) and len(v) == 2 and v[0] == "!"


# ------------------------------------------------------------------ C09 oracle pieces

CLOSE_AFTER_TRAILING_COMMA = {")", "}", "]", ">"}


def canon_tokens(stream):
    """token texts without comments and without optional trailing separators: a `,` directly
    followed by a closing delimiter (the formatter adds / removes exactly these)"""
    toks = [t for (k, t, _, _) in stream if k == "t"]
    out = []
    for i, t in enumerate(toks):
        if t == "," and i + 1 < len(toks) and toks[i + 1] in CLOSE_AFTER_TRAILING_COMMA:
            continue
        out.append(t)
    return out


def canon_comments(stream):
    """comment texts with trailing whitespace trimmed per line"""
    out = []
    for (k, t, _, _) in stream:
        if k == "c":
            lines = t.replace("\r\n", "\n").split("\n")
            lines = [ln.rstrip() for ln in lines]
            while lines and lines[-1] == "":
                lines.pop()
            out.append("\n".join(lines))
    return out


_SV_TOKEN = re.compile(r"""
    (?P<ws>\s+)
  | (?P<lc>//[^\n]*)
  | (?P<bc>/\*.*?\*/)
  | (?P<str>"(?:\\.|[^"\\])*")
  | (?P<num>(?:\d[\d_]*)?\s*'[sS]?[bBoOdDhH]\s*[0-9a-fA-FxXzZ?_]+ | '[01xXzZ] | \d[\d_]*(?:\.\d[\d_]*)?(?:[eE][+-]?\d+)?)
  | (?P<id>[A-Za-z_$`][A-Za-z0-9_$]* | \\\S+)
  | (?P<op><<<=|>>>=|<<<|>>>|===|!==|==\?|!=\?|<<=|>>=|\*\*|<<|>>|<=|>=|==|!=|&&|\|\||~&|~\||~\^|\^~|->|::|\+=|-=|\*=|/=|%=|&=|\|=|\^=|\+\+|--|\+:|-:|\#\#|@\*|\(\*|\*\)|'\{|.)
""", re.X | re.S)


def sv_tokens(text):
    """token stream of a SystemVerilog text, comments and whitespace dropped; operators by longest
    match, so two tokens that run together are seen"""
    out = []
    for m in _SV_TOKEN.finditer(text):
        k = m.lastgroup
        if k in ("ws", "lc", "bc"):
            continue
        t = m.group(0)
        if k == "num":
            t = re.sub(r"\s+", "", t)
        out.append(t)
    return out


def first_diff(a, b):
    n = min(len(a), len(b))
    for i in range(n):
        if a[i] != b[i]:
            return i
    return n if len(a) != len(b) else -1


# KNOWN_FINDINGS key: the text of an `embed` block is a token (terminal Any); the renderer's
# strip_trailing_whitespace pass and unformat_embed_items' column arithmetic change white space inside it
KEY_EMBED_WS = "embed-content-whitespace"


def _has_ws(t):
    return re.search(r"\s", t) is not None


def _no_ws(t):
    return re.sub(r"\s+", "", t)


def scan_comments(text):
    """comments of a Veryl source text found WITHOUT the parser: `//` to end of line and `/* ... */`,
    outside string literals and outside embed bodies `{{{ ... }}}` (whose text is one token).  Used to
    notice a comment that the parser's own comment stream (split_comment_token) silently drops."""
    out = []
    i, n = 0, len(text)
    while i < n:
        if text.startswith("{{{", i):
            j = text.find("}}}", i + 3)
            i = n if j < 0 else j + 3
        elif text[i] == '"':
            i += 1
            while i < n and text[i] != '"':
                i += 2 if text[i] == "\\" else 1
            i += 1
        elif text.startswith("//", i):
            j = i
            while j < n and text[j] not in "\r\n":
                j += 1
            out.append(text[i:j])
            i = j
        elif text.startswith("/*", i):
            j = text.find("*/", i + 2)
            j = n if j < 0 else j + 2
            out.append(text[i:j])
            i = j
        else:
            i += 1
    return canon_comments([("c", c, 0, 0) for c in out])


def judge_layout_only(r, text=None):
    """C09 oracle on one harness result (needs flags 't' and 's').  Returns list of (key, what)."""
    bad = []
    if failed(r.get("tf")):
        bad.append(("output-unparsable", "the formatted text does not parse (%s)" % r["tf"][1]))
        return bad
    tx, tf = r.get("tx"), r.get("tf")
    if tx is not None and tf is not None and not failed(tx):
        a, b = canon_tokens(tx), canon_tokens(tf)
        if a != b:
            i = first_diff(a, b)
            what = "token sequence changed at token %d: original %r, formatted %r" % (
                i, a[max(0, i - 2):i + 3], b[max(0, i - 2):i + 3])
            if len(a) == len(b) and all(x == y or (_has_ws(x) and _no_ws(x) == _no_ws(y)) for x, y in zip(a, b)):
                # only tokens that contain white space themselves (embed content) changed, and only in
                # their white space: KNOWN_FINDINGS key
                bad.append((KEY_EMBED_WS, what))
            else:
                bad.append(("tokens", what))
        ca, cb = canon_comments(tx), canon_comments(tf)
        if text is not None and ca == cb:
            # the parser's comment stream itself may have lost a comment (then both streams agree and
            # the formatter deletes it): compare with the comments scanned from the text independently
            cs = scan_comments(text)
            if cs != cb:
                i = first_diff(cs, cb)
                bad.append(("comments", "a comment of the source text is missing from the formatted text (and from the "
                            "parser's comment stream): comment %d in the text %r, formatted %r" % (i, cs[i:i + 1], cb[i:i + 1])))
        if ca != cb:
            i = first_diff(ca, cb)
            bad.append(("comments", "comment sequence changed at comment %d: original %r, formatted %r" % (
                i, ca[i:i + 1], cb[i:i + 1])))
    sx, sf = r.get("sx"), r.get("sf")
    if sx is not None and sf is not None:
        if failed(sx) != failed(sf):
            bad.append(("sv-emit", "emitting SystemVerilog %s for the original but %s for the formatted text" % (
                "fails (%s)" % sx[1] if failed(sx) else "works", "fails (%s)" % sf[1] if failed(sf) else "works")))
        elif not failed(sx):
            a, b = sv_tokens(sx), sv_tokens(sf)
            if a != b:
                i = first_diff(a, b)
                bad.append(("sv-tokens", "emitted SystemVerilog differs at token %d: original %r, formatted %r" % (
                    i, a[max(0, i - 3):i + 4], b[max(0, i - 3):i + 4])))
    return bad


def _lines(text):
    return text.replace("\r\n", "\n").split("\n")


def _squeeze(line):
    """a line without any blanks: two lines with the same squeeze differ in padding only"""
    return re.sub(r"[ \t]+", "", line)


# KNOWN_FINDINGS keys (see /verif/KNOWN_FINDINGS.txt, design/C08.md):
# 1. with vertical_align = true formatting is not idempotent: the aligner splits its groups by SOURCE
#    line gaps (Align::finish_item: line > loc.line || loc.line - line > 1) and the padding it inserts
#    takes part in the line-fitting decisions of the next pass.  Recognised by: vertical_align on,
#    fmt(fmt(x)) != fmt(x), and the SAME text formatted with vertical_align off IS idempotent
#    (the harness runs both passes again with the option off).
KEY_ALIGN_SOURCE_GAPS = "vertical-align-not-idempotent"
# 2. `modport m { }` (empty body): newline_push + newline_pop + consume_adjust_line add one more blank
#    line between the braces on the second pass.  Recognised by: the only difference is blank lines
#    inserted between a line `modport <id> {` and the closing `}`.
KEY_EMPTY_MODPORT = "empty-modport-braces"
# 3. a list whose trailing `,` the formatter drops and re-creates as IfBreak(",") (argument lists, inst
#    port / parameter lists, ...), with a line comment after the last item: the `,` is rendered on a line
#    of its own after the comment; on the next pass that source `,` is dropped without advancing
#    Formatter::line, so consume_adjust_line sees a gap and inserts a blank line before the closing
#    delimiter.  Recognised by: the only difference is blank lines inserted directly after a line that
#    consists of `,` alone.
KEY_COMMA_AFTER_COMMENT = "dropped-trailing-comma-after-line-comment"
# 4. a block comment spanning lines with blanks at the end of one of its lines: the renderer measures the
#    comment (fits_flat) with those blanks, strip_trailing_whitespace removes them afterwards, so the
#    next pass measures a shorter comment and may join / break the surrounding group differently.
#    Recognised by: x contains such a comment; fmt^3 == fmt^2; fmt(x) and fmt(fmt(x)) have the same
#    non-blank characters (pure re-wrap).
KEY_COMMENT_TRAILING_BLANKS = "block-comment-inner-trailing-blanks"
_COMMENT_INNER_BLANKS = re.compile(r"/\*(?:(?!\*/).)*?[ \t]\r?\n(?:(?!\*/).)*\*/", re.S)


def _nonblank(t):
    return re.sub(r"[\s,]+", "", t)

# 5. a switch EXPRESSION whose default arm has no trailing comma and whose value is laid out over several
#    lines (e.g. a broken `if c ? a : b`): pass 1 leaves a blank line before the closing `}`, pass 2 a second
#    one (stable from there).  Recognised by: the only difference is blank lines inserted directly before
#    the `}` line that closes a `switch {` block (same indentation as the line that ends in `switch {`).
KEY_SWITCH_EXPR_BLANK = "switch-expression-default-arm-blank-line"


def _before_switch_expression_close(lines, j2):
    k = j2
    while k < len(lines) and lines[k].strip() == "":
        k += 1
    if k >= len(lines) or not lines[k].lstrip().startswith("}"):
        return False
    ind = len(lines[k]) - len(lines[k].lstrip())
    i = k - 1
    while i >= 0 and k - i < 200:
        ln = lines[i]
        if ln.strip() and len(ln) - len(ln.lstrip()) == ind:
            return re.search(r"\bswitch\s*\{\s*$", ln) is not None
        if ln.strip() and len(ln) - len(ln.lstrip()) < ind:
            return False
        i -= 1
    return False


# 6. a comment on a line of its own that follows a dropped trailing `,` inside a call / list
#    (`f(a,  /***/\n)`): pass 1 indents the comment line by one level, pass 2 by two (the comment is then
#    attached to the previous token instead of the dropped comma).  Recognised by: the only difference is
#    the leading indentation of lines that start with a comment.
KEY_COMMENT_INDENT = "comment-line-after-dropped-comma-indent"

_MODPORT_OPEN = re.compile(r"^\s*modport\s+\S+\s*\{\s*(//.*|/\*.*\*/\s*)?$")


_COMMENT_RE = re.compile(r"//[^\n]*|/\*.*?\*/", re.S)


def _in_empty_modport(lines, j1, j2):
    """lines[j1:j2] are blank and sit between `modport x {` and its `}` with nothing but blank lines and
    comments in between (an empty modport body)"""
    i = j1 - 1
    while i >= 0 and j1 - i < 80 and _MODPORT_OPEN.match(lines[i]) is None:
        i -= 1
    if i < 0 or _MODPORT_OPEN.match(lines[i]) is None:
        return False
    k = j2
    while k < len(lines) and not _COMMENT_RE.sub("", lines[k]).strip().startswith("}"):
        k += 1
        if k - j2 > 80:
            return False
    if k >= len(lines):
        return False
    body = _COMMENT_RE.sub("", "\n".join(lines[i + 1:k]))
    # a multi-line comment may end on line k itself: cut what precedes the brace
    return body.strip() == "" or _COMMENT_RE.sub("", "\n".join(lines[i + 1:k + 1])).strip().startswith("}")


def explain_nonidempotence(f1, f2):
    """set of known-finding keys (vertical_align off classes) that account for EVERY difference
    between f1 and f2, or None"""
    import difflib
    a, b = _lines(f1), _lines(f2)
    keys = set()
    sm = difflib.SequenceMatcher(None, a, b, autojunk=False)
    for tag, i1, i2, j1, j2 in sm.get_opcodes():
        if tag == "equal":
            continue
        if tag == "replace" and i2 - i1 == j2 - j1 and all(
                x.lstrip() == y.lstrip() and x.lstrip().startswith(("/*", "//")) for x, y in zip(a[i1:i2], b[j1:j2])):
            keys.add(KEY_COMMENT_INDENT)
            continue
        if tag == "insert" and all(x.strip() == "" for x in b[j1:j2]):
            if _in_empty_modport(b, j1, j2):
                keys.add(KEY_EMPTY_MODPORT)
                continue
            p = j1 - 1
            while p >= 0 and b[p].strip() == "":
                p -= 1
            if p >= 0 and b[p].strip() == ",":
                keys.add(KEY_COMMA_AFTER_COMMENT)
                continue
            if _before_switch_expression_close(b, j2):
                keys.add(KEY_SWITCH_EXPR_BLANK)
                continue
        return None
    return keys


def rewrap_by_comment_blanks(text, p, q, third):
    """known class 4: x holds a multi-line block comment with inner trailing blanks, the third pass is
    stable, and the two texts differ in layout only"""
    if text is None or third is None or failed(third):
        return False
    return (_COMMENT_INNER_BLANKS.search(text) is not None and _nonblank(p) == _nonblank(q))


def judge_idempotent(r, cfg=None, text=None):
    """C08 oracle on one harness result (needs flag 'i').  Returns list of (key, what)."""
    f1, f2 = r.get("f1"), r.get("f2")
    if failed(f2):
        return [("second-pass-fails", "formatting the formatted text fails: %s" % f2[1])]
    if f2 is None or f1 == f2:
        return []

    def describe(p, q, label):
        la, lb = p.split("\n"), q.split("\n")
        i = first_diff(la, lb)
        return "%s: first differing line %d: %r vs %r" % (
            label, i + 1, la[i] if i < len(la) else "<eof>", lb[i] if i < len(lb) else "<eof>")

    what = describe(f1, f2, "fmt(fmt(x)) != fmt(x)")
    f3 = r.get("f3")
    if f3 is not None and not failed(f3) and f3 != f2:
        what += " (and a third pass changes it again)"
    if cfg is not None and cfg.get("vertical_align"):
        n1, n2 = r.get("n1"), r.get("n2")
        if n1 is None or failed(n1) or n2 is None or failed(n2):
            return [("not-idempotent", what)]
        if n1 == n2:
            return [(KEY_ALIGN_SOURCE_GAPS, what)]
        # not idempotent with vertical_align off either: judge that pair
        keys = explain_nonidempotence(n1, n2)
        what2 = describe(n1, n2, "with vertical_align off as well, fmt(fmt(x)) != fmt(x)")
        if keys:
            return [(k, what2) for k in sorted(keys)]
        if rewrap_by_comment_blanks(text, n1, n2, f3 if f3 == f2 else None):
            return [(KEY_COMMENT_TRAILING_BLANKS, what2)]
        return [("not-idempotent", what2)]
    keys = explain_nonidempotence(f1, f2)
    if keys:
        return [(k, what) for k in sorted(keys)]
    if rewrap_by_comment_blanks(text, f1, f2, f3):
        return [(KEY_COMMENT_TRAILING_BLANKS, what)]
    return [("not-idempotent", what)]


# ------------------------------------------------------------------ case production shared by C08 / C09

def corpus_cases(pid):
    """corpus/<pid>/*.veryl ; optional first line `// cfg: <indent> <maxw> <valign 0|1> <nl>`"""
    d = os.path.join(C.VERIF, "corpus", pid)
    out = []
    if not os.path.isdir(d):
        return out
    for f in sorted(os.listdir(d)):
        if not f.endswith(".veryl"):
            continue
        t = open(os.path.join(d, f), encoding="utf8", newline="").read()
        m = re.match(r"// cfg: (\d+) (\d+) ([01]) (\w+)\r?\n", t)
        if m:
            cfg = {"indent_width": int(m.group(1)), "max_width": int(m.group(2)),
                   "vertical_align": m.group(3) == "1", "newline_style": m.group(4)}
            out.append((cfg, t[m.end():], "corpus:" + f))
        else:
            for cfg in ({"indent_width": 4, "max_width": 120, "vertical_align": True, "newline_style": "auto"},
                        {"indent_width": 2, "max_width": 40, "vertical_align": True, "newline_style": "unix"},
                        {"indent_width": 8, "max_width": 20, "vertical_align": False, "newline_style": "windows"}):
                out.append((cfg, t, "corpus:" + f))
    return out


def base_texts(binary, rng, n_snippets):
    """tokenised repository files + generated snippets: list of (name, text, tokens)"""
    files = repo_files()
    snippets = [("snippet:%d" % i, gen_snippet(rng)) for i in range(n_snippets)]
    allt = files + snippets
    toks = tokenize(binary, [t for (_, t) in allt])
    out = []
    rejected = 0
    for (name, t), tk in zip(allt, toks):
        if tk is None:
            rejected += 1
            continue
        if not tk:
            continue
        out.append((name, t, tk))
    return out, rejected, len(files), len(snippets)


def gen_cases(rng, bases, n_texts, n_cfg):
    """n_texts candidate texts x n_cfg settings: list of (cfg, text, tag)"""
    cases = []
    for i in range(n_texts):
        name, t, tk = bases[rng.randrange(len(bases))]
        style, x = relayout(rng, t, tk)
        for _ in range(n_cfg):
            cases.append((gen_cfg(rng), x, "%s|%s" % (style, name)))
    return cases
