"""G-proj: multi-file Veryl project generator, edit-history generator and CLI driving helpers.

Reusable by every property that drives the real `veryl` binary on generated projects
(C04 C05 C27 and others).  Nothing here depends on a property.

  Project      in-memory project: Veryl.toml as nested dict + {relative path: file spec}
  gen_project  random project (3-8 files): packages, package->package constants, modules using
               package constants / imports / $prop, cross-file instances, generic modules
               instantiated from other files, interfaces, always_ff (clock/reset configuration
               matters), comments, an optional warning (unused variable)
  gen_history  random history of steps (edit | add | rename | delete | touch | toml | out_* | cmd)
  Sandbox      materialises a project under .work/scratch, applies steps, runs the CLI with a
               private HOME/XDG_CACHE_HOME, snapshots output trees, normalises diagnostics

All randomness comes from the `random.Random` passed in.  Source mtimes are set explicitly
(monotone nanosecond clock owned by the Sandbox) so that runs are deterministic with respect to
the mtime-based staleness test of the incremental build.
"""
import copy
import hashlib
import json
import os
import re
import shutil
import subprocess
import time

# ------------------------------------------------------------------------------------------
# Veryl.toml
# ------------------------------------------------------------------------------------------


def base_toml(name="p", incremental=True):
    return {
        "project": {"name": name, "version": "0.1.0"},
        "build": {
            "sources": ["src"],
            "target": {"type": "directory", "path": "target"},
            "exclude_std": True,
            "incremental": incremental,
        },
    }


def _toml_val(v):
    if isinstance(v, bool):
        return "true" if v else "false"
    if isinstance(v, int):
        return str(v)
    if isinstance(v, str):
        return json.dumps(v)
    if isinstance(v, list):
        return "[" + ", ".join(_toml_val(x) for x in v) + "]"
    if isinstance(v, dict):
        return "{" + ", ".join("%s = %s" % (k, _toml_val(x)) for k, x in v.items()) + "}"
    raise TypeError(v)


def render_toml(t):
    out = []
    for sec in ("project", "properties", "build", "format", "lint", "test", "doc", "publish"):
        if sec not in t:
            continue
        body = t[sec]
        if sec == "lint":
            # [lint.naming] sub-table
            for sub, kv in body.items():
                out.append("[lint.%s]" % sub)
                for k, v in kv.items():
                    out.append("%s = %s" % (k, _toml_val(v)))
                out.append("")
            continue
        out.append("[%s]" % sec)
        for k, v in body.items():
            out.append("%s = %s" % (k, _toml_val(v)))
        out.append("")
    return "\n".join(out)


# configuration edits: (section, key, candidate values).  `affects` says what a change can alter:
# "emit" (text of .sv), "layout" (where files go / filelist form), "diag" (diagnostics), "none".
TOML_EDITS = [
    ("format", "indent_width", [2, 3, 4, 8], "emit"),
    ("format", "max_width", [40, 80, 120], "emit"),
    ("format", "vertical_align", [True, False], "emit"),
    ("build", "clock_type", ["posedge", "negedge"], "emit"),
    ("build", "reset_type", ["async_low", "async_high", "sync_low", "sync_high"], "emit"),
    ("build", "omit_project_prefix", [True, False], "emit"),
    ("build", "strip_comments", [True, False], "emit"),
    ("build", "hashed_mangled_name", [True, False], "emit"),
    ("build", "filelist_type", ["absolute", "relative", "flgen"], "layout"),
    ("build", "sourcemap_target", [{"type": "target"}, {"type": "none"},
                                   {"type": "directory", "path": "maps"}], "layout"),
    ("build", "target", [{"type": "directory", "path": "target"}, {"type": "directory", "path": "out"},
                         {"type": "source"}], "layout"),
    ("build", "incremental", [True, True, False], "none"),
    ("build", "error_count_limit", [0, 1, 5], "diag"),
    ("properties", "WIDTH", [4, 8, 12, 16], "emit"),
    ("lint", "naming", [{"case_module": "snake"}, {"prefix_module": "Mod"}, {"case_module": "upper_camel"},
                        {"prefix_module": "X"}], "diag"),
    ("project", "version", ["0.1.0", "0.2.0"], "none"),
    ("doc", "path", ["doc", "doc2"], "none"),
]


# ------------------------------------------------------------------------------------------
# file specs -> Veryl text
# ------------------------------------------------------------------------------------------
# A file spec is a dict {"kind": ..., ...}; `render_file` turns it into text.  Dependencies are
# explicit in the spec so that generators and oracles can reason about the dependency shape.

def render_file(s):
    k = s["kind"]
    pre = "".join("// %s\n" % c for c in s.get("head_comments", []))
    post = "\n" * s.get("trailing_blank", 0)
    if k == "raw":
        return s["text"]
    if k == "pkg":
        ls = ["package %s {" % s["name"]]
        ls.append("    const W: u32 = %d;" % s["w"])
        if s.get("dep"):
            ls.append("    const V: u32 = %s::W + %d;" % (s["dep"], s["v"]))
        else:
            ls.append("    const V: u32 = %d;" % s["v"])
        if s.get("fn"):
            ls.append("    function inc (")
            ls.append("        a: input logic<8>,")
            ls.append("    ) -> logic<8> {")
            ls.append("        return a + %d;" % s["fn"])
            ls.append("    }")
        ls.append("}")
        return pre + "\n".join(ls) + "\n" + post
    if k == "gen":
        ls = ["module %s::<W: u32> (" % s["name"],
              "    i_d: input  logic<W>,",
              "    o_d: output logic<W>,",
              ") {"]
        if s.get("pkg"):
            ls.append("    let _k: logic<32> = %s::W;" % s["pkg"])
        ls.append("    assign o_d = i_d%s;" % (" + %d" % s["add"] if s.get("add") else ""))
        ls.append("}")
        return pre + "\n".join(ls) + "\n" + post
    if k == "intf":
        ls = ["interface %s {" % s["name"],
              "    var d: logic<%d>;" % s["w"],
              "    modport mp {",
              "        d: input,",
              "    }",
              "}"]
        return pre + "\n".join(ls) + "\n" + post
    if k == "mod":
        ls = ["module %s (" % s["name"],
              "    i_clk: input  clock   ,",
              "    i_rst: input  reset   ,",
              "    i_d  : input  logic<8>,",
              "    o_d  : output logic<8>,",
              ") {"]
        n = 0
        for c in s.get("body_comments", []):
            ls.append("    // %s" % c)
        for p in s.get("imports", []):
            ls.append("    import %s::*;" % p)
            ls.append("    let _v%d: logic<32> = V;" % n)
            n += 1
        for p in s.get("consts", []):
            ls.append("    let _c%d: logic<32> = %s::W + %d;" % (n, p, s.get("lit", 0)))
            n += 1
        for p in s.get("fncalls", []):
            ls.append("    let _f%d: logic<8> = %s::inc(i_d);" % (n, p))
            n += 1
        if s.get("prop"):
            ls.append("    const PW: i64 = $prop::WIDTH;")
            ls.append("    let _p: logic<64> = PW;")
        for m in s.get("insts", []):
            ls.append("    var _o%d: logic<8>;" % n)
            ls.append("    inst u%d: %s (" % (n, m))
            ls.append("        i_clk      ,")
            ls.append("        i_rst      ,")
            ls.append("        i_d        ,")
            ls.append("        o_d  : _o%d," % n)
            ls.append("    );")
            n += 1
        for (g, w) in s.get("gens", []):
            ls.append("    var _g%d: logic<%d>;" % (n, w))
            ls.append("    inst g%d: %s::<%d> (" % (n, g, w))
            ls.append("        i_d: i_d[%d:0]," % (w - 1))
            ls.append("        o_d: _g%d," % n)
            ls.append("    );")
            n += 1
        for i in s.get("intfs", []):
            ls.append("    inst b%d: %s;" % (n, i))
            ls.append("    assign b%d.d = 0;" % n)
            n += 1
        for u in s.get("unused", []):
            ls.append("    var %s: logic<4>;" % u)
        if s.get("ff"):
            ls.append("    var r: logic<8>;")
            ls.append("    always_ff {")
            ls.append("        if_reset {")
            ls.append("            r = %d;" % s.get("rstval", 0))
            ls.append("        } else {")
            ls.append("            r = i_d;")
            ls.append("        }")
            ls.append("    }")
            src = "r"
        else:
            src = "i_d"
        err = s.get("error")
        if err == "undefined":
            ls.append("    assign o_d = UNDEFINED_%d;" % s.get("errn", 0))
        elif err == "syntax":
            ls.append("    assign o_d = = %s;" % src)
        elif err == "mismatch":
            ls.append("    assign o_d = %s;" % src)
            ls.append("    assign o_d = %s;" % src)
        else:
            ls.append("    assign o_d = %s%s;" % (src, " + %d" % s["add"] if s.get("add") else ""))
        ls.append("}")
        return pre + "\n".join(ls) + "\n" + post
    raise ValueError(k)


def spec_deps(s):
    """Names of the items (packages/modules/generics/interfaces) a file spec refers to."""
    k = s["kind"]
    if k == "pkg":
        return [s["dep"]] if s.get("dep") else []
    if k == "gen":
        return [s["pkg"]] if s.get("pkg") else []
    if k == "mod":
        return (list(s.get("imports", [])) + list(s.get("consts", [])) + list(s.get("fncalls", [])) +
                list(s.get("insts", [])) + [g for g, _ in s.get("gens", [])] + list(s.get("intfs", [])))
    return []


class Project:
    """toml: nested dict; files: {relpath under the project root: spec}."""

    def __init__(self, toml=None, files=None):
        self.toml = toml if toml is not None else base_toml()
        self.files = files if files is not None else {}

    def clone(self):
        return Project(copy.deepcopy(self.toml), copy.deepcopy(self.files))

    def names(self, kind=None):
        return [s["name"] for s in self.files.values() if s.get("name") and (kind is None or s["kind"] == kind)]

    def file_of(self, name):
        for p, s in self.files.items():
            if s.get("name") == name:
                return p
        return None

    def to_json(self):
        return {"toml": self.toml, "files": self.files}

    @staticmethod
    def from_json(j):
        fs = {}
        for p, s in j["files"].items():
            s = dict(s)
            if "gens" in s:
                s["gens"] = [tuple(x) for x in s["gens"]]
            fs[p] = s
        return Project(j["toml"], fs)


def _fname(rng, name, used):
    base = name.lower()
    sub = rng.choice(["", "", "", "sub/", "a/b/"])
    p = "src/%s%s.veryl" % (sub, base)
    while p in used:
        p = "src/%s%s_%d.veryl" % (sub, base, rng.randrange(100))
    return p


def gen_project(rng, nfiles=None, name="p", incremental=True):
    """Random acyclic project.  Items are created in dependency order; file names are unrelated to
    that order (so path order != dependency order)."""
    n = nfiles or rng.randint(3, 8)
    prj = Project(base_toml(name, incremental))
    if rng.random() < 0.5:
        prj.toml["properties"] = {"WIDTH": rng.choice([4, 8, 16])}
    if rng.random() < 0.3:
        prj.toml["format"] = {"indent_width": rng.choice([2, 4])}
    pkgs, mods, gens, intfs = [], [], [], []
    letters = list("ABCDEFGHJKLMNPQRSTUVWXYZ")
    rng.shuffle(letters)
    for i in range(n):
        tag = letters[i]
        r = rng.random()
        if i == 0 or (r < 0.3 and len(pkgs) < 3):
            s = {"kind": "pkg", "name": "Pkg" + tag, "w": rng.choice([4, 8, 16]), "v": rng.randrange(10)}
            if pkgs and rng.random() < 0.5:
                s["dep"] = rng.choice(pkgs)
            if rng.random() < 0.4:
                s["fn"] = rng.randrange(1, 5)
            pkgs.append(s["name"])
        elif r < 0.45 and len(gens) < 2:
            s = {"kind": "gen", "name": "Gen" + tag}
            if pkgs and rng.random() < 0.4:
                s["pkg"] = rng.choice(pkgs)
            gens.append(s["name"])
        elif r < 0.52 and len(intfs) < 1:
            s = {"kind": "intf", "name": "If" + tag, "w": rng.choice([4, 8])}
            intfs.append(s["name"])
        else:
            s = {"kind": "mod", "name": "Mod" + tag, "ff": rng.random() < 0.6, "rstval": rng.randrange(4)}
            if pkgs and rng.random() < 0.6:
                s["consts"] = [rng.choice(pkgs)]
                s["lit"] = rng.randrange(5)
            if pkgs and rng.random() < 0.3:
                s["imports"] = [rng.choice(pkgs)]
            fnp = [p for p in pkgs if any(f.get("name") == p and f.get("fn") for f in prj.files.values())]
            if fnp and rng.random() < 0.4:
                s["fncalls"] = [rng.choice(fnp)]
            if mods and rng.random() < 0.6:
                s["insts"] = rng.sample(mods, min(len(mods), rng.choice([1, 1, 2])))
            if gens and rng.random() < 0.6:
                s["gens"] = [(rng.choice(gens), rng.choice([2, 4, 8]))]
            if intfs and rng.random() < 0.3:
                s["intfs"] = [rng.choice(intfs)]
            if "properties" in prj.toml and rng.random() < 0.4:
                s["prop"] = True
            if rng.random() < 0.3:
                s["body_comments"] = ["note %d" % rng.randrange(100)]
            mods.append(s["name"])
        if rng.random() < 0.2:
            s["head_comments"] = ["file %s" % tag]
        prj.files[_fname(rng, s["name"], prj.files)] = s
    if rng.random() < 0.35:
        # a file with a warning from the start
        ms = [s for s in prj.files.values() if s["kind"] == "mod"]
        if ms:
            rng.choice(ms)["unused"] = ["unused_a"]
    return prj


# ------------------------------------------------------------------------------------------
# histories
# ------------------------------------------------------------------------------------------
# A step is a dict {"op": ...}.  Steps are data (JSON-serialisable) so that a history can be
# replayed exactly; `apply_step_to_project` keeps the in-memory project in sync.
#
#   {"op":"edit", "path":p, "spec":s, "keep_mtime":bool}      replace file contents
#   {"op":"add", "path":p, "spec":s}                            new file
#   {"op":"delete", "path":p}
#   {"op":"rename", "path":p, "to":q}                           same contents, new path (mtime kept)
#   {"op":"touch", "path":p}                                    mtime only
#   {"op":"toml", "section":..., "key":..., "value":...}        (value None = remove key)
#   {"op":"out_delete"|"out_touch"|"out_damage", "which":"sv"|"map"|"filelist", "index":i, "how":...}
#   {"op":"cmd", "cmd":"build"|"check"}

def mutate_spec(rng, prj, path):
    """One random content edit of a file.  Returns (new spec, tag) — tag names the edit shape."""
    s = copy.deepcopy(prj.files[path])
    k = s["kind"]
    choices = ["comment", "blank"]
    if k == "pkg":
        choices += ["w", "w", "v", "dep", "fn"]
    elif k == "gen":
        choices += ["add", "pkg"]
    elif k == "intf":
        choices += ["w"]
    elif k == "mod":
        choices += ["add", "ff", "warn", "warn", "error", "error", "inst", "inst", "const", "gen", "gen", "import", "lit", "fncall"]
    c = rng.choice(choices)
    if s.get("error"):
        c = rng.choice(["fix", "fix", c])
    if s.get("unused") and rng.random() < 0.3:
        c = "unwarn"
    pkgs, mods, gens = prj.names("pkg"), prj.names("mod"), prj.names("gen")
    # acyclicity: a module may instantiate only modules that do not (transitively) reach it
    if c == "comment":
        s.setdefault("head_comments", []).append("c%d" % rng.randrange(1000))
    elif c == "blank":
        s["trailing_blank"] = s.get("trailing_blank", 0) + 1
    elif c == "w":
        s["w"] = rng.choice([x for x in (2, 4, 8, 16, 32) if x != s["w"]])
    elif c == "v":
        s["v"] = s["v"] + 1
    elif c == "fn":
        if s.get("fn") and not _users_of(prj, s["name"], "fncalls"):
            s.pop("fn")
        else:
            s["fn"] = (s.get("fn") or 0) + 1
    elif c == "dep":
        cand = [p for p in pkgs if p != s["name"] and not _reaches(prj, p, s["name"])]
        if s.get("dep") and rng.random() < 0.5:
            s.pop("dep")
        elif cand:
            s["dep"] = rng.choice(cand)
    elif c == "pkg":
        if s.get("pkg") and rng.random() < 0.5:
            s.pop("pkg")
        elif pkgs:
            s["pkg"] = rng.choice(pkgs)
    elif c == "add":
        s["add"] = (s.get("add") or 0) + 1
    elif c == "ff":
        s["ff"] = not s.get("ff")
    elif c == "warn":
        s.setdefault("unused", []).append("unused_%d" % rng.randrange(100))
    elif c == "unwarn":
        s["unused"] = []
    elif c == "error":
        s["error"] = rng.choice(["undefined", "undefined", "syntax", "mismatch"])
        s["errn"] = rng.randrange(10)
    elif c == "fix":
        s.pop("error", None)
    elif c == "inst":
        cand = [m for m in mods if m != s["name"] and not _reaches(prj, m, s["name"])]
        cur = s.get("insts", [])
        if cur and rng.random() < 0.4:
            s["insts"] = cur[:-1]
        elif cand:
            s["insts"] = cur + [rng.choice(cand)]
    elif c == "const":
        if s.get("consts") and rng.random() < 0.4:
            s["consts"] = []
        elif pkgs:
            s["consts"] = [rng.choice(pkgs)]
    elif c == "import":
        if s.get("imports"):
            s["imports"] = []
        elif pkgs:
            s["imports"] = [rng.choice(pkgs)]
    elif c == "fncall":
        fnp = [p for p in pkgs if prj.files[prj.file_of(p)].get("fn")]
        if s.get("fncalls"):
            s["fncalls"] = []
        elif fnp:
            s["fncalls"] = [rng.choice(fnp)]
    elif c == "lit":
        s["lit"] = s.get("lit", 0) + 1
    elif c == "gen":
        cur = s.get("gens", [])
        if cur and rng.random() < 0.5:
            g, w = cur[0]
            s["gens"] = [(g, rng.choice([x for x in (2, 3, 4, 8) if x != w]))] + cur[1:]
        elif cur and rng.random() < 0.3:
            s["gens"] = []
        elif gens:
            s["gens"] = cur + [(rng.choice(gens), rng.choice([2, 4, 8]))]
    return s, c


def _reaches(prj, frm, to):
    """does item `frm` transitively depend on item `to`?"""
    seen, todo = set(), [frm]
    while todo:
        x = todo.pop()
        if x == to:
            return True
        if x in seen:
            continue
        seen.add(x)
        p = prj.file_of(x)
        if p:
            todo.extend(spec_deps(prj.files[p]))
    return False


def _users_of(prj, name, field):
    return [p for p, s in prj.files.items() if name in s.get(field, [])]


def gen_history(rng, prj, nsteps=None, cmds=("build", "build", "build", "check"), allow=None):
    """Random history for `prj` (not modified).  Always starts with a command so that a cache
    exists; every block of 1-3 mutations is followed by a command.  `allow` restricts the ops."""
    cur = prj.clone()
    steps = [{"op": "cmd", "cmd": "build"}]
    nsteps = nsteps or rng.randint(3, 10)
    ops = allow or ["edit"] * 8 + ["add", "delete", "rename", "touch", "toml", "toml", "toml",
                                   "out_delete", "out_delete", "out_touch", "out_damage", "edit_keep"]
    letters = list("abcdefghijklmnopqrstuvwxyz")
    ncmd = 1
    while ncmd < nsteps:
        for _ in range(rng.choice([1, 1, 1, 2, 3])):
            op = rng.choice(ops)
            paths = sorted(cur.files)
            st = None
            if op in ("edit", "edit_keep") and paths:
                p = rng.choice(paths)
                s, tag = mutate_spec(rng, cur, p)
                st = {"op": "edit", "path": p, "spec": s, "keep_mtime": op == "edit_keep", "tag": tag}
            elif op == "add":
                tagl = "".join(rng.choice(letters) for _ in range(3)).capitalize()
                kind = rng.choice(["mod", "mod", "pkg"])
                if kind == "pkg":
                    s = {"kind": "pkg", "name": "Pkg" + tagl, "w": 8, "v": 1}
                else:
                    s = {"kind": "mod", "name": "Mod" + tagl, "ff": rng.random() < 0.5}
                    if cur.names("pkg") and rng.random() < 0.5:
                        s["consts"] = [rng.choice(cur.names("pkg"))]
                    if cur.names("mod") and rng.random() < 0.5:
                        s["insts"] = [rng.choice(cur.names("mod"))]
                    if cur.names("gen") and rng.random() < 0.4:
                        s["gens"] = [(rng.choice(cur.names("gen")), rng.choice([2, 4, 8, 16]))]
                st = {"op": "add", "path": _fname(rng, s["name"], cur.files), "spec": s}
            elif op == "delete" and len(paths) > 2:
                # mostly delete something nothing depends on; sometimes a depended-upon file
                free = [p for p in paths if not any(cur.files[p].get("name") in spec_deps(s2) for s2 in cur.files.values())]
                p = rng.choice(free) if free and rng.random() < 0.7 else rng.choice(paths)
                st = {"op": "delete", "path": p}
            elif op == "rename" and paths:
                p = rng.choice(paths)
                q = p.replace(".veryl", "_r%d.veryl" % rng.randrange(100))
                if rng.random() < 0.3:
                    q = "src/moved/" + os.path.basename(q)
                st = {"op": "rename", "path": p, "to": q}
            elif op == "touch" and paths:
                st = {"op": "touch", "path": rng.choice(paths)}
            elif op == "toml":
                sec, key, vals, _ = rng.choice(TOML_EDITS)
                curv = cur.toml.get(sec, {}).get(key)
                cand = [v for v in vals if v != curv]
                if sec == "properties" and "properties" not in cur.toml:
                    cand = []
                if sec == "properties" and key == "WIDTH" and any(s.get("prop") for s in cur.files.values()):
                    cand = [v for v in cand if v is not None]
                if cand:
                    st = {"op": "toml", "section": sec, "key": key, "value": rng.choice(cand)}
            elif op in ("out_delete", "out_touch", "out_damage"):
                st = {"op": op, "which": rng.choice(["sv", "sv", "map", "filelist"] if op != "out_damage" else ["sv", "map", "filelist"]),
                      "index": rng.randrange(64), "how": rng.choice(["empty", "truncate", "append", "garbage"])}
            if st:
                apply_step_to_project(cur, st)
                steps.append(st)
        steps.append({"op": "cmd", "cmd": rng.choice(list(cmds))})
        ncmd += 1
    return steps


def apply_step_to_project(prj, st):
    op = st["op"]
    if op in ("edit", "add"):
        prj.files[st["path"]] = copy.deepcopy(st["spec"])
    elif op == "delete":
        prj.files.pop(st["path"], None)
    elif op == "rename":
        if st["path"] in prj.files:
            prj.files[st["to"]] = prj.files.pop(st["path"])
    elif op == "toml":
        if st["value"] is None:
            prj.toml.get(st["section"], {}).pop(st["key"], None)
        else:
            prj.toml.setdefault(st["section"], {})[st["key"]] = copy.deepcopy(st["value"])


# ------------------------------------------------------------------------------------------
# driving the CLI
# ------------------------------------------------------------------------------------------

_ANSI = re.compile(r"\x1b\[[0-9;]*[A-Za-z]")
_LOG = re.compile(r"^\[(INFO|WARN|DEBUG|TRACE|ERROR)\s*\]\s+(.*)$")


def private_binary(path, scratch):
    """Copy the freshly built CLI into `scratch` and return the copy.  The shared target dir may be
    rebuilt by a concurrent check while a run is in progress; veryl folds a hash of its own
    executable into the cache key, so a history must see ONE binary from start to end."""
    dst = os.path.join(scratch, os.path.basename(path))
    shutil.copy2(path, dst)
    return dst


class RunResult:
    def __init__(self, rc, stdout, stderr, root):
        self.rc = rc
        self.stdout = stdout
        self.stderr = _ANSI.sub("", stderr)
        self.root = root
        self.restored = None
        self.nfiles = None
        self.processed = []
        self.log = []
        self.panic = ("panicked at" in self.stderr) or rc in (101, 134, -6)
        diag_lines = []
        for ln in self.stderr.splitlines():
            m = _LOG.match(ln)
            if m:
                self.log.append((m.group(1), m.group(2)))
                mm = re.match(r"Restored (\d+)/(\d+) files", m.group(2))
                if mm:
                    self.restored, self.nfiles = int(mm.group(1)), int(mm.group(2))
                mm = re.match(r"Processing file \((.*)\)", m.group(2))
                if mm:
                    self.processed.append(os.path.relpath(mm.group(1), root))
                continue
            diag_lines.append(ln)
        self.diag_text = "\n".join(diag_lines)

    def diagnostics(self):
        """Normalised diagnostics: sorted list of (severity, code, message, location) with the
        project root replaced; the multiset is what C04 compares ('each once')."""
        txt = self.diag_text.replace(self.root, "<ROOT>")
        blocks = re.split(r"(?m)^(?=(?:Error|Warning|Advice)\b)", txt)
        out = []
        for b in blocks:
            b = b.strip()
            if not b:
                continue
            head = b.splitlines()[0]
            m = re.match(r"(Error|Warning|Advice):?\s*(\S+)?", head)
            sev = m.group(1) if m else "?"
            code = (m.group(2) or "") if m else ""
            msgm = re.search(r"(?m)^\s*[×⚠☞]\s*(.*)$", b)
            msg = msgm.group(1).strip() if msgm else ""
            locs = tuple(re.findall(r"\[(<ROOT>[^\]]*|[^\]\s]*:\d+:\d+)\]", b))
            labels = tuple(x.strip() for x in re.findall(r"(?m)^\s*·\s*(.*)$", b))
            if head.startswith("Error:") and "veryl check failed" in b and not locs:
                continue            # the summary line
            out.append((sev, code, msg, locs, labels))
        return sorted(out)


def tree_snapshot(root, subdirs=None, exclude=(".build",)):
    """{relative path: sha256 hex} for every regular file under root (or the listed sub-paths),
    skipping `exclude` directory names and the advisory lock files."""
    res = {}
    for base, dirs, files in os.walk(root):
        dirs[:] = sorted(d for d in dirs if d not in exclude)
        for f in sorted(files):
            p = os.path.join(base, f)
            rel = os.path.relpath(p, root)
            try:
                with open(p, "rb") as fh:
                    res[rel] = hashlib.sha256(fh.read()).hexdigest()
            except OSError:
                res[rel] = "unreadable"
    return res


class Sandbox:
    """A project on disk under `base` (created by the caller via C.scratch_dir) plus a private
    HOME.  `root` is the project directory."""

    def __init__(self, base, veryl, name="prj"):
        self.base = base
        self.veryl = veryl
        self.root = os.path.join(base, name)
        self.home = os.path.join(base, "home")
        os.makedirs(self.home, exist_ok=True)
        self.clock = time.time_ns() - 3600 * 10**9     # source mtimes: monotone, in the past

    # -- environment
    def env(self, extra=None):
        e = {k: v for k, v in os.environ.items() if not k.startswith("VERYL_")}
        e.update({"HOME": self.home, "XDG_CACHE_HOME": os.path.join(self.home, ".cache"),
                  "XDG_CONFIG_HOME": os.path.join(self.home, ".config"),
                  "XDG_DATA_HOME": os.path.join(self.home, ".local/share"),
                  "NO_COLOR": "1", "RUST_BACKTRACE": "0", "CLICOLOR": "0"})
        if extra:
            e.update(extra)
        return e

    def run(self, args, root=None, extra_env=None, timeout=300):
        root = root or self.root
        try:
            p = subprocess.run([self.veryl] + list(args), cwd=root, env=self.env(extra_env),
                               capture_output=True, timeout=timeout)
            return RunResult(p.returncode, p.stdout.decode("utf8", "replace"),
                             p.stderr.decode("utf8", "replace"), root)
        except subprocess.TimeoutExpired:
            return RunResult(124, "", "TIMEOUT", root)

    # -- files
    def _tick(self):
        # source mtimes advance with real time so that an edit made after a build is newer than
        # that build's generated-file stamps; never backwards
        self.clock = max(self.clock + 1000, time.time_ns())
        return self.clock

    def write_src(self, rel, text, keep_mtime=False, root=None):
        p = os.path.join(root or self.root, rel)
        os.makedirs(os.path.dirname(p), exist_ok=True)
        old = None
        if keep_mtime and os.path.exists(p):
            old = os.stat(p).st_mtime_ns
        with open(p, "w") as f:
            f.write(text)
        t = old if old is not None else self._tick()
        os.utime(p, ns=(t, t))

    def materialise(self, prj):
        os.makedirs(self.root, exist_ok=True)
        with open(os.path.join(self.root, "Veryl.toml"), "w") as f:
            f.write(render_toml(prj.toml))
        for rel, s in sorted(prj.files.items()):
            self.write_src(rel, render_file(s))

    def output_files(self, prj):
        """existing generated files by class, from the project's own configuration"""
        res = {"sv": [], "map": [], "filelist": []}
        for base, dirs, files in os.walk(self.root):
            dirs[:] = sorted(d for d in dirs if d != ".build")
            for f in sorted(files):
                p = os.path.join(base, f)
                if f.endswith(".sv.map"):
                    res["map"].append(p)
                elif f.endswith(".sv"):
                    res["sv"].append(p)
                elif f.endswith(".f"):
                    res["filelist"].append(p)
        return res

    def apply(self, prj, st):
        """Apply one non-command step on disk (and to the in-memory project)."""
        op = st["op"]
        if op in ("edit", "add"):
            self.write_src(st["path"], render_file(st["spec"]), keep_mtime=st.get("keep_mtime", False))
        elif op == "delete":
            p = os.path.join(self.root, st["path"])
            if os.path.exists(p):
                os.remove(p)
        elif op == "rename":
            p, q = os.path.join(self.root, st["path"]), os.path.join(self.root, st["to"])
            if os.path.exists(p):
                os.makedirs(os.path.dirname(q), exist_ok=True)
                os.rename(p, q)
        elif op == "touch":
            p = os.path.join(self.root, st["path"])
            if os.path.exists(p):
                t = self._tick()
                os.utime(p, ns=(t, t))
        elif op == "toml":
            apply_step_to_project(prj, st)
            with open(os.path.join(self.root, "Veryl.toml"), "w") as f:
                f.write(render_toml(prj.toml))
            return
        elif op in ("out_delete", "out_touch", "out_damage"):
            outs = self.output_files(prj)[st["which"]]
            if outs:
                p = outs[st["index"] % len(outs)]
                st["resolved"] = os.path.relpath(p, self.root)
                if op == "out_delete":
                    os.remove(p)
                elif op == "out_touch":
                    os.utime(p, None)
                else:
                    data = open(p, "rb").read()
                    how = st.get("how", "empty")
                    if how == "empty":
                        data = b""
                    elif how == "truncate":
                        data = data[:len(data) // 2]
                    elif how == "append":
                        data = data + b"// hand edit\n"
                    else:
                        data = b"garbage\n"
                    with open(p, "wb") as f:
                        f.write(data)
            return
        apply_step_to_project(prj, st)

    def clone_tree(self, dst_name, drop_build=True):
        """Copy of the project (mtimes preserved) for the reference run; `.build` left out."""
        dst = os.path.join(self.base, dst_name)
        shutil.rmtree(dst, ignore_errors=True)
        shutil.copytree(self.root, dst, symlinks=True,
                        ignore=shutil.ignore_patterns(".build") if drop_build else None)
        return dst

    def snapshot(self, root=None):
        return tree_snapshot(root or self.root)

    def norm_tree(self, root, roots=None, exclude=(".build",)):
        """{relative path: sha256 of contents} with every project root path occurring INSIDE files
        (absolute filelists) replaced, so that trees at different locations compare equal."""
        roots = roots or (root,)
        res = {}
        for base, dirs, files in os.walk(root):
            dirs[:] = sorted(d for d in dirs if d not in exclude)
            for f in sorted(files):
                p = os.path.join(base, f)
                try:
                    with open(p, "rb") as fh:
                        data = fh.read()
                except OSError:
                    data = b"<unreadable>"
                for r_ in sorted(roots, key=len, reverse=True):
                    data = data.replace(r_.encode(), b"<ROOT>")
                res[os.path.relpath(p, root)] = hashlib.sha256(data).hexdigest()
        return res

    def run_vs_clean(self, args, clean_name="clean", extra_env=None):
        """Run `veryl <args>` in the project and in a fresh copy without `.build`; returns
        (result, clean result, differences) where differences is a list of
        (kind in status|diagnostics|tree|panic, description, relative path or None)."""
        clean_root = self.clone_tree(clean_name)
        r = self.run(args, extra_env=extra_env)
        c = self.run(args, root=clean_root)
        roots = (clean_root, self.root)
        ti, tc = self.norm_tree(self.root, roots), self.norm_tree(clean_root, roots)
        diffs = []
        if r.panic:
            diffs.append(("panic", "veryl %s panicked: %s" % (" ".join(args), r.stderr[-300:]), None))
        if r.rc != c.rc:
            diffs.append(("status", "exit status %s, clean run %s" % (r.rc, c.rc), None))
        di, dc = r.diagnostics(), c.diagnostics()
        if di != dc:
            diffs.append(("diagnostics", "diagnostics differ: only here %s; only clean %s" % (
                [d for d in di if d not in dc][:3], [d for d in dc if d not in di][:3]), None))
        for p in sorted(set(ti) | set(tc)):
            if ti.get(p) != tc.get(p):
                diffs.append(("tree", "%s differs from the clean run (%s)" % (
                    p, "missing" if p not in ti else "extra" if p not in tc else "content"), p))
        return r, c, diffs
