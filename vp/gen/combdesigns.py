"""Generator for C14 (combinational loop detection is exact).

Every generated design exists in two forms made from ONE python structure, so that both sides see
the same program:
  * Veryl text (fed to the real analyzer through harness/combloop);
  * the abstract design of coq/CombLoop/BitGraph.v (dexp / stmt / func / item over bit nodes),
    printed as a Coq term for the Gallina reference `design_has_cycle` and also evaluated by the
    python mirror below (used for shrinking and as a cross-check of the term printer).

The abstract form exists in several MODES: "exact" is the design as it is; every other mode
replaces one construct by the behaviour the detector is known to have for it (each a finding of
KNOWN_FINDINGS.txt).  The check accepts a verdict that differs from "exact" only when the mode
semantics reproduce it, and then reports the finding by its key.

Families (tags): random, shift, seq, cross, func, inst, wide, cond, carry, dyn, blockshift, array, fallback, opaque.
"""
import random

# --------------------------------------------------------------------------------------------
# known-deviation modes (flags).  key in KNOWN_FINDINGS.txt = the flag name
FLAGS = ("neg-positional", "dyn-write-kills", "carry-beyond-operand-width", "shift-under-all-to-all",
         "inst-port-level", "blocking-assign-atom-by-atom", "partition-not-closed")


class Mode:
    """a set of flags; `atoms(module name, variable name, element) -> [(start, length)]` gives the detector's own
    bit partition where a flag needs it"""

    def __init__(self, flags=(), atoms=None):
        self.flags = frozenset(flags)
        self.atoms = atoms
        self.module = None

    def __contains__(self, f):
        return f in self.flags


def as_mode(m):
    return m if isinstance(m, Mode) else Mode(m)
# the first three and inst-port-level change the abstract design; partition-not-closed is the
# quotient by the detector's own bit partition (applied by the check, needs the partition dump)


class Var:
    def __init__(self, name, kind, width, n=1, members=None, role="var"):
        self.name = name
        self.kind = kind            # vec | arr | struct
        self.width = width          # element width (vec/arr), total width (struct)
        self.n = n                  # array length
        self.members = members      # [(name, width)] first = most significant
        self.role = role            # in | out | var | formal | ret | local
        self.base = None

    @property
    def total(self):
        return self.width * self.n if self.kind == "arr" else self.width

    def member_off(self, m):
        off = 0
        for (nm, w) in reversed(self.members):
            if nm == m:
                return off, w
            off += w
        raise KeyError(m)

    def decl_type(self):
        if self.kind == "struct":
            return "S_" + self.name
        t = "logic" if self.width == 1 else "logic<%d>" % self.width
        if self.kind == "arr":
            t += " [%d]" % self.n
        return t


class Ref:
    """bits lo .. lo+len-1 of (element elem of / member of) var"""

    def __init__(self, var, lo, length, elem=None, member=None):
        self.var, self.lo, self.len, self.elem, self.member = var, lo, length, elem, member

    def unit_width(self):
        if self.member is not None:
            return self.var.member_off(self.member)[1]
        return self.var.width

    def node(self):
        b = self.var.base + self.lo
        if self.elem is not None:
            b += self.elem * self.var.width
        if self.member is not None:
            b += self.var.member_off(self.member)[0]
        return b

    def text(self, explicit=False):
        s = self.var.name
        if self.elem is not None:
            s += "[%d]" % self.elem
        if self.member is not None:
            s += "." + self.member
        uw = self.unit_width()
        if self.var.kind == "struct" and self.member is None:
            return s
        if self.lo == 0 and self.len == uw and not explicit:
            return s
        if self.len == 1:
            return s + "[%d]" % self.lo
        return s + "[%d:%d]" % (self.lo + self.len - 1, self.lo)


# --------------------------------------------------------------------------------------------
# expressions: python tuples
#   ('const', w, v) ('ref', Ref) ('cat', [parts, MSB first]) ('bit', op, a, b) ('not', a) ('plus', a)
#   ('neg', a) ('arith', op, a, b, wctx) ('cmp', op, a, b) ('red', op, a) ('mux', c, a, b) ('shl', a, k) ('shr', a, k)
#   ('dynread', var, idx) ('call', findex, fname, [args], retw)

def ewidth(e):
    t = e[0]
    if t == "const":
        return e[1]
    if t == "ref":
        return e[1].len
    if t == "cat":
        return sum(ewidth(p) for p in e[1])
    if t == "bit":
        return max(ewidth(e[2]), ewidth(e[3]))
    if t in ("not", "plus", "neg"):
        return ewidth(e[1])
    if t == "arith":
        return e[4]
    if t in ("cmp", "red", "dynread"):
        return 1
    if t == "mux":
        return max(ewidth(e[2]), ewidth(e[3]))
    if t in ("shl", "shr"):
        return ewidth(e[1])
    if t == "call":
        return e[4]
    raise ValueError(t)


def lit(w, v):
    return "%d'h%x" % (w, v & ((1 << w) - 1))


def etext(e):
    t = e[0]
    if t == "const":
        return lit(e[1], e[2])
    if t == "ref":
        return e[1].text()
    if t == "cat":
        return "{" + ", ".join(etext(p) for p in e[1]) + "}"
    if t == "bit":
        return "(%s %s %s)" % (etext(e[2]), e[1], etext(e[3]))
    if t == "not":
        return "(~%s)" % etext(e[1])
    if t == "plus":
        return "(+%s)" % etext(e[1])
    if t == "neg":
        return "(-%s)" % etext(e[1])
    if t == "arith":
        return "(%s %s %s)" % (etext(e[2]), e[1], etext(e[3]))
    if t == "cmp":
        return "(%s %s %s)" % (etext(e[2]), e[1], etext(e[3]))
    if t == "red":
        return "(%s%s)" % (e[1], etext(e[2]))
    if t == "mux":
        return "(if %s ? %s : %s)" % (etext(e[1]), etext(e[2]), etext(e[3]))
    if t == "shl":
        return "(%s << %d)" % (etext(e[1]), e[2])
    if t == "shr":
        return "(%s >> %d)" % (etext(e[1]), e[2])
    if t == "dynread":
        return "%s[%s]" % (e[1].name, etext(e[2]))
    if t == "call":
        return "%s(%s)" % (e[2], ", ".join(etext(a) for a in e[3]))
    raise ValueError(t)


def eabs(e, mode, full=False):
    """abstract dexp (python tuples mirroring coq/CombLoop/BitGraph.v) under the given set of flags;
    full: e sits below an all-to-all operator or a condition"""
    t = e[0]
    if t == "const":
        return ("const", e[1])
    if t == "ref":
        return ("ref", e[1].node(), e[1].len)
    if t == "cat":
        return ("cat", [eabs(p, mode, full) for p in reversed(e[1])])
    if t == "bit":
        return ("bit", eabs(e[2], mode, full), eabs(e[3], mode, full))
    if t in ("not", "plus"):
        return ("not", eabs(e[1], mode, full))
    if t == "neg":
        if "neg-positional" in mode:
            return ("not", eabs(e[1], mode, full))
        return ("tri", eabs(e[1], mode, full))
    if t == "arith":
        w = e[4]
        if "carry-beyond-operand-width" in mode:
            w = max(ewidth(e[2]), ewidth(e[3]))
        return ("full", w, [eabs(e[2], mode, True), eabs(e[3], mode, True)])
    if t == "cmp":
        return ("full", 1, [eabs(e[2], mode, True), eabs(e[3], mode, True)])
    if t == "red":
        return ("full", 1, [eabs(e[2], mode, True)])
    if t == "mux":
        return ("mux", eabs(e[1], mode, True), eabs(e[2], mode, full), eabs(e[3], mode, full))
    if t in ("shl", "shr"):
        if full and "shift-under-all-to-all" in mode:
            # the detector collects every read below an all-to-all operator / a condition, shifted out or not
            return eabs(e[1], mode, full)
        return (t, eabs(e[1], mode, full), e[2])
    if t == "dynread":
        v = e[1]
        return ("full", 1, [("ref", v.base, v.total), eabs(e[2], mode, True)])
    if t == "call":
        return ("call", e[1], [eabs(a, mode) for a in e[3]])
    raise ValueError(t)


# statements: ('assign', Ref, e) ('if', c, then, else|None) ('case', target, [(value, stmts)], default|None)
#             ('dynwrite', var, idx, e1)

def stext(s, ind):
    pad = "    " * ind
    t = s[0]
    if t == "assign":
        return pad + "%s = %s;\n" % (s[1].text(), etext(s[2]))
    if t == "dynwrite":
        return pad + "%s[%s] = %s;\n" % (s[1].name, etext(s[2]), etext(s[3]))
    if t == "if":
        out = pad + "if %s {\n" % etext(s[1]) + "".join(stext(x, ind + 1) for x in s[2]) + pad + "}"
        if s[3] is not None:
            out += " else {\n" + "".join(stext(x, ind + 1) for x in s[3]) + pad + "}"
        return out + "\n"
    if t == "case":
        w = ewidth(s[1])
        out = pad + "case %s {\n" % etext(s[1])
        for (v, body) in s[2]:
            out += pad + "    %s: {\n" % lit(w, v) + "".join(stext(x, ind + 2) for x in body) + pad + "    }\n"
        if s[3] is not None:
            out += pad + "    default: {\n" + "".join(stext(x, ind + 2) for x in s[3]) + pad + "    }\n"
        return out + pad + "}\n"
    raise ValueError(t)


def sabs(s, mode):
    t = s[0]
    if t == "assign":
        whole = ("assign", s[1].node(), s[1].len, eabs(s[2], mode))
        if "blocking-assign-atom-by-atom" in mode and mode.atoms is not None:
            # the detector binds the atoms of the destination one after the other, in ascending order, and
            # evaluates the right side anew for each: a later atom reads the NEW value of an earlier one
            r = s[1]
            lo = r.lo + (r.var.member_off(r.member)[0] if r.member else 0)
            atoms = mode.atoms(mode.module, r.var.name, r.elem or 0) or []
            cuts = sorted(set([lo, lo + r.len] + [x for (a, l) in atoms for x in (a, a + l) if lo < x < lo + r.len]))
            if len(cuts) > 2:
                e = eabs(s[2], mode)
                parts = [("assign", r.node() + (c0 - lo), c1 - c0, ("sel", e, c0 - lo, c1 - c0))
                         for c0, c1 in zip(cuts, cuts[1:])]
                return ("branch", [], [parts])
        return whole
    if t == "dynwrite":
        v = s[1]
        full = ("full", v.total, [eabs(s[2], mode, True), eabs(s[3], mode, True)])
        if "dyn-write-kills" in mode:
            return ("assign", v.base, v.total, full)
        return ("assign", v.base, v.total, ("bit", full, ("ref", v.base, v.total)))
    if t == "if":
        return ("branch", [eabs(s[1], mode, True)],
                [[sabs(x, mode) for x in s[2]], [sabs(x, mode) for x in (s[3] or [])]])
    if t == "case":
        arms = [[sabs(x, mode) for x in body] for (_, body) in s[2]]
        arms.append([sabs(x, mode) for x in (s[3] or [])])
        return ("branch", [eabs(s[1], mode, True)], arms)
    raise ValueError(t)


class Func:
    def __init__(self, name, formals, retw, locals_, body, ret_expr):
        self.name, self.formals, self.retw, self.locals, self.body, self.ret_expr = \
            name, formals, retw, locals_, body, ret_expr
        self.ret = Var("ret_" + name, "vec", retw, role="ret")

    def text(self):
        args = ", ".join("%s: input %s" % (f.name, f.decl_type()) for f in self.formals)
        out = "    function %s (%s) -> %s {\n" % (self.name, args, self.ret.decl_type())
        for v in self.locals:
            out += "        var %s: %s;\n" % (v.name, v.decl_type())
        out += "".join(stext(s, 2) for s in self.body)
        out += "        return %s;\n    }\n" % etext(self.ret_expr)
        return out

    def abs(self, mode):
        body = [sabs(s, mode) for s in self.body]
        body.append(("assign", self.ret.base, self.retw, eabs(self.ret_expr, mode)))
        return ([(f.base, f.width) for f in self.formals], (self.ret.base, self.retw), body)


class Module:
    def __init__(self, name):
        self.name = name
        self.vars = []        # ports and variables, in declaration order
        self.funcs = []
        self.items = []       # ('assign', Ref, e) ('comb', [stmts]) ('inst', iname, Module, [(port Var, e)], [(port Var, Ref)], off)
                              # ('opaque', text)  -- documented-opaque construct: text only, no abstract edges
        self.size = 0

    def add(self, v):
        self.vars.append(v)
        return v

    def layout(self):
        """assign node bases: module variables first, then function formals / locals / returns"""
        n = 0
        for v in self.vars:
            v.base = n
            n += v.total
        for f in self.funcs:
            for v in f.formals + f.locals + [f.ret]:
                v.base = n
                n += v.total
        self.own_size = n
        # every instance gets its own copy of the child's node space
        for it in self.items:
            if it[0] == "inst":
                it[2].layout_once()
                it[5][0] = n
                n += it[2].size
        self.size = n

    def layout_once(self):
        if not self.size:
            self.layout()

    def text(self):
        ports = [v for v in self.vars if v.role in ("in", "out", "inout")]
        out = "module %s (\n" % self.name
        for v in ports:
            d = {"in": "input", "out": "output", "inout": "inout"}[v.role]
            ty = ("tri " if v.role == "inout" else "") + v.decl_type()
            out += "    %s: %s %s,\n" % (v.name, d, ty)
        out += ") {\n"
        for v in self.vars:
            if v.kind == "struct":
                out += "    struct S_%s {\n" % v.name
                for (m, w) in v.members:
                    out += "        %s: %s,\n" % (m, "logic" if w == 1 else "logic<%d>" % w)
                out += "    }\n"
        for v in self.vars:
            if v.role == "var":
                out += "    var %s: %s;\n" % (v.name, v.decl_type())
            elif v.role == "trivar":
                out += "    var %s: tri %s;\n" % (v.name, v.decl_type())
        for f in self.funcs:
            out += f.text()
        for it in self.items:
            if it[0] == "assign":
                out += "    assign %s = %s;\n" % (it[1].text(), etext(it[2]))
            elif it[0] == "comb":
                out += "    always_comb {\n" + "".join(stext(s, 2) for s in it[1]) + "    }\n"
            elif it[0] == "inst":
                conns = ["%s: %s" % (p.name, etext(e)) for (p, e) in it[3]] + \
                        ["%s: %s" % (p.name, r.text()) for (p, r) in it[4]]
                out += "    inst %s: %s (\n        %s,\n    );\n" % (it[1], it[2].name, ",\n        ".join(conns))
            elif it[0] == "opaque":
                out += it[1]
        out += "}\n"
        return out

    def abs(self, mode):
        """(funcs, items) as python tuples"""
        mode = as_mode(mode)
        outer, mode.module = mode.module, self.name
        try:
            return self._abs(mode)
        finally:
            mode.module = outer

    def _abs(self, mode):
        funcs = [f.abs(mode) for f in self.funcs]
        items = []
        for it in self.items:
            if it[0] == "assign":
                items.append(("assign", it[1].node(), it[1].len, eabs(it[2], mode)))
            elif it[0] == "comb":
                items.append(("comb", [sabs(s, mode) for s in it[1]]))
            elif it[0] == "inst":
                cf, ci = it[2].abs(mode)
                ins = [(p.base, p.total, eabs(e, mode)) for (p, e) in it[3]]
                outs = [(r.node(), r.len, p.base) for (p, r) in it[4]]
                items.append(("inst", "inst-port-level" in mode, it[5][0], cf, ci, ins, outs))
        return funcs, items


class Design:
    def __init__(self, modules, family, tags=()):
        self.modules = modules      # children first, top last
        self.family = family
        self.tags = set(tags)
        for m in modules:
            m.size = 0
        for m in modules:
            m.layout_once()

    def text(self):
        return "\n".join(m.text() for m in self.modules)

    def roots(self, mode):
        """every module is analysed on its own by the detector, instances included"""
        mode = as_mode(mode)
        return [m.abs(mode) for m in self.modules]


# --------------------------------------------------------------------------------------------
# Coq term printer

def _nat(n):
    return "%d%%nat" % n


def coq_dexp(e):
    t = e[0]
    if t == "const":
        return "(DConst %s)" % _nat(e[1])
    if t == "ref":
        return "(DRef %d %s)" % (e[1], _nat(e[2]))
    if t == "cat":
        return "(DCat [%s])" % "; ".join(coq_dexp(p) for p in e[1])
    if t == "bit":
        return "(DBit %s %s)" % (coq_dexp(e[1]), coq_dexp(e[2]))
    if t == "not":
        return "(DNot %s)" % coq_dexp(e[1])
    if t == "full":
        return "(DFull %s [%s])" % (_nat(e[1]), "; ".join(coq_dexp(p) for p in e[2]))
    if t == "tri":
        return "(DTri %s)" % coq_dexp(e[1])
    if t == "mux":
        return "(DMux %s %s %s)" % (coq_dexp(e[1]), coq_dexp(e[2]), coq_dexp(e[3]))
    if t == "shl":
        return "(DShl %s %s)" % (coq_dexp(e[1]), _nat(e[2]))
    if t == "shr":
        return "(DShr %s %s)" % (coq_dexp(e[1]), _nat(e[2]))
    if t == "call":
        return "(DCall %s [%s])" % (_nat(e[1]), "; ".join(coq_dexp(p) for p in e[2]))
    if t == "sel":
        return "(DSel %s %s %s)" % (coq_dexp(e[1]), _nat(e[2]), _nat(e[3]))
    raise ValueError(t)


def coq_stmt(s):
    if s[0] == "assign":
        return "SAssign %d %s %s" % (s[1], _nat(s[2]), coq_dexp(s[3]))
    return "SBranch [%s] [%s]" % ("; ".join(coq_dexp(c) for c in s[1]),
                                  "; ".join("[" + "; ".join(coq_stmt(x) for x in arm) + "]" for arm in s[2]))


def coq_func(f):
    formals, ret, body = f
    return "mkFunc [%s] (%d, %s) [%s]" % ("; ".join("(%d, %s)" % (b, _nat(w)) for (b, w) in formals),
                                          ret[0], _nat(ret[1]), "; ".join(coq_stmt(s) for s in body))


def coq_item(it):
    if it[0] == "assign":
        return "IAssign %d %s %s" % (it[1], _nat(it[2]), coq_dexp(it[3]))
    if it[0] == "comb":
        return "IComb [%s]" % "; ".join(coq_stmt(s) for s in it[1])
    _, pl, off, cf, ci, ins, outs = it
    return "IInst %s %d [%s] [%s] [%s] [%s]" % (
        "true" if pl else "false", off, "; ".join(coq_func(f) for f in cf),
        "; ".join(coq_item(c) for c in ci),
        "; ".join("(%d, %s, %s)" % (pb, _nat(w), coq_dexp(e)) for (pb, w, e) in ins),
        "; ".join("(%d, %s, %d)" % (tb, _nat(l), cb) for (tb, l, cb) in outs))


def coq_root(root, starts=None):
    funcs, items = root
    body = "[%s], [%s]" % ("; ".join(coq_func(f) for f in funcs), "; ".join(coq_item(i) for i in items))
    if starts is None:
        return "(%s)" % body
    return "([%s], (%s))" % ("; ".join(str(s) for s in starts), body)


# --------------------------------------------------------------------------------------------
# python mirror of coq/CombLoop/BitGraph.v (eval / exec / lower / has_cycle)

def _vbit(v, i):
    return v[i] if i < len(v) else frozenset()


def _vall(v):
    out = set()
    for d in v:
        out |= d
    return frozenset(out)


_RDM = [None]     # members map of the partition the design is seen through (None: the design as it is)


def _rdb(st, n):
    rdm = _RDM[0]
    if rdm is None or n not in rdm:
        return st.get(n, frozenset([n]))
    out = frozenset()
    for k in rdm[n]:
        out |= st.get(k, frozenset([k]))
    return out


def py_eval(e, st, funcs, depth):
    t = e[0]
    if t == "const":
        return [frozenset()] * e[1]
    if t == "ref":
        return [_rdb(st, n) for n in range(e[1], e[1] + e[2])]
    if t == "cat":
        out = []
        for p in e[1]:
            out += py_eval(p, st, funcs, depth)
        return out
    if t == "bit":
        a, b = py_eval(e[1], st, funcs, depth), py_eval(e[2], st, funcs, depth)
        return [_vbit(a, i) | _vbit(b, i) for i in range(max(len(a), len(b)))]
    if t == "not":
        return py_eval(e[1], st, funcs, depth)
    if t == "full":
        d = frozenset()
        for p in e[2]:
            d |= _vall(py_eval(p, st, funcs, depth))
        return [d] * e[1]
    if t == "tri":
        acc, out = frozenset(), []
        for d in py_eval(e[1], st, funcs, depth):
            acc = acc | d
            out.append(acc)
        return out
    if t == "mux":
        c = _vall(py_eval(e[1], st, funcs, depth))
        a, b = py_eval(e[2], st, funcs, depth), py_eval(e[3], st, funcs, depth)
        return [c | _vbit(a, i) | _vbit(b, i) for i in range(max(len(a), len(b)))]
    if t == "shl":
        a = py_eval(e[1], st, funcs, depth)
        return ([frozenset()] * e[2] + a)[:len(a)]
    if t == "shr":
        a = py_eval(e[1], st, funcs, depth)
        return (a[e[2]:] + [frozenset()] * e[2])[:len(a)]
    if t == "sel":
        a = py_eval(e[1], st, funcs, depth)
        return [_vbit(a, e[2] + i) for i in range(e[3])]
    if t == "call":
        args = [py_eval(p, st, funcs, depth) for p in e[2]]
        if depth <= 0 or e[1] >= len(funcs):
            return []
        formals, ret, body = funcs[e[1]]
        s2 = dict(st)
        for (b, w), a in zip(formals, args):
            for i in range(w):
                s2[b + i] = _vbit(a, i)
        s2 = py_block(body, frozenset(), s2, funcs, depth - 1)
        return [s2.get(n, frozenset([n])) for n in range(ret[0], ret[0] + ret[1])]
    raise ValueError(t)


def py_exec(s, ctl, st, funcs, depth, wr):
    """st is never mutated; wr collects the nodes written"""
    if s[0] == "assign":
        v = py_eval(s[3], st, funcs, depth)
        st = dict(st)
        for i in range(s[2]):
            st[s[1] + i] = ctl | _vbit(v, i)
            wr.add(s[1] + i)
        return st
    c = ctl
    for ce in s[1]:
        c = c | _vall(py_eval(ce, st, funcs, depth))
    outs = []
    written = set()
    for arm in s[2]:
        outs.append(py_block(arm, c, st, funcs, depth, written))
    res = dict(st)
    for n in written:
        d = frozenset()
        for o in outs:
            if n in o:
                d |= o[n]
        res[n] = d
    wr |= written
    return res


def py_block(stmts, ctl, st, funcs, depth, wr=None):
    if wr is None:
        wr = set()
    for s in stmts:
        st = py_exec(s, ctl, st, funcs, depth, wr)
    return st


def py_reaches(g, srcs, dsts):
    r = set(srcs)
    changed = True
    while changed:
        changed = False
        for (a, ds) in g:
            if a in r and not ds <= r:
                r |= ds
                changed = True
    return any(d in r for d in dsts)


def py_lower(funcs, it, cls):
    depth = len(funcs) + 1
    if it[0] == "assign":
        v = py_eval(it[3], {}, funcs, depth)
        return [(it[1] + i, _vbit(v, i)) for i in range(it[2])]
    if it[0] == "comb":
        st = py_block(it[1], frozenset(), {}, funcs, depth)
        return sorted(st.items())
    _, pl, off, cf, ci, ins, outs = it
    cg = []
    for c in ci:
        cg += [(off + a, frozenset(off + d for d in ds)) for (a, ds) in py_lower(cf, c, cls)]
    g = list(cg)
    if pl:
        qg = [(cls(a), frozenset(cls(d) for d in ds)) for (a, ds) in cg]
        for (tb, ln, cb) in outs:
            feeding = frozenset()
            for (pb, w, e) in ins:
                if py_reaches(qg, [cls(off + cb + i) for i in range(ln)], [cls(off + pb + i) for i in range(w)]):
                    feeding |= _vall(py_eval(e, {}, funcs, depth))
            g += [(tb + i, feeding) for i in range(ln)]
    else:
        for (pb, w, e) in ins:
            v = py_eval(e, {}, funcs, depth)
            g += [(off + pb + i, _vbit(v, i)) for i in range(w)]
        for (tb, ln, cb) in outs:
            g += [(tb + i, frozenset([off + cb + i])) for i in range(ln)]
    return g


def py_graph(root, cls=None, members=None):
    """members: {bit: all bits of its class} -> one SSA version per class (a read of a bit reads its class)"""
    cls = cls or (lambda n: n)
    funcs, items = root
    g = []
    _RDM[0] = members
    try:
        for it in items:
            g += py_lower(funcs, it, cls)
    finally:
        _RDM[0] = None
    return g


def py_has_cycle(g):
    """iterated pruning, exactly as has_cycle"""
    es = [(a, ds) for (a, ds) in g]
    while True:
        owners = set(a for (a, _) in es)
        nxt = [(a, ds) for (a, ds) in es if ds & owners]
        if len(nxt) == len(es):
            return bool(es)
        es = nxt


def py_quotient(g, cls):
    return [(cls(a), frozenset(cls(d) for d in ds)) for (a, ds) in g]


def cls_of(starts):
    import bisect
    starts = sorted(starts)

    def f(n):
        i = bisect.bisect_right(starts, n)
        return starts[i - 1] if i else n
    return f


def py_verdict(design, mode, starts_per_root=None):
    roots = design.roots(as_mode(mode))
    for k, root in enumerate(roots):
        if starts_per_root is None:
            if py_has_cycle(py_graph(root)):
                return True
        else:
            c = cls_of(starts_per_root[k])
            if py_has_cycle(py_quotient(py_graph(root, c), c)):
                return True
    return False


# --------------------------------------------------------------------------------------------
# random generation

WIDTHS_SMALL = [1, 1, 2, 2, 3, 3, 4, 4, 4, 5, 6, 7, 8, 8]
WIDTHS_WIDE = [63, 64, 65, 66, 70, 96, 127, 128, 129, 130]


class Ctx:
    """what an expression may read: lists of (Var) with the probability of reading "backwards" """

    def __init__(self, rng, module, sources, back, funcs=(), allow_arith=True):
        self.rng, self.module = rng, module
        self.sources = sources      # regions (Ref) that are safe to read: inputs / driven earlier
        self.back = back            # all readable variables (may close a cycle)
        self.p_back = 0.3
        self.funcs = list(funcs)
        self.allow_arith = allow_arith


def pick_ref(rng, var, w):
    """a random w-bit slice of var (None if it has no unit that wide)"""
    units = []
    if var.kind == "vec":
        units = [(None, None, var.width)]
    elif var.kind == "arr":
        units = [(e, None, var.width) for e in range(var.n)]
    else:
        units = [(None, m, mw) for (m, mw) in var.members]
    units = [u for u in units if u[2] >= w]
    if not units:
        return None
    e, m, uw = rng.choice(units)
    lo = rng.choice([0, uw - w, rng.randint(0, uw - w)])
    return Ref(var, lo, w, elem=e, member=m)


def whole_refs(v):
    """the units of a variable as regions"""
    if v.kind == "vec":
        return [Ref(v, 0, v.width)]
    if v.kind == "arr":
        return [Ref(v, 0, v.width, elem=e) for e in range(v.n)]
    return [Ref(v, 0, mw, member=m) for (m, mw) in v.members]


def pick_sub(rng, region, w):
    if region.len < w:
        return None
    off = rng.choice([0, region.len - w, rng.randint(0, region.len - w)])
    return Ref(region.var, region.lo + off, w, elem=region.elem, member=region.member)


def gen_leaf(ctx, w):
    rng = ctx.rng
    back = ctx.back and rng.random() < ctx.p_back
    for _ in range(6):
        if back:
            r = pick_ref(rng, rng.choice(ctx.back), w)
        elif ctx.sources:
            r = pick_sub(rng, rng.choice(ctx.sources), w)
        else:
            break
        if r is not None:
            return ("ref", r)
    # no region wide enough: build from pieces or fall back to a literal
    if w > 1 and rng.random() < 0.7:
        k = rng.randint(1, w - 1)
        return ("cat", [gen_leaf(ctx, w - k), gen_leaf(ctx, k)])
    return ("const", w, rng.getrandbits(min(w, 60)))


def has_ref(e):
    t = e[0]
    if t in ("ref", "dynread", "call"):
        return True
    if t == "const":
        return False
    if t == "cat":
        return any(has_ref(p) for p in e[1])
    return any(has_ref(x) for x in e[1:] if isinstance(x, tuple))


def gen_cond(ctx, depth):
    """a 1-bit condition that reads at least one variable (a constant condition is folded away by the
    analyzer: the dead branch is no part of the design)"""
    for _ in range(5):
        c = gen_cond_raw(ctx, depth)
        if has_ref(c):
            return c
    return ("ref", pick_sub(ctx.rng, ctx.rng.choice([r for r in ctx.sources]), 1))


def gen_cond_raw(ctx, depth):
    rng = ctx.rng
    r = rng.random()
    if r < 0.45 or depth <= 0:
        return gen_leaf(ctx, 1)
    w = rng.choice([1, 2, 3, 4])
    if r < 0.75:
        return ("cmp", rng.choice(["==", "!=", "<:", ">="]), gen_expr(ctx, w, depth - 1), gen_expr(ctx, w, depth - 1))
    return ("red", rng.choice(["|", "&", "^"]), gen_expr(ctx, rng.choice([2, 3, 4]), depth - 1))


def gen_expr(ctx, w, depth):
    rng = ctx.rng
    if depth <= 0:
        return gen_leaf(ctx, w) if rng.random() < 0.9 else ("const", w, rng.getrandbits(min(w, 60)))
    r = rng.random()
    if r < 0.30:
        return gen_leaf(ctx, w)
    if r < 0.34:
        return ("const", w, rng.getrandbits(min(w, 60)))
    if r < 0.46 and w >= 2:
        k = rng.randint(1, w - 1)
        parts = [gen_expr(ctx, w - k, depth - 1), gen_expr(ctx, k, depth - 1)]
        if w - k >= 2 and rng.random() < 0.3:
            j = rng.randint(1, w - k - 1)
            parts = [gen_expr(ctx, w - k - j, depth - 1), gen_expr(ctx, j, depth - 1), parts[1]]
        return ("cat", parts)
    if r < 0.60:
        return ("bit", rng.choice(["&", "|", "^", "~^"]), gen_expr(ctx, w, depth - 1), gen_expr(ctx, w, depth - 1))
    if r < 0.66:
        return (rng.choice(["not", "not", "plus"]), gen_expr(ctx, w, depth - 1))
    if r < 0.69:
        return ("neg", gen_expr(ctx, w, depth - 1))
    if r < 0.76 and ctx.allow_arith and w <= 16:
        return ("arith", rng.choice(["+", "-", "*"]), gen_expr(ctx, w, depth - 1), gen_expr(ctx, w, depth - 1), w)
    if r < 0.84:
        return ("mux", gen_cond(ctx, depth - 1), gen_expr(ctx, w, depth - 1), gen_expr(ctx, w, depth - 1))
    if r < 0.92:
        k = rng.choice([0, 1, 1, 2, w - 1, w, w + 1, rng.randint(0, w)])
        return (rng.choice(["shl", "shr"]), gen_expr(ctx, w, depth - 1), max(0, k))
    if w == 1 and r < 0.96:
        return gen_cond(ctx, depth)
    fs = [f for f in ctx.funcs if f[1].retw == w]
    if fs:
        k, f = rng.choice(fs)
        return ("call", k, f.name, [gen_expr(ctx, a.width, depth - 1) for a in f.formals], w)
    return gen_leaf(ctx, w)


def split_regions(rng, w, maxparts=3):
    """cut 0..w into 1..maxparts contiguous regions"""
    n = 1 if w == 1 else rng.choice([1, 1, 2, 2, 3][:2 + min(w, maxparts)])
    n = min(n, w)
    cuts = sorted(rng.sample(range(1, w), n - 1)) if n > 1 else []
    pts = [0] + cuts + [w]
    return [(pts[i], pts[i + 1] - pts[i]) for i in range(n)]


def var_regions(rng, v):
    """driver regions of a variable: list of Ref"""
    out = []
    if v.kind == "vec":
        out = [Ref(v, lo, ln) for (lo, ln) in split_regions(rng, v.width)]
    elif v.kind == "arr":
        for e in range(v.n):
            out += [Ref(v, lo, ln, elem=e) for (lo, ln) in split_regions(rng, v.width, 2)]
    else:
        for (m, mw) in v.members:
            out += [Ref(v, lo, ln, member=m) for (lo, ln) in split_regions(rng, mw, 2)]
    return out


def gen_function(rng, name, allow_arith=True):
    nf = rng.choice([1, 1, 2])
    formals = [Var("%s_a%d" % (name, i), "vec", rng.choice(WIDTHS_SMALL), role="formal") for i in range(nf)]
    retw = rng.choice([formals[0].width, rng.choice(WIDTHS_SMALL)])
    locals_ = []
    body = []
    ctx = Ctx(rng, None, [Ref(f, 0, f.width) for f in formals], [], allow_arith=allow_arith)
    if rng.random() < 0.5:
        t = Var("%s_t" % name, "vec", rng.choice(WIDTHS_SMALL), role="local")
        locals_.append(t)
        body.append(("assign", Ref(t, 0, t.width), gen_expr(ctx, t.width, 2)))
        ctx.sources = ctx.sources + [Ref(t, 0, t.width)]
        if rng.random() < 0.5:
            c = gen_cond(ctx, 1)
            body.append(("if", c, [("assign", Ref(t, 0, t.width), gen_expr(ctx, t.width, 1))],
                         [("assign", Ref(t, 0, t.width), gen_expr(ctx, t.width, 1))] if rng.random() < 0.6 else None))
    f = Func(name, formals, retw, locals_, body, gen_expr(ctx, retw, 2))
    return f


def gen_comb_body(rng, ctx, owned, depth=2):
    """a block that assigns every owned region (Refs); returns stmts"""
    stmts = []
    order = list(owned)
    rng.shuffle(order)
    own_vars = []
    for r in order:
        if r.var not in own_vars:
            own_vars.append(r.var)
    # optional read-before-write of an owned region (entry value: closes a loop on itself)
    if rng.random() < 0.12 and len(order) >= 2:
        a, b = order[0], order[1]
        if b.len >= a.len:
            stmts.append(("assign", a, ("ref", Ref(b.var, b.lo, a.len, elem=b.elem, member=b.member))))
    for r in order:
        stmts.append(("assign", r, gen_expr(ctx, r.len, depth)))
    # after the defaults the block may read its own variables: sequential reassignment
    inner = Ctx(rng, ctx.module, ctx.sources + order, ctx.back, ctx.funcs, ctx.allow_arith)
    inner.p_back = ctx.p_back
    for _ in range(rng.choice([0, 1, 1, 2, 3])):
        k = rng.random()
        r = rng.choice(order)
        sub = Ref(r.var, r.lo + rng.randint(0, r.len - 1), 1, elem=r.elem, member=r.member) if rng.random() < 0.3 else r
        if k < 0.45:
            stmts.append(("assign", sub, gen_expr(inner, sub.len, depth)))
        elif k < 0.8:
            th = [("assign", sub, gen_expr(inner, sub.len, depth - 1))]
            el = None
            if rng.random() < 0.5:
                r2 = rng.choice(order)
                el = [("assign", r2, gen_expr(inner, r2.len, depth - 1))]
            stmts.append(("if", gen_cond(inner, 1), th, el))
        else:
            tw = rng.choice([1, 2])
            target = gen_expr(inner, tw, 1)
            if not has_ref(target):
                target = gen_leaf(inner, tw)
            if not has_ref(target):
                continue
            vals = rng.sample(range(1 << tw), rng.randint(1, (1 << tw) - 1 if tw > 1 else 1))
            arms = [(v, [("assign", sub, gen_expr(inner, sub.len, depth - 1))]) for v in vals]
            default = [("assign", sub, gen_expr(inner, sub.len, depth - 1))] if rng.random() < 0.6 else None
            stmts.append(("case", target, arms, default))
    return stmts


def gen_random_module(rng, name="Top", nvars=None, wide=False, p_back=0.3, with_funcs=True, allow_arith=True,
                      n_in=None, extra_out=0):
    m = Module(name)
    widths = WIDTHS_SMALL if not wide else WIDTHS_SMALL + WIDTHS_WIDE * 2
    ins = [m.add(Var("i%d" % k, "vec", rng.choice(widths if not wide else WIDTHS_SMALL + WIDTHS_WIDE), role="in"))
           for k in range(n_in if n_in is not None else rng.choice([1, 2, 2, 3]))]
    nv = nvars or rng.choice([2, 3, 3, 4, 5, 6])
    vs = []
    for k in range(nv):
        kind = rng.choice(["vec"] * 6 + ["arr", "struct"])
        if kind == "vec":
            v = Var("v%d" % k, "vec", rng.choice(widths))
        elif kind == "arr":
            v = Var("v%d" % k, "arr", rng.choice(WIDTHS_SMALL[:10]), n=rng.choice([2, 3, 4]))
        else:
            mem = [("m%d" % j, rng.choice(WIDTHS_SMALL[:10])) for j in range(rng.choice([2, 3]))]
            v = Var("v%d" % k, "struct", sum(w for _, w in mem), members=mem)
        vs.append(m.add(v))
    outs = [m.add(Var("o%d" % k, "vec", rng.choice(WIDTHS_SMALL), role="out")) for k in range(1 + extra_out)]
    if with_funcs and rng.random() < 0.35:
        for k in range(rng.choice([1, 1, 2])):
            m.funcs.append(gen_function(rng, "f%d" % k, allow_arith))
    funcs = list(enumerate(m.funcs))
    regions = []
    for v in vs + outs:
        regions += var_regions(rng, v)
    rng.shuffle(regions)
    # drivers: some regions grouped into always_comb blocks, the rest assigns
    nblocks = rng.choice([0, 1, 1, 2, 2, 3])
    blocks = [[] for _ in range(nblocks)]
    singles = []
    for r in regions:
        if nblocks and rng.random() < 0.5:
            blocks[rng.randrange(nblocks)].append(r)
        else:
            singles.append(r)
    drivers = [("assign", r) for r in singles] + [("comb", b) for b in blocks if b]
    rng.shuffle(drivers)
    done = []     # regions already driven by earlier drivers: safe to read
    in_regions = [r for v in ins for r in whole_refs(v)]
    for d in drivers:
        ctx = Ctx(rng, m, in_regions + done, ins + vs, funcs, allow_arith)
        ctx.p_back = p_back
        if d[0] == "assign":
            m.items.append(("assign", d[1], gen_expr(ctx, d[1].len, rng.choice([1, 2, 2, 3]))))
            touched = [d[1]]
        else:
            m.items.append(("comb", gen_comb_body(rng, ctx, d[1])))
            touched = list(d[1])
        for r in touched:
            if r.var.role != "out":
                done.append(r)
    rng.shuffle(m.items)
    return m


# ---- targeted families ------------------------------------------------------------------------

def fam_shift(rng):
    """shifted self copies: chains that end at an externally driven bit / rotations that close"""
    m = Module("Top")
    w = rng.choice([2, 3, 4, 5, 6, 7, 8, 12, 16])
    k = rng.randint(1, max(1, w // 2))
    i0 = m.add(Var("i0", "vec", w, role="in"))
    a = m.add(Var("a", "vec", w))
    o = m.add(Var("o0", "vec", w, role="out"))
    shape = rng.choice(["chain_up", "chain_down", "rot_cat", "rot_parts", "chain_cat", "swap_halves", "via_b"])
    if shape == "chain_up":          # a[w-1:k] = a[w-1-k:0]; a[k-1:0] = i or closing
        m.items.append(("assign", Ref(a, k, w - k), ("ref", Ref(a, 0, w - k))))
        close = rng.random() < 0.4
        m.items.append(("assign", Ref(a, 0, k), ("ref", Ref(a, w - k, k)) if close else ("ref", Ref(i0, 0, k))))
    elif shape == "chain_down":
        m.items.append(("assign", Ref(a, 0, w - k), ("ref", Ref(a, k, w - k))))
        close = rng.random() < 0.4
        m.items.append(("assign", Ref(a, w - k, k), ("ref", Ref(a, 0, k)) if close else ("ref", Ref(i0, 0, k))))
    elif shape == "rot_cat":         # a = {a[w-1-k:0], a[w-1:w-k]}
        m.items.append(("assign", Ref(a, 0, w), ("cat", [("ref", Ref(a, 0, w - k)), ("ref", Ref(a, w - k, k))])))
    elif shape == "rot_parts":
        m.items.append(("assign", Ref(a, k, w - k), ("ref", Ref(a, 0, w - k))))
        m.items.append(("assign", Ref(a, 0, k), ("bit", "&", ("ref", Ref(a, w - k, k)), ("ref", Ref(i0, 0, k)))))
    elif shape == "chain_cat":       # a = {a[w-1-k:0], i[k-1:0]}  (shift register without clock: no loop)
        m.items.append(("assign", Ref(a, 0, w), ("cat", [("ref", Ref(a, 0, w - k)), ("ref", Ref(i0, 0, k))])))
    elif shape == "swap_halves" and w >= 2:
        h = w // 2
        m.items.append(("assign", Ref(a, w - h, h), ("ref", Ref(a, 0, h))))
        close = rng.random() < 0.4
        m.items.append(("assign", Ref(a, 0, h), ("ref", Ref(a, w - h, h)) if close else ("ref", Ref(i0, 0, h))))
        if w > 2 * h:
            m.items.append(("assign", Ref(a, h, w - 2 * h), ("ref", Ref(i0, 0, w - 2 * h))))
    else:                              # through a second variable
        b = m.add(Var("b", "vec", w))
        m.items.append(("assign", Ref(b, 0, w), ("shl" if rng.random() < 0.5 else "shr", ("ref", Ref(a, 0, w)), k)))
        close = rng.random() < 0.4
        m.items.append(("assign", Ref(a, 0, w), ("ref", Ref(b, 0, w)) if close else
                        ("bit", "|", ("ref", Ref(b, 0, w)), ("ref", Ref(i0, 0, w)))))
    m.items.append(("assign", Ref(o, 0, w), ("ref", Ref(a, 0, w))))
    return Design([m], "shift", [shape])


def fam_seq(rng):
    """always_comb with sequential reassignment: x = a; x = x op b  (no loop) and its looping cousins"""
    m = Module("Top")
    w = rng.choice([1, 2, 3, 4, 8])
    i0 = m.add(Var("i0", "vec", w, role="in"))
    i1 = m.add(Var("i1", "vec", w, role="in"))
    x = m.add(Var("x", "vec", w))
    y = m.add(Var("y", "vec", w))
    o = m.add(Var("o0", "vec", w, role="out"))
    X, Y, I0, I1 = (("ref", Ref(v, 0, w)) for v in (x, y, i0, i1))
    shape = rng.choice(["reassign", "self_first", "swap_tmp", "read_then_write", "cross_read", "branch_reassign",
                        "partial_reassign", "latch"])
    op = lambda a, b: rng.choice([("arith", "+", a, b, w), ("bit", "^", a, b), ("bit", "&", a, b)])
    if shape == "reassign":
        body = [("assign", Ref(x, 0, w), I0), ("assign", Ref(x, 0, w), op(X, I1)), ("assign", Ref(y, 0, w), X)]
    elif shape == "self_first":
        body = [("assign", Ref(x, 0, w), op(X, I1)), ("assign", Ref(y, 0, w), X)]
    elif shape == "swap_tmp":
        body = [("assign", Ref(x, 0, w), I0), ("assign", Ref(y, 0, w), X), ("assign", Ref(x, 0, w), op(Y, I1))]
    elif shape == "read_then_write":
        body = [("assign", Ref(y, 0, w), X), ("assign", Ref(x, 0, w), I0 if rng.random() < 0.5 else op(Y, I0))]
    elif shape == "cross_read":
        m.items.append(("assign", Ref(y, 0, w), op(X, I1)))
        body = [("assign", Ref(x, 0, w), I0), ("assign", Ref(x, 0, w), op(X, Y) if rng.random() < 0.5 else op(X, I1))]
    elif shape == "branch_reassign":
        c = ("ref", Ref(i1, 0, 1))
        body = [("assign", Ref(x, 0, w), I0),
                ("if", c, [("assign", Ref(x, 0, w), op(X, I1))], None if rng.random() < 0.5 else [("assign", Ref(x, 0, w), ("not", X))]),
                ("assign", Ref(y, 0, w), X)]
    elif shape == "partial_reassign":
        lo = rng.randint(0, w - 1)
        src = rng.randint(0, w - 1)
        body = [("assign", Ref(x, 0, w), I0), ("assign", Ref(x, lo, 1), ("ref", Ref(x, src, 1))), ("assign", Ref(y, 0, w), X)]
    else:
        c = ("ref", Ref(i1, 0, 1))
        body = [("if", c, [("assign", Ref(x, 0, w), op(I0, I1))], None), ("assign", Ref(y, 0, w), X)]
    m.items.append(("comb", body))
    m.items.append(("assign", Ref(o, 0, w), Y if shape != "cross_read" else X))
    return Design([m], "seq", [shape])


def fam_cross(rng):
    """variables written in one always_comb and read in another, forming / not forming a cycle"""
    m = Module("Top")
    w = rng.choice([2, 3, 4, 6])
    i0 = m.add(Var("i0", "vec", w, role="in"))
    x = m.add(Var("x", "vec", w))
    y = m.add(Var("y", "vec", w))
    z = m.add(Var("z", "vec", w))
    o = m.add(Var("o0", "vec", w, role="out"))
    b = rng.sample(range(w), 2)
    shape = rng.choice(["bit_disjoint", "bit_same", "whole", "three", "cond"])
    I0 = ("ref", Ref(i0, 0, w))
    if shape in ("bit_disjoint", "bit_same"):
        src = b[1] if shape == "bit_disjoint" else b[0]
        rest = [k for k in range(w) if k != b[0]]
        blk1 = [("assign", Ref(x, 0, w), I0), ("assign", Ref(x, b[0], 1), ("ref", Ref(y, src, 1)))]
        blk2 = [("assign", Ref(y, 0, w), I0), ("assign", Ref(y, b[0], 1), ("ref", Ref(x, b[0], 1)))]
        m.items += [("comb", blk1), ("comb", blk2)]
    elif shape == "whole":
        m.items += [("comb", [("assign", Ref(x, 0, w), ("bit", "&", ("ref", Ref(y, 0, w)), I0))]),
                    ("comb", [("assign", Ref(y, 0, w), ("bit", "|", ("ref", Ref(x, 0, w)), I0) if rng.random() < 0.5 else I0)])]
    elif shape == "three":
        close = rng.random() < 0.5
        m.items += [("comb", [("assign", Ref(x, 0, w), ("ref", Ref(z, 0, w)) if close else I0)]),
                    ("comb", [("assign", Ref(y, 0, w), ("not", ("ref", Ref(x, 0, w))))]),
                    ("comb", [("assign", Ref(z, 0, w), ("shl", ("ref", Ref(y, 0, w)), rng.choice([0, 1, w])))])]
    else:
        c = ("ref", Ref(y, b[0], 1)) if rng.random() < 0.5 else ("ref", Ref(i0, 0, 1))
        m.items += [("comb", [("assign", Ref(x, 0, w), I0), ("if", c, [("assign", Ref(x, b[1], 1), ("const", 1, 1))], None)]),
                    ("comb", [("assign", Ref(y, 0, w), ("ref", Ref(x, 0, w)))])]
    if shape != "three":
        m.items.append(("assign", Ref(z, 0, w), ("ref", Ref(x, 0, w))))
    m.items.append(("assign", Ref(o, 0, w), ("ref", Ref(y, 0, w))))
    rng.shuffle(m.items)
    return Design([m], "cross", [shape])


def fam_cond(rng):
    """loops that close only through an if / case condition or a ternary condition; the assignment that
    carries the control dependency sits in a randomly chosen arm (then / else / a case arm / default)"""
    m = Module("Top")
    w = rng.choice([1, 2, 3, 4])
    i0 = m.add(Var("i0", "vec", max(w, 2), role="in"))
    s = m.add(Var("s", "vec", 2))
    x = m.add(Var("x", "vec", w))
    y = m.add(Var("y", "vec", w))
    o = m.add(Var("o0", "vec", w, role="out"))
    I0 = ("ref", Ref(i0, 0, w))
    close = rng.random() < 0.55
    src = x if close else i0
    if w >= 2:
        sel_src = ("ref", Ref(src, rng.randint(0, w - 2), 2))
    else:
        sel_src = ("cat", [("ref", Ref(src, 0, 1)), ("ref", Ref(src, 0, 1))])
    m.items.append(("assign", Ref(s, 0, 2), sel_src))
    ax = [("assign", Ref(x, 0, w), ("not", I0))]
    ay = [("assign", Ref(y, 0, w), ("not", I0))]
    sbit = ("ref", Ref(s, rng.randint(0, 1), 1))
    shape = rng.choice(["if_then", "if_else", "if_else", "case_arm", "case_default", "ternary", "nested_then", "nested_else"])
    pre = [("assign", Ref(x, 0, w), I0), ("assign", Ref(y, 0, w), I0)]
    if shape == "if_then":
        m.items.append(("comb", pre + [("if", sbit, ax, ay if rng.random() < 0.5 else None)]))
    elif shape == "if_else":
        m.items.append(("comb", pre + [("if", sbit, ay, ax)]))
    elif shape in ("case_arm", "case_default"):
        vals = rng.sample(range(4), rng.choice([1, 2, 3]))
        k = rng.randrange(len(vals))
        arms = [(v, ax if (shape == "case_arm" and j == k) else ay) for j, v in enumerate(vals)]
        default = ax if shape == "case_default" else (ay if rng.random() < 0.5 else None)
        m.items.append(("comb", pre + [("case", ("ref", Ref(s, 0, 2)), arms, default)]))
    elif shape == "ternary":
        m.items.append(("assign", Ref(x, 0, w), ("mux", sbit, I0, ("not", I0))))
        m.items.append(("assign", Ref(y, 0, w), I0))
    elif shape == "nested_then":
        m.items.append(("comb", pre + [("if", ("ref", Ref(i0, 0, 1)), [("if", sbit, ax, None)], ay)]))
    else:
        m.items.append(("comb", pre + [("if", ("ref", Ref(i0, 0, 1)), ay, [("if", sbit, ay, ax)])]))
    m.items.append(("assign", Ref(o, 0, w), ("bit", "^", ("ref", Ref(x, 0, w)), ("ref", Ref(y, 0, w)))))
    rng.shuffle(m.items)
    return Design([m], "cond", [shape])


def fam_func(rng):
    m = Module("Top")
    w = rng.choice([2, 3, 4, 4, 8])
    i0 = m.add(Var("i0", "vec", w, role="in"))
    x = m.add(Var("x", "vec", w))
    y = m.add(Var("y", "vec", w))
    o = m.add(Var("o0", "vec", w, role="out"))
    a = Var("fa", "vec", w, role="formal")
    b = Var("fb", "vec", w, role="formal")
    A, B = ("ref", Ref(a, 0, w)), ("ref", Ref(b, 0, w))
    shape = rng.choice(["bitwise", "arith", "onlyb", "swapbits", "local_if", "shift1"])
    locals_, body = [], []
    if shape == "bitwise":
        ret = ("bit", "^", A, B)
    elif shape == "arith":
        ret = ("arith", "+", A, B, w)
    elif shape == "onlyb":
        ret = ("not", B)
    elif shape == "swapbits":
        k = rng.randint(1, w - 1)
        ret = ("cat", [("ref", Ref(a, 0, k)), ("ref", Ref(a, k, w - k))])
    elif shape == "shift1":
        ret = ("cat", [("ref", Ref(a, 0, w - 1)), ("ref", Ref(b, 0, 1))])
    else:
        t = Var("ft", "vec", w, role="local")
        locals_.append(t)
        body = [("assign", Ref(t, 0, w), A),
                ("if", ("ref", Ref(b, 0, 1)), [("assign", Ref(t, 0, w), ("not", ("ref", Ref(t, 0, w))))], None)]
        ret = ("ref", Ref(t, 0, w))
    f = Func("f0", [a, b], w, locals_, body, ret)
    m.funcs.append(f)
    X, Y, I0 = (("ref", Ref(v, 0, w)) for v in (x, y, i0))
    use = rng.choice(["self_a", "self_b", "via_y", "bits"])
    if use == "self_a":
        m.items.append(("assign", Ref(x, 0, w), ("call", 0, "f0", [X, I0], w)))
        m.items.append(("assign", Ref(y, 0, w), X))
    elif use == "self_b":
        m.items.append(("assign", Ref(x, 0, w), ("call", 0, "f0", [I0, X], w)))
        m.items.append(("assign", Ref(y, 0, w), X))
    elif use == "via_y":
        m.items.append(("assign", Ref(y, 0, w), ("call", 0, "f0", [X, I0], w)))
        m.items.append(("assign", Ref(x, 0, w), Y if rng.random() < 0.5 else ("bit", "&", I0, ("shr", Y, 1))))
    else:
        k = rng.randint(0, w - 1)
        j = rng.randint(0, w - 1)
        m.items.append(("assign", Ref(y, 0, w), ("call", 0, "f0", [X, I0], w)))
        m.items.append(("assign", Ref(x, k, 1), ("ref", Ref(y, j, 1))))
        if k > 0:
            m.items.append(("assign", Ref(x, 0, k), ("ref", Ref(i0, 0, k))))
        if k < w - 1:
            m.items.append(("assign", Ref(x, k + 1, w - 1 - k), ("ref", Ref(i0, 0, w - 1 - k))))
    m.items.append(("assign", Ref(o, 0, w), Y))
    return Design([m], "func", [shape, use])


def fam_inst(rng):
    """2-level hierarchy: input -> output feed-through of the child completing a cycle through the parent"""
    c = Module("Child")
    w = rng.choice([1, 2, 2, 3, 4])
    ci = c.add(Var("ci", "vec", w, role="in"))
    cj = c.add(Var("cj", "vec", w, role="in"))
    co = c.add(Var("co", "vec", w, role="out"))
    cp = c.add(Var("cp", "vec", w, role="out"))
    CI, CJ = ("ref", Ref(ci, 0, w)), ("ref", Ref(cj, 0, w))
    shape = rng.choice(["identity", "bitwise", "cross_ports", "bit_swap", "arith", "blocked", "partial"])
    if shape == "identity":
        c.items += [("assign", Ref(co, 0, w), CI), ("assign", Ref(cp, 0, w), CJ)]
    elif shape == "bitwise":
        c.items += [("assign", Ref(co, 0, w), ("bit", "^", CI, CJ)), ("assign", Ref(cp, 0, w), ("not", CJ))]
    elif shape == "cross_ports":
        c.items += [("assign", Ref(co, 0, w), CJ), ("assign", Ref(cp, 0, w), CI)]
    elif shape == "bit_swap" and w >= 2:
        k = rng.randint(1, w - 1)
        c.items += [("assign", Ref(co, 0, w), ("cat", [("ref", Ref(ci, 0, k)), ("ref", Ref(ci, k, w - k))])),
                    ("assign", Ref(cp, 0, w), CJ)]
    elif shape == "arith":
        c.items += [("assign", Ref(co, 0, w), ("arith", "+", CI, CJ, w)), ("assign", Ref(cp, 0, w), ("const", w, 1))]
    elif shape == "blocked":
        c.items += [("assign", Ref(co, 0, w), ("const", w, 0)), ("assign", Ref(cp, 0, w), CJ)]
    else:
        shape = "partial"
        c.items += [("assign", Ref(co, 0, 1), ("ref", Ref(ci, w - 1, 1)))]
        if w > 1:
            c.items += [("assign", Ref(co, 1, w - 1), ("const", w - 1, 0))]
        c.items += [("assign", Ref(cp, 0, w), CJ)]
    t = Module("Top")
    i0 = t.add(Var("i0", "vec", w, role="in"))
    pa = t.add(Var("pa", "vec", w))
    pb = t.add(Var("pb", "vec", w))
    px = t.add(Var("px", "vec", w))
    py = t.add(Var("py", "vec", w))
    o = t.add(Var("o0", "vec", w, role="out"))
    t.items.append(("inst", "u0", c, [(ci, ("ref", Ref(pa, 0, w))), (cj, ("ref", Ref(pb, 0, w)))],
                    [(co, Ref(px, 0, w)), (cp, Ref(py, 0, w))], [0]))
    I0 = ("ref", Ref(i0, 0, w))
    fb = rng.choice(["x_to_a", "x_to_b", "y_to_a", "bit", "none", "both"])
    k = rng.randint(0, w - 1)
    j = rng.randint(0, w - 1)
    if fb == "x_to_a":
        t.items += [("assign", Ref(pa, 0, w), ("bit", "&", ("ref", Ref(px, 0, w)), I0)), ("assign", Ref(pb, 0, w), I0)]
    elif fb == "x_to_b":
        t.items += [("assign", Ref(pa, 0, w), I0), ("assign", Ref(pb, 0, w), ("ref", Ref(px, 0, w)))]
    elif fb == "y_to_a":
        t.items += [("assign", Ref(pa, 0, w), ("ref", Ref(py, 0, w))), ("assign", Ref(pb, 0, w), I0)]
    elif fb == "bit":
        t.items += [("assign", Ref(pa, k, 1), ("ref", Ref(px, j, 1)))]
        if k > 0:
            t.items.append(("assign", Ref(pa, 0, k), ("ref", Ref(i0, 0, k))))
        if k < w - 1:
            t.items.append(("assign", Ref(pa, k + 1, w - 1 - k), ("ref", Ref(i0, 0, w - 1 - k))))
        t.items.append(("assign", Ref(pb, 0, w), I0))
    elif fb == "both":
        t.items += [("assign", Ref(pa, 0, w), ("ref", Ref(py, 0, w))), ("assign", Ref(pb, 0, w), ("ref", Ref(px, 0, w)))]
    else:
        t.items += [("assign", Ref(pa, 0, w), I0), ("assign", Ref(pb, 0, w), ("not", I0))]
    t.items.append(("assign", Ref(o, 0, w), ("bit", "^", ("ref", Ref(px, 0, w)), ("ref", Ref(py, 0, w)))))
    rng.shuffle(t.items)
    return Design([c, t], "inst", [shape, fb])


def fam_wide(rng):
    """part selects of variables wider than 64 / 128 bits"""
    m = Module("Top")
    w = rng.choice(WIDTHS_WIDE)
    i0 = m.add(Var("i0", "vec", w, role="in"))
    a = m.add(Var("a", "vec", w))
    b = m.add(Var("b", "vec", w))
    o = m.add(Var("o0", "vec", w, role="out"))
    cut = rng.choice([1, 31, 32, 33, 63, 64, 65, w // 2, w - 1, w - 64 if w > 64 else 1])
    cut = max(1, min(w - 1, cut))
    shape = rng.choice(["halves", "halves_close", "through_b", "bit_across", "mask"])
    if shape in ("halves", "halves_close"):
        # a[w-1:cut] = f(a[..]) ; a[cut-1:0] = i / closes
        hi = w - cut
        n = min(hi, cut)
        m.items.append(("assign", Ref(a, cut, n), ("ref", Ref(a, 0, n))))
        if hi > n:
            m.items.append(("assign", Ref(a, cut + n, hi - n), ("ref", Ref(i0, 0, hi - n))))
        close = shape == "halves_close"
        m.items.append(("assign", Ref(a, 0, n), ("ref", Ref(a, cut, n)) if close else ("ref", Ref(i0, 0, n))))
        if cut > n:
            m.items.append(("assign", Ref(a, n, cut - n), ("ref", Ref(i0, 0, cut - n))))
        m.items.append(("assign", Ref(b, 0, w), ("ref", Ref(a, 0, w))))
    elif shape == "through_b":
        m.items.append(("assign", Ref(b, 0, w), ("bit", "^", ("ref", Ref(a, 0, w)), ("ref", Ref(i0, 0, w)))))
        k = rng.choice([63, 64, 65, w - 1, 0])
        k = min(k, w - 1)
        j = k if rng.random() < 0.5 else rng.choice([0, 63, 64, w - 1])
        j = min(j, w - 1)
        m.items.append(("assign", Ref(a, k, 1), ("ref", Ref(b, j, 1))))
        if k > 0:
            m.items.append(("assign", Ref(a, 0, k), ("ref", Ref(i0, 0, k))))
        if k < w - 1:
            m.items.append(("assign", Ref(a, k + 1, w - 1 - k), ("ref", Ref(i0, 0, w - 1 - k))))
    elif shape == "bit_across":
        # a = {a[cut-1:0] , i[..]} style rotations across the 64-bit limb
        close = rng.random() < 0.5
        lowsrc = ("ref", Ref(a, w - cut, cut)) if close else ("ref", Ref(i0, 0, cut))
        m.items.append(("assign", Ref(a, 0, w), ("cat", [("ref", Ref(b, 0, w - cut)), lowsrc])))
        m.items.append(("assign", Ref(b, 0, w), ("ref", Ref(a, 0, w)) if rng.random() < 0.5 else
                        ("cat", [("ref", Ref(i0, 0, w - cut)), ("ref", Ref(a, 0, cut))])))
    else:
        m.items.append(("assign", Ref(b, 0, w), ("bit", "&", ("ref", Ref(a, 0, w)), ("const", w, (1 << 64) | 5))))
        m.items.append(("assign", Ref(a, 0, w), ("bit", "|", ("shr", ("ref", Ref(b, 0, w)), rng.choice([1, 64, 65])),
                                                 ("ref", Ref(i0, 0, w))) if rng.random() < 0.6 else ("ref", Ref(i0, 0, w))))
    m.items.append(("assign", Ref(o, 0, w), ("ref", Ref(b, 0, w))))
    rng.shuffle(m.items)
    return Design([m], "wide", [shape])


def fam_carry(rng):
    """y = a + b with y one bit wider than the operands: the carry bit depends on the operands"""
    m = Module("Top")
    w = rng.choice([1, 2, 3, 4])
    i0 = m.add(Var("i0", "vec", w, role="in"))
    a = m.add(Var("a", "vec", w))
    y = m.add(Var("y", "vec", w + 1))
    o = m.add(Var("o0", "vec", w + 1, role="out"))
    m.items.append(("assign", Ref(y, 0, w + 1), ("arith", rng.choice(["+", "-"]), ("ref", Ref(a, 0, w)), ("ref", Ref(i0, 0, w)), w + 1)))
    k = rng.randint(0, w - 1)
    j = rng.choice([w, w, rng.randint(0, w)])
    m.items.append(("assign", Ref(a, k, 1), ("ref", Ref(y, j, 1)) if rng.random() < 0.7 else ("ref", Ref(i0, 0, 1))))
    if k > 0:
        m.items.append(("assign", Ref(a, 0, k), ("ref", Ref(i0, 0, k))))
    if k < w - 1:
        m.items.append(("assign", Ref(a, k + 1, w - 1 - k), ("ref", Ref(i0, 0, w - 1 - k))))
    m.items.append(("assign", Ref(o, 0, w + 1), ("ref", Ref(y, 0, w + 1))))
    return Design([m], "carry", [])


def fam_dyn(rng):
    """dynamic bit select: read (any bit may be selected) and write (the other bits keep their value)"""
    m = Module("Top")
    w = rng.choice([2, 4, 4, 8])
    iw = {2: 1, 4: 2, 8: 3}[w]
    i0 = m.add(Var("i0", "vec", w, role="in"))
    ix = m.add(Var("ix", "vec", iw, role="in"))
    a = m.add(Var("a", "vec", w))
    b = m.add(Var("b", "vec", w))
    o = m.add(Var("o0", "vec", w, role="out"))
    A, B, I0, IX = ("ref", Ref(a, 0, w)), ("ref", Ref(b, 0, w)), ("ref", Ref(i0, 0, w)), ("ref", Ref(ix, 0, iw))
    shape = rng.choice(["write_keep", "write_after_default", "read_self", "read_other"])
    if shape == "write_keep":
        m.items.append(("assign", Ref(b, 0, w), A if rng.random() < 0.6 else I0))
        m.items.append(("comb", [("assign", Ref(a, 0, w), B), ("dynwrite", a, IX, ("ref", Ref(i0, 0, 1)))]))
    elif shape == "write_after_default":
        m.items.append(("assign", Ref(b, 0, w), A))
        m.items.append(("comb", [("assign", Ref(a, 0, w), I0), ("dynwrite", a, IX, ("ref", Ref(b, 0, 1)) if rng.random() < 0.5 else ("ref", Ref(i0, 0, 1)))]))
    elif shape == "read_self":
        k = rng.randint(0, w - 1)
        m.items.append(("assign", Ref(a, k, 1), ("dynread", a if rng.random() < 0.6 else b, IX)))
        if k > 0:
            m.items.append(("assign", Ref(a, 0, k), ("ref", Ref(i0, 0, k))))
        if k < w - 1:
            m.items.append(("assign", Ref(a, k + 1, w - 1 - k), ("ref", Ref(i0, 0, w - 1 - k))))
        m.items.append(("assign", Ref(b, 0, w), I0))
    else:
        m.items.append(("assign", Ref(a, 0, w), I0))
        m.items.append(("assign", Ref(b, 0, w), ("cat", [("ref", Ref(a, 0, w - 1)), ("dynread", a, IX)])))
    m.items.append(("assign", Ref(o, 0, w), ("bit", "^", A, B)))
    return Design([m], "dyn", [shape])


def fam_blockshift(rng):
    """a blocking part-select assignment that shifts a variable onto itself after an earlier assignment in
    the same always_comb: the right side must be read BEFORE any bit is written"""
    m = Module("Top")
    w = rng.choice([3, 4, 4, 5, 6])
    k = rng.randint(1, w - 1)
    i0 = m.add(Var("i0", "vec", w, role="in"))
    x = m.add(Var("x", "vec", w))
    b = m.add(Var("b", "vec", 1))
    o = m.add(Var("o0", "vec", w, role="out"))
    p = rng.randint(0, w - 1)
    parts = [("ref", Ref(b, 0, 1)) if j == p else ("ref", Ref(i0, j, 1)) for j in reversed(range(w))]
    up = rng.random() < 0.6
    if up:
        sh = ("assign", Ref(x, k, w - k), ("ref", Ref(x, 0, w - k)))
    else:
        sh = ("assign", Ref(x, 0, w - k), ("ref", Ref(x, k, w - k)))
    if rng.random() < 0.3:
        sh = ("assign", sh[1], ("bit", "^", sh[2], ("ref", Ref(i0, 0, w - k))))
    body = [("assign", Ref(x, 0, w), ("cat", parts)), sh]
    if rng.random() < 0.3:
        body = [body[0], ("if", ("ref", Ref(i0, 0, 1)), [sh], None)]
    m.items.append(("comb", body))
    m.items.append(("assign", Ref(b, 0, 1), ("ref", Ref(x, rng.randint(0, w - 1), 1))))
    m.items.append(("assign", Ref(o, 0, w), ("ref", Ref(x, 0, w))))
    return Design([m], "blockshift", ["up" if up else "down"])


def fam_array(rng):
    """chains through the elements of an unpacked array / the members of a struct: neighbours must stay apart"""
    m = Module("Top")
    w = rng.choice([1, 2, 3, 4])
    n = rng.choice([2, 3, 4, 5])
    i0 = m.add(Var("i0", "vec", w, role="in"))
    o = m.add(Var("o0", "vec", w, role="out"))
    if rng.random() < 0.6:
        v = m.add(Var("m", "arr", w, n=n))
        unit = lambda k: dict(elem=k)
        shape = "array"
    else:
        v = m.add(Var("s", "struct", w * n, members=[("f%d" % k, w) for k in range(n)]))
        unit = lambda k: dict(member="f%d" % k)
        shape = "struct"
    order = list(range(n))
    if rng.random() < 0.5:
        order.reverse()
    if rng.random() < 0.3:
        rng.shuffle(order)
    close = rng.random() < 0.4
    I0 = ("ref", Ref(i0, 0, w))
    for j, k in enumerate(order):
        if j == 0:
            src = ("bit", "&", ("ref", Ref(v, 0, w, **unit(order[-1]))), I0) if close else I0
        else:
            src = ("ref", Ref(v, 0, w, **unit(order[j - 1])))
            if rng.random() < 0.3:
                src = ("bit", "^", src, I0)
            if w >= 2 and rng.random() < 0.3:
                # part selects inside the element
                h = rng.randint(1, w - 1)
                m.items.append(("assign", Ref(v, 0, h, **unit(k)), ("ref", Ref(v, 0, h, **unit(order[j - 1])))))
                m.items.append(("assign", Ref(v, h, w - h, **unit(k)), ("ref", Ref(v, h, w - h, **unit(order[j - 1])))))
                continue
        m.items.append(("assign", Ref(v, 0, w, **unit(k)), src))
    m.items.append(("assign", Ref(o, 0, w), ("ref", Ref(v, 0, w, **unit(order[-1])))))
    rng.shuffle(m.items)
    return Design([m], "array", [shape])


def fam_fallback(rng):
    """x = D; then a branch some arms of which leave x alone: the value from before the branch stays
    reachable, so a loop that closes through D is real (and one that closes only through an arm too)"""
    m = Module("Top")
    w = rng.choice([1, 2, 3, 4])
    i0 = m.add(Var("i0", "vec", w, role="in"))
    c = m.add(Var("c0", "vec", 2, role="in"))
    x = m.add(Var("x", "vec", w))
    y = m.add(Var("y", "vec", w))
    z = m.add(Var("z", "vec", w))
    o = m.add(Var("o0", "vec", w, role="out"))
    I0, Y = ("ref", Ref(i0, 0, w)), ("ref", Ref(y, 0, w))
    via = rng.choice(["default", "default", "arm", "none", "none"])
    D = ("bit", "&", Y, I0) if via == "default" else I0
    Bx = ("bit", "|", Y, I0) if via == "arm" else ("not", I0)
    ax = [("assign", Ref(x, 0, w), Bx)]
    az = [("assign", Ref(z, 0, w), I0)]
    cb = ("ref", Ref(c, rng.randint(0, 1), 1))
    shape = rng.choice(["if_no_else", "if_else_only", "case_no_default", "case_default_only", "nested", "two_ifs"])
    body = [("assign", Ref(x, 0, w), D), ("assign", Ref(z, 0, w), ("not", I0))]
    if shape == "if_no_else":
        body.append(("if", cb, ax, None))
    elif shape == "if_else_only":
        body.append(("if", cb, az, ax))
    elif shape == "case_no_default":
        vals = rng.sample(range(4), rng.choice([1, 2, 3]))
        k = rng.randrange(len(vals))
        body.append(("case", ("ref", Ref(c, 0, 2)), [(v, ax if j == k else az) for j, v in enumerate(vals)], None))
    elif shape == "case_default_only":
        vals = rng.sample(range(4), rng.choice([1, 2]))
        body.append(("case", ("ref", Ref(c, 0, 2)), [(v, az) for v in vals], ax))
    elif shape == "nested":
        body.append(("if", cb, [("if", ("ref", Ref(i0, 0, 1)), ax, None)], az))
    else:
        body.append(("if", cb, az, None))
        body.append(("if", ("ref", Ref(c, 0, 1)), ax, None))
    m.items.append(("comb", body))
    m.items.append(("assign", Ref(y, 0, w), ("bit", "^", ("ref", Ref(x, 0, w)), ("ref", Ref(z, 0, w)))
                    if rng.random() < 0.5 else ("ref", Ref(x, 0, w))))
    m.items.append(("assign", Ref(o, 0, w), Y))
    rng.shuffle(m.items)
    return Design([m], "fallback", [shape, via])


def fam_opaque(rng):
    """constructs the checker documents as opaque; only "no false positive" is required: the abstract
    design holds the visible part only (the opaque construct contributes no edge)"""
    m = Module("Top")
    w = rng.choice([1, 2, 4])
    i0 = m.add(Var("i0", "vec", w, role="in"))
    x = m.add(Var("x", "vec", w))
    y = m.add(Var("y", "vec", w))
    o = m.add(Var("o0", "vec", w, role="out"))
    X, Y, I0 = (("ref", Ref(v, 0, w)) for v in (x, y, i0))
    kind = rng.choice(["sv", "sv", "inout"])
    mods = [m]
    visible_loop = rng.random() < 0.3
    if kind == "sv":
        m.items.append(("opaque", "    inst u0: $sv::BlackBox (\n        a: x,\n        b: y,\n    );\n"))
        m.items.append(("assign", Ref(x, 0, w), ("bit", "&", Y, I0) if not visible_loop else ("bit", "&", X, I0)))
    else:
        c = Module("Pad")
        p = c.add(Var("p", "vec", w, role="inout"))
        q = c.add(Var("q", "vec", w, role="in"))
        mods = [c, m]
        x.role = "trivar"
        m.items.append(("opaque", "    inst u0: Pad (\n        p: x,\n        q: y,\n    );\n"))
        m.items.append(("assign", Ref(y, 0, w), ("bit", "&", X, I0) if not visible_loop else ("bit", "&", Y, I0)))
    m.items.append(("assign", Ref(o, 0, w), ("bit", "^", X, Y)))
    return Design(mods, "opaque", [kind])


FAMILIES = [("random", 28), ("shift", 10), ("seq", 9), ("cross", 8), ("cond", 10), ("func", 8), ("inst", 9),
            ("wide", 6), ("carry", 3), ("dyn", 4), ("opaque", 3), ("blockshift", 4), ("array", 6), ("fallback", 7)]


def gen_design(rng):
    fams = [f for f, wgt in FAMILIES for _ in range(wgt)]
    fam = rng.choice(fams)
    if fam == "random":
        wide = rng.random() < 0.08
        m = gen_random_module(rng, wide=wide, p_back=rng.choice([0.05, 0.1, 0.2, 0.3, 0.4, 0.5]),
                              allow_arith=not wide)
        return Design([m], "random", ["wide"] if wide else [])
    return {"shift": fam_shift, "seq": fam_seq, "cross": fam_cross, "cond": fam_cond, "func": fam_func,
            "inst": fam_inst, "wide": fam_wide, "carry": fam_carry, "dyn": fam_dyn, "opaque": fam_opaque,
            "blockshift": fam_blockshift, "array": fam_array, "fallback": fam_fallback}[fam](rng)


def access_spans(design):
    """every (module, variable name, element, lo, len) the text reads or writes with a constant select;
    the detector's partition must be split at the ends of each"""
    out = []

    def ex(mn, e):
        t = e[0]
        if t == "ref":
            r = e[1]
            lo = r.lo + (r.var.member_off(r.member)[0] if r.member else 0)
            out.append((mn, r.var.name, r.elem or 0, lo, r.len))
        elif t == "cat":
            for p in e[1]:
                ex(mn, p)
        elif t in ("bit", "arith", "cmp"):
            ex(mn, e[2]); ex(mn, e[3])
        elif t in ("not", "plus", "neg", "shl", "shr"):
            ex(mn, e[1])
        elif t == "red":
            ex(mn, e[2])
        elif t == "mux":
            ex(mn, e[1]); ex(mn, e[2]); ex(mn, e[3])
        elif t == "dynread":
            ex(mn, e[2])
        elif t == "call":
            for a in e[3]:
                ex(mn, a)

    def st(mn, s):
        if s[0] == "assign":
            ex(mn, ("ref", s[1])); ex(mn, s[2])
        elif s[0] == "dynwrite":
            ex(mn, s[2]); ex(mn, s[3])
        elif s[0] == "if":
            ex(mn, s[1])
            for x in s[2] + (s[3] or []):
                st(mn, x)
        elif s[0] == "case":
            ex(mn, s[1])
            for (_, b) in s[2]:
                for x in b:
                    st(mn, x)
            for x in (s[3] or []):
                st(mn, x)

    for m in design.modules:
        for it in m.items:
            if it[0] == "assign":
                st(m.name, it)
            elif it[0] == "comb":
                for s in it[1]:
                    st(m.name, s)
            elif it[0] == "inst":
                for (_, e) in it[3]:
                    ex(m.name, e)
                for (_, r) in it[4]:
                    ex(m.name, ("ref", r))
    return out


# --------------------------------------------------------------------------------------------
# the positional transfers of a design (mirror of collect_packed_transfers: which packed spans are
# copied position by position onto which): used to check that the detector's partition is closed
# under ONE application of every transfer, the guarantee propagate_packed_endpoints gives

def _packed(r):
    lo = r.lo + (r.var.member_off(r.member)[0] if r.member else 0)
    return lo, r.len


def _isect(a0, al, b0, bl):
    lo, hi = max(a0, b0), min(a0 + al, b0 + bl)
    return (lo, hi - lo) if hi > lo else None


def _vname(v, fname):
    return v.name


def transfers_of_expr(e, req0, reqlen, tv, t0, out):
    """requested bits [req0, req0+reqlen) of e land on bits [t0, t0+reqlen) of variable tv"""
    t = e[0]
    if t == "ref":
        s0, sl = _packed(e[1])
        v = _isect(req0, reqlen, 0, sl)
        if v:
            out.append((e[1].var, v[0] + s0, tv, v[0] - req0 + t0, v[1]))
    elif t in ("not", "plus", "neg"):
        transfers_of_expr(e[1], req0, reqlen, tv, t0, out)
    elif t == "bit":
        transfers_of_expr(e[2], req0, reqlen, tv, t0, out)
        transfers_of_expr(e[3], req0, reqlen, tv, t0, out)
    elif t == "mux":
        transfers_of_expr(e[2], req0, reqlen, tv, t0, out)
        transfers_of_expr(e[3], req0, reqlen, tv, t0, out)
    elif t == "shl":
        w, k = ewidth(e[1]), e[2]
        v = _isect(req0, reqlen, k, w)
        if v:
            transfers_of_expr(e[1], v[0] - k, v[1], tv, v[0] - req0 + t0, out)
    elif t == "shr":
        w, k = ewidth(e[1]), e[2]
        if w > k:
            v = _isect(req0, reqlen, 0, w - k)
            if v:
                transfers_of_expr(e[1], v[0] + k, v[1], tv, v[0] - req0 + t0, out)
    elif t == "cat":
        low = 0
        for p in reversed(e[1]):
            w = ewidth(p)
            v = _isect(req0, reqlen, low, w)
            if v:
                transfers_of_expr(p, v[0] - low, v[1], tv, v[0] - req0 + t0, out)
            low += w


def transfers(design):
    """{module name: [(src Var, src start, dst Var, dst start, len)]} for assignments whose right side is
    built from constant selects, bitwise operators, concatenations, constant shifts and ternaries"""
    res = {}

    def st(s, out):
        if s[0] == "assign":
            d0, dl = _packed(s[1])
            transfers_of_expr(s[2], 0, dl, s[1].var, d0, out)
        elif s[0] == "if":
            for x in s[2] + (s[3] or []):
                st(x, out)
        elif s[0] == "case":
            for (_, b) in s[2]:
                for x in b:
                    st(x, out)
            for x in (s[3] or []):
                st(x, out)

    for m in design.modules:
        out = []
        for it in m.items:
            if it[0] == "assign":
                st(it, out)
            elif it[0] == "comb":
                for s in it[1]:
                    st(s, out)
        res[m.name] = out
    return res
