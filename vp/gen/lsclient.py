"""Minimal LSP client for veryl-ls over stdio (used by the C07 check).

Design facts taken from crates/languageserver/src/{backend,server}.rs:
  * text sync is FULL; only didOpen / didChange / willRenameFiles / didRenameFiles / willDeleteFiles reach
    the analysis thread (didSave / didClose are not handled at all);
  * every didOpen/didChange of a file below a Veryl.toml publishes diagnostics carrying the document version
    -> the client waits for publishDiagnostics(uri, version) after every notification, so no message is ever
       in flight together with another one (no dependence on tower-lsp's concurrent dispatch);
  * every didOpen (and every didRenameFiles while no background task is pending) queues ONE background task;
    each finished task sends a $/progress `end` (client capability window.workDoneProgress = true), and after the
    last one the server re-publishes the latest change.  Quiescence = (#end == #tasks queued) and then a
    request/response round trip (the analysis thread is sequential, so the answer comes after the re-publish).
Nothing here depends on sleeping: every wait is for a specific message, with a generous timeout; a timeout is
reported as `Timeout` (inconclusive), a panic of the analysis thread (stderr) as `ServerPanic`.
"""
import json
import os
import queue
import subprocess
import threading
import time


class LsError(Exception):
    pass


class Timeout(LsError):
    pass


class ServerPanic(LsError):
    pass


def uri_of(path):
    return "file://" + path


class LsClient:
    def __init__(self, binary, root, home, timeout=180.0, log=None, close_handled=False):
        self.root = root
        # does Backend implement did_close (extracted from backend.rs by the translator)?  Then closing a buffer
        # the server knows queues one background task, and willRename/willDelete forget the buffer.
        self.close_handled = close_handled
        self.server_docs = set()
        self.timeout = timeout
        env = dict(os.environ)
        env.update({"HOME": home, "XDG_CACHE_HOME": os.path.join(home, ".cache"),
                    "XDG_CONFIG_HOME": os.path.join(home, ".config"),
                    "XDG_DATA_HOME": os.path.join(home, ".local", "share"),
                    "RUST_BACKTRACE": "0", "NO_COLOR": "1"})
        self.stderr_path = os.path.join(home, "ls-stderr-%d.txt" % id(self))
        self._errf = open(self.stderr_path, "wb")
        self.p = subprocess.Popen([binary], stdin=subprocess.PIPE, stdout=subprocess.PIPE, stderr=self._errf,
                                  cwd=root, env=env)
        self.q = queue.Queue()
        self.next_id = 1
        self.version = 0
        self.diags = {}          # uri -> (version, [diag])   latest publish
        self.publish_count = {}  # (uri, version) -> n
        self.ends = 0            # $/progress end seen
        self.begins = 0
        self.tasks = 0           # background tasks we know were queued
        self.reports = []        # ($/progress report message, percentage) in arrival order
        self.responses = {}
        self.trace = [] if log else None
        self.t = threading.Thread(target=self._reader, daemon=True)
        self.t.start()

    # ---------------------------------------------------------------- wire
    def _reader(self):
        f = self.p.stdout
        try:
            while True:
                length = None
                while True:
                    line = f.readline()
                    if not line:
                        self.q.put(None)
                        return
                    line = line.strip()
                    if not line:
                        break
                    if line.lower().startswith(b"content-length:"):
                        length = int(line.split(b":")[1])
                body = f.read(length)
                if len(body) < length:
                    self.q.put(None)
                    return
                self.q.put(json.loads(body.decode("utf8")))
        except Exception:
            self.q.put(None)

    def _send(self, obj):
        data = json.dumps(obj).encode("utf8")
        try:
            self.p.stdin.write(b"Content-Length: %d\r\n\r\n" % len(data) + data)
            self.p.stdin.flush()
        except (BrokenPipeError, OSError):
            raise ServerPanic(self._panic_text() or "server closed its input")

    def notify(self, method, params):
        self._send({"jsonrpc": "2.0", "method": method, "params": params})

    def request_async(self, method, params):
        i = self.next_id
        self.next_id += 1
        self._send({"jsonrpc": "2.0", "id": i, "method": method, "params": params})
        return i

    def _panic_text(self):
        try:
            self._errf.flush()
            txt = open(self.stderr_path, "rb").read().decode("utf8", "replace")
        except OSError:
            return None
        if "panicked at" in txt:
            i = txt.index("panicked at")
            return " ".join(txt[i:i + 400].split())
        if "overflowed its stack" in txt:
            return "fatal runtime error: stack overflow (analysis thread overflowed its stack)"
        return None

    def _handle(self, msg):
        if self.trace is not None:
            self.trace.append(msg)
        if "method" in msg and "id" in msg:
            # server -> client request (window/workDoneProgress/create, client/registerCapability, ...)
            self._send({"jsonrpc": "2.0", "id": msg["id"], "result": None})
            return
        if "method" in msg:
            m = msg["method"]
            if m == "textDocument/publishDiagnostics":
                p = msg["params"]
                self.diags[p["uri"]] = (p.get("version"), p["diagnostics"])
                k = (p["uri"], p.get("version"))
                self.publish_count[k] = self.publish_count.get(k, 0) + 1
            elif m == "$/progress":
                kind = msg["params"].get("value", {}).get("kind")
                if kind == "report":
                    v = msg["params"]["value"]
                    self.reports.append((v.get("message"), v.get("percentage")))
                elif kind == "end":
                    self.ends += 1
                elif kind == "begin":
                    self.begins += 1
            return
        if "id" in msg:
            self.responses[msg["id"]] = msg

    def pump_until(self, pred, what):
        """Process incoming messages until pred() holds."""
        deadline = time.time() + self.timeout
        while not pred():
            remaining = deadline - time.time()
            if remaining <= 0:
                pt = self._panic_text()
                if pt:
                    raise ServerPanic(pt)
                raise Timeout("timeout waiting for " + what)
            try:
                msg = self.q.get(timeout=min(remaining, 0.5))
            except queue.Empty:
                pt = self._panic_text()
                if pt:
                    raise ServerPanic(pt)
                if self.p.poll() is not None:
                    raise ServerPanic("server exited rc=%s" % self.p.returncode)
                continue
            if msg is None:
                pt = self._panic_text()
                raise ServerPanic(pt or "server closed its output")
            self._handle(msg)

    def request(self, method, params):
        i = self.request_async(method, params)
        self.pump_until(lambda: i in self.responses, "response to " + method)
        return self.responses.pop(i)

    # ---------------------------------------------------------------- protocol
    def initialize(self):
        r = self.request("initialize", {
            "processId": None, "rootUri": uri_of(self.root),
            "capabilities": {"window": {"workDoneProgress": True},
                             "textDocument": {"publishDiagnostics": {"relatedInformation": True, "versionSupport": True}}},
            "workspaceFolders": [{"uri": uri_of(self.root), "name": "w"}]})
        self.notify("initialized", {})
        return r

    def _new_version(self):
        self.version += 1
        return self.version

    def did_open(self, path, text, background=True):
        """didOpen and wait until the server has analysed it (publish with this version)."""
        v = self._new_version()
        u = uri_of(path)
        if background:
            self.tasks += 1
        self.server_docs.add(u)
        self.notify("textDocument/didOpen", {"textDocument": {"uri": u, "languageId": "veryl", "version": v, "text": text}})
        self.pump_until(lambda: self.publish_count.get((u, v), 0) >= 1, "publishDiagnostics after didOpen")
        return self.diags[u][1]

    def open_nowait(self, path, text):
        """didOpen without waiting for anything; returns (uri, version) to wait on later"""
        v = self._new_version()
        u = uri_of(path)
        self.tasks += 1
        self.server_docs.add(u)
        self.notify("textDocument/didOpen", {"textDocument": {"uri": u, "languageId": "veryl", "version": v, "text": text}})
        return u, v

    def wait_published(self, u, v):
        self.pump_until(lambda: self.publish_count.get((u, v), 0) >= 1, "publishDiagnostics")

    def wait_report(self, name):
        """until the running background task reports file `name` (or all queued tasks have ended). True if seen."""
        n0 = len(self.reports)
        self.pump_until(lambda: any(m == name for m, _ in self.reports[n0:]) or self.ends >= self.tasks,
                        "progress report for " + name)
        return any(m == name for m, _ in self.reports[n0:])

    def did_change(self, path, text):
        v = self._new_version()
        u = uri_of(path)
        self.notify("textDocument/didChange", {"textDocument": {"uri": u, "version": v},
                                               "contentChanges": [{"text": text}]})
        self.pump_until(lambda: self.publish_count.get((u, v), 0) >= 1, "publishDiagnostics after didChange")
        return self.diags[u][1]

    def did_save(self, path):
        self.notify("textDocument/didSave", {"textDocument": {"uri": uri_of(path)}})

    def did_close(self, path):
        u = uri_of(path)
        if self.close_handled and u in self.server_docs:
            self.tasks += 1
        self.server_docs.discard(u)
        self.notify("textDocument/didClose", {"textDocument": {"uri": u}})

    def will_rename(self, old, new):
        if self.close_handled:
            self.server_docs.discard(uri_of(old))
        return self.request("workspace/willRenameFiles", {"files": [{"oldUri": uri_of(old), "newUri": uri_of(new)}]})

    def did_rename(self, old, new):
        """must only be called while quiescent (the server drops the task otherwise)"""
        self.tasks += 1
        self.notify("workspace/didRenameFiles", {"files": [{"oldUri": uri_of(old), "newUri": uri_of(new)}]})

    def will_delete(self, path):
        if self.close_handled:
            self.server_docs.discard(uri_of(path))
        return self.request("workspace/willDeleteFiles", {"files": [{"uri": uri_of(path)}]})

    def quiesce(self):
        """Wait until every queued background task has ended and the analysis thread is idle."""
        while True:
            self.pump_until(lambda: self.ends >= self.tasks and self.ends >= self.begins,
                            "end of background analysis (%d/%d, %d begun)" % (self.ends, self.tasks, self.begins))
            b = self.begins
            # round trips through the sequential analysis thread: answered after the post-background re-publish;
            # twice because the first request may have been queued before the thread looked at its task queue
            self.request("workspace/symbol", {"query": "\u0001no-such-symbol\u0001"})
            self.request("workspace/symbol", {"query": "\u0001no-such-symbol\u0001"})
            if self.begins == b and self.ends >= self.begins:
                return
            # a task we did not expect started meanwhile (e.g. a server that queues more work than modelled): wait for it

    def symbols(self):
        """all symbols whose name contains an upper-case letter other than T.  (An empty query - or any query matching
        a builtin symbol such as `$clog2`, `clock_gen`, `T` - makes a debug build panic in server.rs to_location
        (`token.line - 1` with line 0); builtin names are lower case, so upper-case queries avoid them.)"""
        out = {}
        for q in "ABCDEFGHIJKLMNOPQRSUVWXYZ":
            r = self.request("workspace/symbol", {"query": q})
            for s in r.get("result") or []:
                out[json.dumps(s, sort_keys=True)] = s
        return list(out.values())

    def close(self):
        try:
            self.p.kill()
        except OSError:
            pass
        try:
            self.p.wait(timeout=10)
        except Exception:
            pass
        try:
            self._errf.close()
        except OSError:
            pass


def canon_diag(d, root):
    """(line, col, endline, endcol, severity, code, message, related) with the scratch root removed."""
    r = d.get("range", {})
    s, e = r.get("start", {}), r.get("end", {})
    rel = []
    for ri in d.get("relatedInformation") or []:
        loc = ri.get("location", {})
        rr = loc.get("range", {})
        rel.append((loc.get("uri", "").replace("file://" + root, ""), rr.get("start", {}).get("line"),
                    rr.get("start", {}).get("character"), rr.get("end", {}).get("character"), ri.get("message", "")))
    code = d.get("code")
    return (s.get("line"), s.get("character"), e.get("line"), e.get("character"), d.get("severity"),
            str(code) if code is not None else "", d.get("message", "").replace(root, ""), tuple(sorted(rel)))


def canon_diags(ds, root):
    return sorted(canon_diag(d, root) for d in ds)
