"""G-assign: small Veryl designs for the driver / latch / read-before-assign checks (C15).

One python AST is printed as Veryl text and as the abstract program of
coq/Analysis/AssignMaskModel.v (variables = (width, is_output); processes = always_comb / assign,
always_ff, module instance; statements = writes / reads of constant part selects, if, case).
Uses vp/gen/designs.py (part 1) to run the analyzer.

statements (python):
  ("w", var, hi, lo, [reads])        v[hi:lo] = concat of reads;   reads: ("v", var, hi, lo) | ("i", width)
  ("if", cond, then, else|None)      cond: ("v", var, bit) | ("i",)
  ("switch", [(cond, blk)...], dflt|None)     printed as switch, abstractly a chain of ifs
  ("case", cond2, [blk...], dflt|None)        2-bit selector
  ("for", var, hi, lo, src)          for i in lo..hi+1 { v[i] = src[i]; }  (unrolled by the converter)
processes: ("comb", [stmt]) ("assign", stmt) ("ff", [stmt]) ("inst", [(var, hi, lo)], [reads])
"""
BOUNDARY_W = [1, 2, 3, 4, 8, 16, 33, 63, 64, 65, 100, 127, 128, 129, 130, 200]


def mask(hi, lo):
    return ((1 << (hi - lo + 1)) - 1) << lo


class AsgDesign:
    def __init__(self):
        self.vars = []      # dict(name, width, out)
        self.procs = []
        self.tags = set()
        self.children = []
        self.text = None
        self.nin = 0        # number of plain input ports used as sources (i_s: logic<256>)

    # ---- Coq
    def reads_coq(self, reads, kind="SRead"):
        return ["(%s %d %d)" % (kind, r[1], mask(r[2], r[3])) for r in reads if r[0] == "v"]

    def cond_coq(self, c):
        if c[0] == "v":
            return ["(SCond %d %d)" % (c[1], mask(c[2], c[2]))]
        if c[0] == "v2":
            return ["(SCond %d %d)" % (c[1], mask(c[2] + 1, c[2]))]
        return []

    def stmt_coq(self, s):
        """-> list of Coq stmt terms"""
        k = s[0]
        if k == "w":
            return self.reads_coq(s[4]) + ["(SWrite %d %d)" % (s[1], mask(s[2], s[3]))]
        if k == "if":
            return self.cond_coq(s[1]) + ["(SIf %s %s)" % (self.block_coq(s[2]), self.block_coq(s[3] or []))]
        if k == "switch":
            # chain of ifs; every condition is evaluated where its `if` stands
            def chain(arms):
                if not arms:
                    return self.block_coq(s[2] or [])
                (c, b) = arms[0]
                inner = chain(arms[1:])
                return "[%s]" % "; ".join(self.cond_coq(c) + ["(SIf %s %s)" % (self.block_coq(b), inner)])
            return [chain(s[1])[1:-1]]
        if k == "case":
            return self.cond_coq(s[1]) + ["(SCase [%s] %s)" % ("; ".join(self.block_coq(b) for b in s[2]),
                                                                self.block_coq(s[3] or []))]
        if k == "for":
            out = []
            for i in range(s[3], s[2] + 1):
                if s[4][0] == "v":
                    out.append("(SRead %d %d)" % (s[4][1], mask(i, i)))
                out.append("(SWrite %d %d)" % (s[1], mask(i, i)))
            return out
        raise ValueError(k)

    def block_coq(self, b):
        items = []
        for s in b:
            items += [x for x in self.stmt_coq(s) if x]
        return "[%s]" % "; ".join(items)

    def proc_coq(self, p):
        k = p[0]
        if k == "comb":
            return "(PComb, %s)" % self.block_coq(p[1])
        if k == "assign":
            return "(PComb, %s)" % self.block_coq([p[1]])
        if k == "ff":
            return "(PFf, %s)" % self.block_coq(p[1])
        if k == "inst":
            items = self.reads_coq(p[2], "SCond") + ["(SWrite %d %d)" % (v, mask(hi, lo)) for (v, hi, lo) in p[1]]
            return "(PInst, [%s])" % "; ".join(items)
        raise ValueError(k)

    def coq(self):
        vs = "; ".join("(%d, %s)" % (v["width"], "true" if v["out"] else "false") for v in self.vars)
        return "([%s], [%s])" % (vs, ";\n  ".join(self.proc_coq(p) for p in self.procs))

    # ---- Veryl
    def part_v(self, r):
        if r[0] == "v":
            n = self.vars[r[1]]["name"]
            return "%s[%d]" % (n, r[2]) if r[2] == r[3] else "%s[%d:%d]" % (n, r[2], r[3])
        if r[0] == "i":
            w = r[1]
            lo = r[2] if len(r) > 2 else 0
            return "i_s[%d]" % lo if w == 1 else "i_s[%d:%d]" % (lo + w - 1, lo)
        if r[0] == "lit":
            return "%d'h0" % r[1]
        raise ValueError(r)

    def rhs_v(self, reads):
        if len(reads) == 1:
            return self.part_v(reads[0])
        return "{%s}" % ", ".join(self.part_v(r) for r in reads)

    def cond_v(self, c):
        if c[0] == "v":
            return "%s[%d]" % (self.vars[c[1]]["name"], c[2])
        if c[0] == "v2":
            return "%s[%d:%d]" % (self.vars[c[1]]["name"], c[2] + 1, c[2])
        if c[0] == "i":
            return "i_c[%d]" % c[1]
        if c[0] == "i2":
            return "i_c[%d:%d]" % (c[1] + 1, c[1])
        raise ValueError(c)

    def lhs_v(self, v, hi, lo):
        n = self.vars[v]["name"]
        w = self.vars[v]["width"]
        if hi == w - 1 and lo == 0 and w > 1 and (hi + lo) % 2 == 0:
            return n
        return "%s[%d]" % (n, hi) if hi == lo else "%s[%d:%d]" % (n, hi, lo)

    def stmt_v(self, s, ind, out):
        p = "    " * ind
        k = s[0]
        if k == "w":
            out.append("%s%s = %s;" % (p, self.lhs_v(s[1], s[2], s[3]), self.rhs_v(s[4])))
        elif k == "if":
            out.append("%sif %s {" % (p, self.cond_v(s[1])))
            for x in s[2]:
                self.stmt_v(x, ind + 1, out)
            if s[3] is not None:
                out.append("%s} else {" % p)
                for x in s[3]:
                    self.stmt_v(x, ind + 1, out)
            out.append("%s}" % p)
        elif k == "switch":
            out.append("%sswitch {" % p)
            for c, b in s[1]:
                out.append("%s    %s: {" % (p, self.cond_v(c)))
                for x in b:
                    self.stmt_v(x, ind + 2, out)
                out.append("%s    }" % p)
            if s[2] is not None:
                out.append("%s    default: {" % p)
                for x in s[2]:
                    self.stmt_v(x, ind + 2, out)
                out.append("%s    }" % p)
            out.append("%s}" % p)
        elif k == "case":
            out.append("%scase %s {" % (p, self.cond_v(s[1])))
            for i, b in enumerate(s[2]):
                out.append("%s    2'd%d: {" % (p, i))
                for x in b:
                    self.stmt_v(x, ind + 2, out)
                out.append("%s    }" % p)
            if s[3] is not None:
                out.append("%s    default: {" % p)
                for x in s[3]:
                    self.stmt_v(x, ind + 2, out)
                out.append("%s    }" % p)
            out.append("%s}" % p)
        elif k == "for":
            src = s[4]
            rhs = "%s[i]" % self.vars[src[1]]["name"] if src[0] == "v" else "i_s[i]"
            out.append("%sfor i in %d..%d {" % (p, s[3], s[2] + 1))
            out.append("%s    %s[i] = %s;" % (p, self.vars[s[1]]["name"], rhs))
            out.append("%s}" % p)
        else:
            raise ValueError(k)

    def veryl(self):
        out = []
        for ch in self.children:
            out += ch
        out.append("module Top (")
        out.append("    i_clk: input clock,")
        out.append("    i_c: input logic<8>,")
        out.append("    i_s: input logic<256>,")
        for v in self.vars:
            if v["out"]:
                out.append("    %s: output logic<%d>," % (v["name"], v["width"]))
        out.append(") {")
        for v in self.vars:
            if not v["out"]:
                out.append("    var %s: logic<%d>;" % (v["name"], v["width"]))
        for pi, p in enumerate(self.procs):
            k = p[0]
            if k == "comb":
                out.append("    always_comb {")
                for s in p[1]:
                    self.stmt_v(s, 2, out)
                out.append("    }")
            elif k == "assign":
                tmp = []
                self.stmt_v(p[1], 0, tmp)
                out.append("    assign %s" % tmp[0])
            elif k == "ff":
                out.append("    always_ff {")
                for s in p[1]:
                    self.stmt_v(s, 2, out)
                out.append("    }")
            elif k == "inst":
                out.append("    inst ui%d: Child%d (" % (pi, p[3]))
                for j, r in enumerate(p[2]):
                    out.append("        a%d: %s," % (j, self.part_v(r)))
                for j, (v, hi, lo) in enumerate(p[1]):
                    out.append("        b%d: %s," % (j, self.lhs_v(v, hi, lo)))
                out.append("    );")
        out.append("}")
        self.text = "\n".join(out) + "\n"
        return self.text


def rwidth(r):
    if r[0] == "v":
        return r[2] - r[3] + 1
    return r[1]


class AsgGen:
    def __init__(self, rng):
        self.rng = rng

    def width(self):
        rng = self.rng
        return rng.choice(BOUNDARY_W) if rng.random() < 0.7 else rng.randint(1, 140)

    def cuts(self, w):
        """partition [0, w) into 1..4 segments, boundaries biased to 63/64/65/127/128"""
        rng = self.rng
        n = rng.choice([1, 2, 2, 3, 4])
        pts = set()
        cand = [c for c in (1, 2, 4, 32, 63, 64, 65, 127, 128, 129) if 0 < c < w]
        while len(pts) < min(n - 1, w - 1):
            if cand and rng.random() < 0.6:
                pts.add(rng.choice(cand))
            else:
                pts.add(rng.randint(1, w - 1))
        pts = sorted(pts)
        segs = []
        lo = 0
        for p in pts + [w]:
            segs.append((p - 1, lo))
            lo = p
        return segs

    def reads_for(self, width, avoid=None, from_var=0.35):
        """right-hand side of `width` bits: parts of tracked variables and of the input i_s"""
        rng, d = self.rng, self.d
        out = []
        left = width
        while left > 0:
            if rng.random() < from_var and d.vars:
                v = rng.randrange(len(d.vars))
                if v != avoid and v != getattr(self, "scratch", None):
                    w = d.vars[v]["width"]
                    n = min(left, w, rng.choice([1, 2, 4, 64, 65, 200]))
                    lo = rng.randint(0, w - n)
                    if rng.random() < 0.4:
                        lo = rng.choice([x for x in (0, 63, 64, 127, 128, w - n) if 0 <= x <= w - n])
                    out.append(("v", v, lo + n - 1, lo, "sel"))
                    left -= n
                    d.tags.add("read-var")
                    continue
            n = min(left, rng.choice([1, 3, 8, 64, 100, 256]))
            lo = rng.randint(0, 256 - n)
            out.append(("i", n, lo))
            left -= n
        return out

    def cond(self, two=False):
        rng, d = self.rng, self.d
        if rng.random() < 0.2 and d.vars:
            v = rng.randrange(len(d.vars))
            w = d.vars[v]["width"]
            if two and w >= 2:
                d.tags.add("cond-reads-var")
                return ("v2", v, rng.randint(0, w - 2))
            if not two:
                d.tags.add("cond-reads-var")
                return ("v", v, rng.randint(0, w - 1))
        return ("i2", rng.randint(0, 6)) if two else ("i", rng.randint(0, 7))

    def write(self, v, hi, lo, avoid_self=True):
        return ("w", v, hi, lo, self.reads_for(hi - lo + 1, avoid=v if avoid_self else None))

    def sub(self, hi, lo):
        """sub-range of [lo, hi] (off by one at an end, or random)"""
        rng = self.rng
        if hi == lo:
            return hi, lo
        r = rng.random()
        if r < 0.4:
            return hi - 1, lo
        if r < 0.8:
            return hi, lo + 1
        a = rng.randint(lo, hi)
        b = rng.randint(lo, a)
        return a, b

    def pattern(self, v, hi, lo, comb):
        """statements writing segment [lo, hi] of v"""
        rng, d = self.rng, self.d
        r = rng.random()
        W = lambda h=hi, l=lo: self.write(v, h, l)
        if r < 0.22 or not comb and r < 0.4:
            d.tags.add("plain-write")
            return [W()]
        if r < 0.32:
            d.tags.add("default-then-if")
            return [W(), ("if", self.cond(), [W()], None)]
        if r < 0.40:
            d.tags.add("if-without-else")
            return [("if", self.cond(), [W()], None)]
        if r < 0.50:
            d.tags.add("if-else")
            return [("if", self.cond(), [W()], [W()])]
        if r < 0.57:
            d.tags.add("if-else-partial")
            h2, l2 = self.sub(hi, lo)
            return [("if", self.cond(), [W()], [W(h2, l2)])]
        if r < 0.64:
            d.tags.add("case-default")
            return [("case", self.cond(True), [[W()], [W()]], [W()])]
        if r < 0.69:
            d.tags.add("case-without-default")
            return [("case", self.cond(True), [[W()], [W()]], None)]
        if r < 0.74:
            d.tags.add("case-arm-misses")
            h2, l2 = self.sub(hi, lo)
            arms = [[W()], [W(h2, l2)]]
            rng.shuffle(arms)
            return [("case", self.cond(True), arms, [W()])]
        if r < 0.80:
            d.tags.add("switch")
            n = rng.choice([1, 2])
            dflt = [W()] if rng.random() < 0.6 else None
            if dflt is None:
                d.tags.add("switch-without-default")
            return [("switch", [(self.cond(), [W()]) for _ in range(n)], dflt)]
        if r < 0.84 and comb:
            d.tags.add("if-then-later-write")
            return [("if", self.cond(), [W()], None), W()]
        if r < 0.90 and hi - lo + 1 <= 12:
            d.tags.add("for-loop")
            src = ("i",)
            if rng.random() < 0.3 and d.vars:
                u = rng.randrange(len(d.vars))
                if u != v and d.vars[u]["width"] > hi:
                    src = ("v", u)
            return [("for", v, hi, lo, src)]
        if r < 0.95:
            d.tags.add("nested-if")
            return [W(), ("if", self.cond(), [("if", self.cond(), [W()], [W()])], None)]
        d.tags.add("write-twice")
        h2, l2 = self.sub(hi, lo)
        return [W(), W(h2, l2)]

    def rba(self, v, hi, lo):
        """read-before-assign shapes inside an always_comb: read of v then write of v"""
        rng, d = self.rng, self.d
        # a scratch destination that takes the read
        o = self.scratch
        ow = d.vars[o]["width"]
        n = min(hi - lo + 1, ow)
        r = rng.random()
        rd = ("v", v, lo + n - 1, lo, "sel")
        sink = ("w", o, n - 1, 0, [rd])
        rest = [("w", o, ow - 1, n, [("i", ow - n, 0)])] if n < ow else []
        if r < 0.4:
            d.tags.add("read-then-write")
            return rest + [sink, self.write(v, hi, lo)]
        if r < 0.6:
            d.tags.add("write-then-read")
            return rest + [self.write(v, hi, lo), sink]
        if r < 0.8 and hi > lo:
            d.tags.add("partial-write-read-write")
            return rest + [self.write(v, lo, lo), sink, self.write(v, hi, lo)]
        d.tags.add("branch-write-else-read-write")
        return rest + [("w", o, n - 1, 0, [("i", n, 0)]),
                       ("if", self.cond(), [self.write(v, hi, lo)], [sink, self.write(v, hi, lo)])]

    def writes_var(self, p, v):
        return ("(SWrite %d " % v) in self.d.proc_coq(p)

    def design(self):
        rng = self.rng
        d = AsgDesign()
        self.d = d
        nv = rng.choice([1, 2, 2, 3, 4])
        for i in range(nv):
            out = rng.random() < 0.5
            w = self.width()
            d.vars.append({"name": ("o_%d" if out else "v_%d") % i, "width": w, "out": out})
        # a scratch output that absorbs reads (so that variables count as read)
        self.scratch = len(d.vars)
        d.vars.append({"name": "o_sink", "width": rng.choice([1, 4, 8]), "out": True})
        sink_used = False
        # ownership of segments
        work = []   # (var, hi, lo)
        for v in range(nv):
            w = d.vars[v]["width"]
            segs = self.cuts(w)
            for (hi, lo) in segs:
                r = rng.random()
                if r < 0.12:
                    d.tags.add("segment-unassigned")
                    continue
                work.append((v, hi, lo))
                if r > 0.85 and hi + 1 < w:
                    # a second driver reaching one bit into the neighbour, or the same range
                    d.tags.add("overlap-by-one")
                    work.append((v, hi + 1, hi + 1 if rng.random() < 0.5 else lo))
                elif r > 0.80:
                    d.tags.add("overlap-same-range")
                    work.append((v, hi, lo))
        rng.shuffle(work)
        procs = []
        while work:
            k = rng.choice(["comb", "comb", "assign", "ff", "inst"])
            if k == "assign":
                v, hi, lo = work.pop()
                procs.append(("assign", self.write(v, hi, lo)))
                d.tags.add("assign-decl")
            elif k in ("comb", "ff"):
                n = min(len(work), rng.choice([1, 1, 2, 3]))
                mine = [work.pop() for _ in range(n)]
                # within one process every variable range is written by one pattern only
                body = []
                seen = []
                for (v, hi, lo) in mine:
                    if any(v == a and not (hi < c or lo > b) for (a, b, c) in seen):
                        work.append((v, hi, lo))
                        continue
                    seen.append((v, hi, lo))
                    if k == "comb" and rng.random() < 0.15 and not sink_used:
                        body += self.rba(v, hi, lo)
                        sink_used = True
                    else:
                        body += self.pattern(v, hi, lo, k == "comb")
                if not body:
                    continue
                procs.append((k, body))
                d.tags.add("always_" + k)
            else:
                n = min(len(work), rng.choice([1, 2]))
                mine = []
                for _ in range(n):
                    c = work.pop()
                    if any(c[0] == a and not (c[1] < cc or c[2] > b) for (a, b, cc) in mine):
                        work.append(c)
                        break
                    mine.append(c)
                if not mine:
                    continue
                ins = self.reads_for(rng.choice([1, 4, 8]), from_var=0.5)
                ci = len(d.children)
                txt = ["module Child%d (" % ci]
                for j, r in enumerate(ins):
                    txt.append("    a%d: input logic<%d>," % (j, rwidth(r)))
                for j, (v, hi, lo) in enumerate(mine):
                    txt.append("    b%d: output logic<%d>," % (j, hi - lo + 1))
                txt.append(") {")
                for j, (v, hi, lo) in enumerate(mine):
                    txt.append("    assign b%d = '0;" % j)
                txt.append("}")
                d.children.append(txt)
                procs.append(("inst", mine, ins, ci))
                d.tags.add("module-instance")
        # a plain variable that nothing drives must at least be read (a never-driven, never-read
        # variable is outside the property's statement)
        for v in range(nv):
            if not d.vars[v]["out"] and not any(self.writes_var(p, v) for p in procs):
                procs.append(("assign", self.write(v, d.vars[v]["width"] - 1, 0)))
        if not sink_used:
            # sink reads some variable parts so that they count as read
            ow = d.vars[self.scratch]["width"]
            procs.append(("assign", ("w", self.scratch, ow - 1, 0, self.reads_for(ow, from_var=0.8))))
        d.procs = procs
        return d
